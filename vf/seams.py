"""Seams that put every source of nondeterminism of the implementation under the
explorer's control.  All of them are installed from outside (module attribute
replacement); nothing in /repo is edited.

  * ChoiceShim     - replaces `random` inside a module: `choice(seq)` becomes an
                     enumerated choice point.
  * UidCounter     - replaces `nemoguardrails.utils.secure_random`; uids become a
                     function of creation order (counter is part of explorer state).
  * VirtualClock   - `datetime` replacement whose `now()` is explorer controlled.
  * CountingDeque  - `deque` replacement counting popleft() calls (step budget).
"""
from __future__ import annotations

import collections
import datetime as _dt
import os
import random as _random


class ChoiceExhausted(Exception):
    pass


class ChoiceShim(_random.Random):
    """`random` stand-in.  choice(seq) consults the current choice vector."""

    def __init__(self, seed: int = 0):
        super().__init__(seed)
        self.vector: list[int] = []
        self.points: list[tuple[int, int]] = []  # (taken, width)
        self.strict = False

    # the module-level API used by the library: random.choice / random.random / ...
    def begin(self, vector):
        self.vector = list(vector)
        self.points = []

    def choice(self, seq):  # type: ignore[override]
        n = len(seq)
        if n == 0:
            raise IndexError("Cannot choose from an empty sequence")
        i = len(self.points)
        if i < len(self.vector):
            k = self.vector[i]
            if k >= n:
                raise ChoiceExhausted(
                    f"replayed choice {k} out of range {n} at point {i}"
                )
        else:
            k = 0
        self.points.append((k, n))
        return seq[k]

    def taken(self):
        return [k for k, _ in self.points]


class UidCounter:
    """secure_random stand-in: getrandbits returns salt+counter."""

    def __init__(self, salt: int = 0):
        self.salt = (salt & 0xFFFF) << 96
        self.n = 0

    def getrandbits(self, k):
        self.n += 1
        return self.salt | self.n

    # used by a few helper paths (`secure_random.choice`, `.random`)
    def choice(self, seq):
        return seq[0]

    def random(self):
        return 0.0

    def seed(self, *_a, **_k):
        pass


class VirtualClock:
    def __init__(self):
        self.t = _dt.datetime(2030, 1, 1, 0, 0, 0)

    def advance(self, seconds: float):
        self.t = self.t + _dt.timedelta(seconds=seconds)


_CLOCK = VirtualClock()


class _VDateTimeMeta(type(_dt.datetime)):
    pass


class VDateTime(_dt.datetime):
    """datetime subclass with an explorer-owned now()."""

    @classmethod
    def now(cls, tz=None):  # type: ignore[override]
        t = _CLOCK.t
        if tz is not None:
            t = t.replace(tzinfo=tz)
        return t


class CountingDeque(collections.deque):
    pops = 0
    budget = None

    def popleft(self):
        CountingDeque.pops += 1
        if CountingDeque.budget is not None and CountingDeque.pops > CountingDeque.budget:
            raise StepBudgetExceeded(CountingDeque.pops)
        return super().popleft()


class StepBudgetExceeded(BaseException):
    """BaseException so that the library's `except Exception` cannot swallow it."""


SEED = int(os.environ.get("VERIF_SEED", "0") or 0)

CHOICE = ChoiceShim(SEED)
UIDS = UidCounter(SEED)


def clock() -> VirtualClock:
    return _CLOCK


_installed = False


def install_v2x():
    """Install the seams for the Colang 2.x interpreter.  Idempotent."""
    global _installed
    import nemoguardrails.utils as nu
    from nemoguardrails.colang.v2_x.runtime import flows, statemachine

    statemachine.random = CHOICE
    nu.secure_random = UIDS
    statemachine.datetime = VDateTime
    flows.datetime = VDateTime
    nu.datetime = VDateTime          # `event_created_at` of emitted events (they reach action contexts when fed back)
    statemachine.deque = CountingDeque
    _installed = True
    return CHOICE, UIDS, _CLOCK


def selftest():
    """Prove that the seams own what they claim (used by setup_cmd)."""
    import nemoguardrails.utils as nu

    install_v2x()
    from nemoguardrails.colang.v2_x.runtime import statemachine

    UIDS.n = 0
    a = nu.new_uuid()
    UIDS.n = 0
    b = nu.new_uuid()
    assert a == b, "uid seam not effective"
    CHOICE.begin([1])
    assert statemachine.random.choice(["x", "y"]) == "y"
    assert CHOICE.points == [(1, 2)]
    t0 = statemachine.datetime.now()
    _CLOCK.advance(6)
    assert (statemachine.datetime.now() - t0).total_seconds() == 6
    return True


class GlobalsGuard:
    """Process-global mutable containers of library modules (module attributes and attributes of the classes
    defined there) are put back to their import-time content before every execution: state an execution leaves
    in such a container is nondeterminism the explorer has to own (a fresh world must not see the previous one)."""

    _TYPES = (dict, list, set, collections.deque)

    def __init__(self, modules):
        self.slots = []
        for mod in modules:
            owners = [mod] + [v for v in vars(mod).values() if isinstance(v, type) and getattr(v, "__module__", None) == mod.__name__]
            for owner in owners:
                for name, val in list(vars(owner).items()):
                    if name.startswith("__") or not isinstance(val, self._TYPES):
                        continue
                    self.slots.append((owner, name, val, type(val)(val)))
        self.restored = 0

    def restore(self):
        for owner, name, obj, snap in self.slots:
            if len(obj) != len(snap) or (obj != snap if not isinstance(obj, collections.deque) else list(obj) != list(snap)):
                self.restored += 1
                obj.clear()
                if isinstance(obj, dict):
                    obj.update(snap)
                elif isinstance(obj, set):
                    obj |= snap
                else:
                    obj.extend(snap)
