"""E2 - schedule exploration on a virtual asyncio loop (stateless DFS with prefix replay).

What is real, what is owned
---------------------------
`VirtualLoop` is a genuine `asyncio.BaseEventLoop`: stock `Task`, `Future`, `Event`, `Queue`,
`wait`, `wait_for`, `sleep`, `ensure_future`, `create_task` run on it unchanged.  It has no selector
and never blocks.  Its two queues are driven by hand:

  * `_ready` (FIFO by asyncio's contract) is drained in order and is NEVER permuted - permuting it
    would report schedules a real loop cannot produce;
  * `_scheduled` timers never fire on their own: firing one is an explicit *choice*; `time()` is a
    virtual clock that only moves when a timer is fired (to that timer's `when`).
  * `run_in_executor` runs the function inline and is counted (`executor_calls`).

The enumerated nondeterminism is the **external completion order**.  One execution is described by
an `Env`; the harness registers its external events there:

  * `env.arrival(label, factory)`   - "request `label` arrives": taking the choice starts the
                                       coroutine `factory()` as a harness task (result recorded);
  * `env.external(label, result)`   - an explorer-owned future (e.g. "model call j answers"):
                                       the library code awaits it, taking the choice resolves it;
  * timers                          - every pending `call_later`/`call_at` handle (`asyncio.sleep`,
                                       `wait_for` timeouts ...) is a choice `("timer", n)`, n = the
                                       n-th timer created in this execution.

After every choice the ready queue is drained to quiescence (`granularity="quiescence"`), then the
enabled choices are listed in a canonical order.  With `granularity="iteration"` an extra choice
`("tick",)` = "run ONE loop iteration" (all handles that are ready now, exactly what
`BaseEventLoop._run_once` does between two polls) is listed first while the ready queue is not
empty and the external choices stay enabled: external events can then land between any two loop
iterations, which is where a real selector delivers them.

Timer order (`timer_policy`): durations of external events are unconstrained, so any timer may beat
any external completion; between two timers `"when"` (default) enables only the pending timer with
the smallest `(when, creation number)` - exact when all delays are equal (later created = later
due), which is the case for the harnesses using it; `"any"` enables every pending timer (an
over-approximation for heterogeneous delays).

A `Task` cannot be deep-copied, so the search is **stateless**: every execution starts from a
fresh loop and fresh objects built by the user's `make(env)` and replays a choice prefix; while
replaying, the list of enabled choices at every depth must be identical to the one recorded when
the prefix was first run (`HarnessError` otherwise: some nondeterminism is not owned).

What a virtual loop does NOT own: `time.time()`/`time.monotonic()` read directly by the code under
test, mutated module-level state that `make` does not reset, the iteration order of sets
(`asyncio.wait` returns sets), real threads, GC-timed "exception was never retrieved" messages
(collected in `loop.reported`, never part of an observation).

Bounds of one execution: `max_handles` ready-queue handles, `max_choices` choices (outcome "horizon"),
and optionally `watchdog_s` seconds of CPU (ITIMER_VIRTUAL; outcome "spin": a callback that never
yields, e.g. `while cond: await already_set_event.wait()`).  "No enabled choice but an unfinished
harness task (or a never started arrival)" is outcome "stuck" = deadlock.

API (10 lines)
--------------
  loop = VirtualLoop(); loop.install(); loop.drain(); loop.run_iteration(); loop.pending_timers();
         loop.fire(handle); loop.uninstall(); loop.close()          # the bare loop, usable alone
  env = Env(granularity="quiescence"|"iteration", timer_policy="when"|"any", order=("start","ext","timer"),
            max_handles=20000)                                       # one execution (installs its loop)
  env.arrival(label, factory, gate=None); env.external(label, result=None, exception=None) -> Future;
  env.spawn(label, coro); env.run_now(coro) -> result                # registering / setup helpers
  env.enabled() -> [label]; env.take(label); env.settle(); env.close()   # stepping by hand
  env.results {label: ("ok", v) | ("exc", e) | ("cancelled",)}, env.trace, env.unfinished(), env.all_done(),
  env.background_failures() -> [(coro name, exc)], env.where_blocked(label) -> ([coro names], awaited future)
  run_script(make, labels, on_step=None, watchdog_s=None, **env_kw) -> (env, world, outcome)   # replay one schedule
  Explorer(make, on_execution, observe=None, max_choices=200, max_deviations=None, validate_mod=0, deadline=None,
           stop_when_done=True, on_step=None, watchdog_s=None, **env_kw).run() -> stats {executions, states,
           transitions, choices_executed, handles_run, executor_calls, validated, bound_pruned, complete, ...}
"""
from __future__ import annotations

import asyncio
import heapq
import signal
import threading
import time as _time
import zlib
from asyncio import events

__all__ = ["VirtualLoop", "Env", "Explorer", "run_script", "HarnessError", "HorizonExceeded"]


class HarnessError(RuntimeError):
    """The harness (not the code under test) is wrong: e.g. a replay diverged."""


class HorizonExceeded(Exception):
    """An execution ran more ready-queue handles than its step horizon allows."""


# ---------------------------------------------------------------------------------------- the loop
class VirtualLoop(asyncio.BaseEventLoop):
    """A BaseEventLoop without selector, with a virtual clock, driven by hand."""

    def __init__(self):
        super().__init__()
        self._vtime = 0.0
        self._vseq = 0              # number of timers created so far
        self._vtimers = []          # [(creation number, TimerHandle)] still in _scheduled
        self.executor_calls = 0
        self.handles_run = 0
        self.tasks = []             # every task ever created on this loop (strong refs: no GC-timed noise)
        self.reported = []          # contexts passed to the loop exception handler
        self.set_exception_handler(self._collect)
        self._prev_running = None

    # -- what BaseEventLoop leaves to subclasses
    def _process_events(self, event_list):
        pass

    def _write_to_self(self):
        pass

    def time(self):
        return self._vtime

    def _collect(self, loop, context):
        self.reported.append({k: (v if isinstance(v, str) else repr(v)) for k, v in context.items()})

    def run_forever(self):
        raise HarnessError("VirtualLoop is driven by hand (drain / run_iteration / fire)")

    def run_until_complete(self, future):
        raise HarnessError("VirtualLoop is driven by hand (drain / run_iteration / fire)")

    # -- tasks, timers, executor
    def create_task(self, coro, **kw):
        task = super().create_task(coro, **kw)
        self.tasks.append(task)
        return task

    def call_at(self, when, callback, *args, context=None):
        timer = super().call_at(when, callback, *args, context=context)
        self._vseq += 1
        self._vtimers.append((self._vseq, timer))
        return timer

    def run_in_executor(self, executor, func, *args):
        self._check_closed()
        self.executor_calls += 1
        fut = self.create_future()
        try:
            fut.set_result(func(*args))
        except Exception as e:  # noqa - delivered to the awaiting coroutine, as a real executor does
            fut.set_exception(e)
        return fut

    # -- driving
    def install(self):
        """Make this the running loop of the current thread (get_running_loop / ensure_future / Event see it)."""
        prev = events._get_running_loop()
        self._prev_running = prev if prev is not self else None
        events._set_running_loop(self)
        self._thread_id = threading.get_ident()     # is_running() is True while installed

    def uninstall(self):
        self._thread_id = None
        events._set_running_loop(self._prev_running)
        self._prev_running = None

    def drain(self, budget=100000):
        """Run ready handles FIFO until the queue is empty; -> number of handles run."""
        ready = self._ready
        n = 0
        while ready:
            h = ready.popleft()
            if h._cancelled:
                continue
            h._run()
            n += 1
            if n > budget:
                self.handles_run += n
                raise HorizonExceeded(f"more than {budget} ready handles in one drain")
        self.handles_run += n
        return n

    def run_iteration(self):
        """One loop iteration: the handles that are ready now (not the ones they schedule)."""
        ready = self._ready
        n = 0
        for _ in range(len(ready)):
            h = ready.popleft()
            if h._cancelled:
                continue
            h._run()
            n += 1
        self.handles_run += n
        return n

    def has_ready(self):
        return any(not h._cancelled for h in self._ready)

    def pending_timers(self):
        """[(creation number, handle)] of the live timers in firing order (when, creation number)."""
        live = []
        dropped = False
        for seq, h in self._vtimers:
            if h._cancelled:
                h._scheduled = False
                dropped = True
            else:
                live.append((seq, h))
        if dropped:
            self._vtimers = live
            self._scheduled[:] = [h for _s, h in live]
            heapq.heapify(self._scheduled)
            self._timer_cancelled_count = 0
        return sorted(live, key=lambda sh: (sh[1]._when, sh[0]))

    def fire(self, handle):
        """The timer is due: the clock jumps to its `when` (never backwards), the handle becomes ready."""
        for i, (_seq, h) in enumerate(self._vtimers):
            if h is handle:
                del self._vtimers[i]
                break
        else:
            raise HarnessError("fire(): not a pending timer of this loop")
        self._scheduled[:] = [h for _s, h in self._vtimers]
        heapq.heapify(self._scheduled)
        handle._scheduled = False
        if handle._when > self._vtime:
            self._vtime = handle._when
        self._ready.append(handle)

    def close(self):
        """Silence GC-timed reports of what the abandoned execution left behind, then close."""
        for t in self.tasks:
            if t.done():
                if not t.cancelled():
                    t.exception()           # marks the exception as retrieved
            else:
                t._log_destroy_pending = False
        self._vtimers = []
        if self._thread_id is not None:
            self.uninstall()
        super().close()


# ------------------------------------------------------------------------------------ one execution
class Env:
    """One execution: a fresh VirtualLoop plus the registry of explorer-owned choices.

    Labels are tuples/strings chosen by the harness; they must be deterministic functions of the
    choice prefix (e.g. "the j-th model call of this execution"), never object ids."""

    def __init__(self, granularity="quiescence", timer_policy="when",
                 order=("start", "ext", "timer"), max_handles=20000):
        assert granularity in ("quiescence", "iteration") and timer_policy in ("when", "any")
        self.loop = VirtualLoop()
        self.granularity = granularity
        self.timer_policy = timer_policy
        self.order = order
        self.max_handles = max_handles
        self._arrivals = []     # [label, factory, gate, started]
        self._externals = []    # [label, future, result, exception]
        self._harness = {}      # label -> task
        self.results = {}       # label -> ("ok", value) | ("exc", exception) | ("cancelled",)
        self.trace = []         # labels taken
        self.horizon = None     # set to a message when the step horizon stopped the execution
        self.loop.install()

    # -- registration
    def arrival(self, label, factory, gate=None):
        """Choice ("start", label): start coroutine factory() as a harness task.  gate() -> bool
        (optional) must be true for the choice to be enabled (e.g. 'the first round is over')."""
        self._arrivals.append([label, factory, gate, False])

    def external(self, label, result=None, exception=None):
        """-> a future owned by the explorer.  Choice ("ext", label) resolves it with `result`
        (called first if callable) or raises `exception` in the awaiter."""
        fut = self.loop.create_future()
        self._externals.append([label, fut, result, exception])
        return fut

    def spawn(self, label, coro):
        """Start a harness task right away (its completion is required, its result recorded)."""
        task = self.loop.create_task(self._wrap(label, coro))
        self._harness[label] = task
        return task

    def run_now(self, coro):
        """Setup helper: run a coroutine that needs no external choice to completion, return its result."""
        task = self.loop.create_task(coro)
        self.loop.drain(self.max_handles)
        if not task.done():
            raise HarnessError("run_now(): the coroutine is waiting for an external choice")
        return task.result()

    async def _wrap(self, label, coro):
        try:
            self.results[label] = ("ok", await coro)
        except asyncio.CancelledError:
            self.results[label] = ("cancelled",)
            raise
        except Exception as e:  # noqa - an observation about the code under test
            self.results[label] = ("exc", e)

    # -- stepping
    def enabled(self):
        groups = {"start": [], "ext": [], "timer": []}
        for a in self._arrivals:
            if not a[3] and (a[2] is None or a[2]()):
                groups["start"].append(("start", a[0]))
        for x in self._externals:
            if not x[1].done():
                groups["ext"].append(("ext", x[0]))
        timers = self.loop.pending_timers()
        if self.timer_policy == "when":
            timers = timers[:1]
        for seq, _h in timers:
            groups["timer"].append(("timer", seq))
        out = []
        if self.granularity == "iteration" and self.loop.has_ready():
            out.append(("tick",))
        for g in self.order:
            out.extend(groups[g])
        return out

    def take(self, label):
        kind = label[0]
        self.trace.append(label)
        if kind == "tick":
            self.loop.run_iteration()
            return
        if kind == "start":
            for a in self._arrivals:
                if a[0] == label[1] and not a[3]:
                    a[3] = True
                    self._harness[a[0]] = self.loop.create_task(self._wrap(a[0], a[1]()))
                    return
        elif kind == "ext":
            for x in self._externals:
                if x[0] == label[1] and not x[1].done():
                    if x[3] is not None:
                        x[1].set_exception(x[3])
                    else:
                        x[1].set_result(x[2]() if callable(x[2]) else x[2])
                    return
        elif kind == "timer":
            for seq, h in self.loop.pending_timers():
                if seq == label[1]:
                    self.loop.fire(h)
                    return
        raise HarnessError(f"choice {label!r} is not enabled (trace so far {self.trace[:-1]!r})")

    def settle(self):
        """After a choice: drain to quiescence (nothing in iteration granularity: ticks are choices)."""
        if self.granularity == "quiescence":
            self.loop.drain(self.max_handles)
        if self.loop.handles_run > self.max_handles:
            raise HorizonExceeded(f"more than {self.max_handles} ready handles in one execution")

    # -- inspection
    def all_started(self):
        return all(a[3] for a in self._arrivals)

    def all_done(self):
        return self.all_started() and all(t.done() for t in self._harness.values()) and not (
            self.granularity == "iteration" and self.loop.has_ready())

    def unfinished(self):
        """labels of harness tasks that did not finish + arrivals never started"""
        return [l for l, t in self._harness.items() if not t.done()] + [a[0] for a in self._arrivals if not a[3]]

    def background_failures(self):
        """[(coroutine name, exception)] of non-harness tasks that ended with an exception"""
        mine = set(map(id, self._harness.values()))
        out = []
        for t in self.loop.tasks:
            if id(t) not in mine and t.done() and not t.cancelled() and t.exception() is not None:
                out.append((getattr(t.get_coro(), "__qualname__", "?"), t.exception()))
        return out

    def where_blocked(self, label):
        """-> ([coroutine names from the harness task inwards], the awaited future or None)"""
        task = self._harness.get(label)
        if task is None or task.done():
            return [], None
        names, cur = [], task.get_coro()
        while cur is not None and (hasattr(cur, "cr_code") or hasattr(cur, "gi_code")):
            names.append(getattr(cur, "__qualname__", type(cur).__name__))
            nxt = getattr(cur, "cr_await", None)
            if nxt is None:
                nxt = getattr(cur, "gi_yieldfrom", None)
            cur = nxt
        return names, getattr(task, "_fut_waiter", None)

    def close(self):
        self.loop.close()


class _Spin(KeyboardInterrupt):
    """Raised by the watchdog (ITIMER_VIRTUAL: user CPU time of one execution, so I/O stalls do not count)
    inside code that runs for seconds without yielding to the loop (KeyboardInterrupt subclass: asyncio
    lets it propagate out of Task steps and Handle._run)."""


def _on_alarm(_sig, _frm):
    raise _Spin()


def _run(make, script, env_kw, max_choices, stop_when_done, expect=None, extend=True, on_step=None,
         watchdog_s=None):
    """One execution: follow `script`, then (extend=True) always the first enabled choice.
    -> (env, world, frames=[(enabled, index taken)], outcome); outcome: "done" | "stuck" (nothing enabled,
    harness work unfinished) | "horizon" | "open" (extend=False: script over, choices still enabled)"""
    env = Env(**env_kw)
    frames = []
    world = None
    old_handler = None
    if watchdog_s:
        old_handler = signal.signal(signal.SIGVTALRM, _on_alarm)
        signal.setitimer(signal.ITIMER_VIRTUAL, watchdog_s)
    try:
        world = make(env)
        env.settle()
        outcome = None
        if on_step is not None:
            on_step(env, world)
        while True:
            if stop_when_done and env.all_done():
                outcome = "done"
                break
            en = env.enabled()
            if not en:
                outcome = "done" if env.all_done() else "stuck"
                break
            depth = len(frames)
            if depth >= len(script) and not extend:
                outcome = "open"
                break
            if depth >= max_choices:
                env.horizon = f"more than {max_choices} choices"
                outcome = "horizon"
                break
            if depth < len(script):
                label = script[depth]
                try:
                    idx = en.index(label)
                except ValueError:
                    raise HarnessError(f"replay diverged at depth {depth}: {label!r} not among {en!r}; "
                                       f"script {script!r}")
                if expect is not None and depth < len(expect) and expect[depth] != en:
                    raise HarnessError(f"replay diverged at depth {depth}: enabled {en!r}, first seen "
                                       f"{expect[depth]!r}; script {script!r}")
            else:
                idx, label = 0, en[0]
            frames.append((en, idx))
            env.take(label)
            try:
                env.settle()
            except HorizonExceeded as e:
                env.horizon = str(e)
                outcome = "horizon"
                break
            if on_step is not None:
                on_step(env, world)
        return env, world, frames, outcome
    except _Spin:
        if world is None:
            env.close()
            raise HarnessError("watchdog fired inside make()")
        env.horizon = f"one execution burnt more than {watchdog_s} s of CPU (a callback that never yields)"
        return env, world, frames, "spin"
    except BaseException:
        env.close()
        raise
    finally:
        if watchdog_s:
            signal.setitimer(signal.ITIMER_VIRTUAL, 0)
            signal.signal(signal.SIGVTALRM, old_handler)
        if env.loop._thread_id is not None:
            env.loop.uninstall()


def run_script(make, labels, max_choices=10000, stop_when_done=True, on_step=None, watchdog_s=None, **env_kw):
    """Run exactly the given choices (lists are turned back into tuples), then stop.
    -> (env, world, outcome); the caller closes env."""
    script = [tuple(x) if isinstance(x, list) else x for x in labels]
    script = [tuple(tuple(y) if isinstance(y, list) else y for y in x) if isinstance(x, tuple) else x for x in script]
    env, world, _frames, outcome = _run(make, script, env_kw, max_choices, stop_when_done, extend=False,
                                        on_step=on_step, watchdog_s=watchdog_s)
    return env, world, outcome


# ----------------------------------------------------------------------------------------- the DFS
class Explorer:
    """Stateless depth-first enumeration of all choice sequences.

    make(env) -> world             builds fresh objects and registers arrivals / externals on env
    on_execution(env, world, info) judges one complete execution; info = {"trace", "outcome"
                                   ("done" | "stuck" = no enabled choice but unfinished harness work |
                                   "horizon" = step horizon | "spin" = watchdog_s seconds inside one
                                   callback), "deviations", "index"}
    on_step(env, world)            (optional) called at every quiescent point (monitors, counters)
    observe(env, world) -> value   (optional) what must be identical when a schedule is re-run; used
                                   with validate_mod=N: the executions whose trace hashes to 0 mod N are
                                   replayed twice from scratch and compared (HarnessError on divergence)
    max_deviations                 None = everything; d = only schedules with <= d choices that are not
                                   the first enabled one (stats["bound_pruned"] tells whether it cut anything)
    deadline                       absolute time.time(); when passed the search stops (stats["complete"] False)
    """

    def __init__(self, make, on_execution, observe=None, max_choices=200, max_deviations=None,
                 validate_mod=0, deadline=None, stop_when_done=True, on_step=None, watchdog_s=None, **env_kw):
        self.on_step = on_step
        self.watchdog_s = watchdog_s
        self.make = make
        self.on_execution = on_execution
        self.observe = observe
        self.max_choices = max_choices
        self.max_deviations = max_deviations
        self.validate_mod = validate_mod
        self.deadline = deadline
        self.stop_when_done = stop_when_done
        self.env_kw = env_kw
        self.stats = {
            "executions": 0, "states": 0, "transitions": 0, "choices_executed": 0, "handles_run": 0,
            "executor_calls": 0, "max_depth": 0, "max_enabled": 0, "stuck": 0, "horizon_hits": 0,
            "validated": 0, "bound_pruned": 0, "complete": True, "max_deviations_seen": 0,
        }

    def run(self):
        st = self.stats
        stack = []          # [(enabled, idx)] of the current execution
        keep = 0            # frames [0, keep) were already counted as visited prefixes
        st["states"] = 1    # the empty prefix
        while True:
            script = [en[i] for en, i in stack]
            expect = [en for en, _i in stack]
            env, world, frames, outcome = _run(self.make, script, self.env_kw, self.max_choices,
                                               self.stop_when_done, expect, on_step=self.on_step,
                                               watchdog_s=self.watchdog_s)
            try:
                st["executions"] += 1
                st["choices_executed"] += len(frames)
                st["handles_run"] += env.loop.handles_run
                st["executor_calls"] += env.loop.executor_calls
                new = len(frames) - keep
                st["states"] += new
                st["transitions"] += new
                st["max_depth"] = max(st["max_depth"], len(frames))
                for en, _i in frames[keep:]:
                    if len(en) > st["max_enabled"]:
                        st["max_enabled"] = len(en)
                dev = sum(1 for _en, i in frames if i)
                st["max_deviations_seen"] = max(st["max_deviations_seen"], dev)
                if outcome == "stuck":
                    st["stuck"] += 1
                elif outcome in ("horizon", "spin"):
                    st["horizon_hits"] += 1
                trace = [en[i] for en, i in frames]
                info = {"trace": trace, "outcome": outcome, "deviations": dev, "index": st["executions"] - 1}
                self.on_execution(env, world, info)
                if self.validate_mod and self.observe is not None and \
                        zlib.crc32(repr(trace).encode()) % self.validate_mod == 0:
                    first = self.observe(env, world)
                    for _ in range(2):
                        e2, w2, _f2, _o2 = _run(self.make, trace, self.env_kw, self.max_choices,
                                                self.stop_when_done, [en for en, _i in frames], extend=False,
                                                on_step=self.on_step, watchdog_s=self.watchdog_s)
                        try:
                            again = self.observe(e2, w2)
                        finally:
                            e2.close()
                        if again != first:
                            raise HarnessError(f"two runs of schedule {trace!r} differ:\n {first!r}\n {again!r}")
                    st["validated"] += 1
            finally:
                env.close()
            if outcome == "spin":       # every further schedule may cost watchdog_s again: stop here
                st["complete"] = False
                st["stopped_by_spin"] = 1
                break
            # backtrack: the deepest frame that still has an untried alternative within the bound
            stack = list(frames)
            while stack:
                en, i = stack[-1]
                if i + 1 < len(en):
                    if self.max_deviations is not None:
                        before = sum(1 for _e, j in stack[:-1] if j)
                        if before + 1 > self.max_deviations:
                            st["bound_pruned"] += 1
                            stack.pop()
                            continue
                    stack[-1] = (en, i + 1)
                    break
                stack.pop()
            if not stack:
                break
            keep = len(stack) - 1
            if self.deadline is not None and _time.time() > self.deadline:
                st["complete"] = False
                break
        return st
