"""E3 - the "rails world": a real LLMRails instance in a closed, scripted environment.

  * ScriptedLLM      - langchain LLM whose answers come from the explorer's script; records for
                       every call the task, the full prompt, stop list and its own attribute values.
  * verif_fake       - embedding engine registered through the library's own provider registry
                       (vector = f(sha256(text)); no network, no model download).
  * stub actions     - rail / dialog actions whose verdicts come from the script; every invocation
                       is logged with the text it saw; faults can be injected per invocation index.
"""
from __future__ import annotations

import asyncio
import hashlib
import logging
import os
import warnings
from typing import Any, List, Mapping, Optional

os.environ.setdefault("TOKENIZERS_PARALLELISM", "false")
warnings.filterwarnings("ignore")

from langchain.callbacks.manager import AsyncCallbackManagerForLLMRun, CallbackManagerForLLMRun  # noqa: E402
from langchain.llms.base import LLM  # noqa: E402
from langchain_core.outputs import GenerationChunk  # noqa: E402

from nemoguardrails import LLMRails, RailsConfig  # noqa: E402
from nemoguardrails.context import llm_call_info_var  # noqa: E402
from nemoguardrails.embeddings.providers import register_embedding_provider  # noqa: E402
from nemoguardrails.embeddings.providers.base import EmbeddingModel  # noqa: E402

logging.disable(logging.CRITICAL)


# ----------------------------------------------------------------------------- embeddings
class FakeEmbeddingModel(EmbeddingModel):
    engine_name = "verif_fake"

    def __init__(self, embedding_model: str = "x", **kwargs):
        self.model = embedding_model
        self.embedding_size = 8

    @staticmethod
    def vec(text: str):
        h = hashlib.sha256(text.encode("utf-8", "surrogatepass")).digest()
        return [b / 255.0 for b in h[:8]]

    def encode(self, documents: List[str]) -> List[List[float]]:
        return [self.vec(d) for d in documents]

    async def encode_async(self, documents: List[str]) -> List[List[float]]:
        return self.encode(documents)


try:
    register_embedding_provider(FakeEmbeddingModel)
except Exception:  # already registered (re-import in the same process)
    pass

EMB_YAML = """
models:
  - type: main
    engine: verif_scripted
    model: scripted
  - type: embeddings
    engine: verif_fake
    model: x
"""


# ----------------------------------------------------------------------------- LLM
class ScriptedLLM(LLM):
    """responder(task, prompt, index) -> str ; calls are recorded in .calls"""

    responder: Any = None
    seq_fn: Any = None
    calls: List = []
    temperature: float = 0.5
    max_tokens: int = 100
    model_kwargs: dict = {}
    streaming: bool = False     # True: the answer is also delivered token by token through the run manager

    class Config:
        arbitrary_types_allowed = True
        extra = "allow"

    @property
    def _llm_type(self) -> str:
        return "verif-scripted"

    def _record(self, prompt, stop, kwargs):
        info = llm_call_info_var.get()
        task = getattr(info, "task", None)
        rec = {
            "i": len(self.calls),
            "seq": self.seq_fn() if self.seq_fn else None,
            "task": task,
            "prompt": prompt,
            "stop": stop,
            "temperature": self.temperature,
            "max_tokens": self.max_tokens,
            "model_kwargs": dict(self.model_kwargs or {}),
        }
        self.calls.append(rec)
        return rec

    def _call(self, prompt: str, stop: Optional[List[str]] = None,
              run_manager: Optional[CallbackManagerForLLMRun] = None, **kwargs: Any) -> str:
        rec = self._record(prompt, stop, kwargs)
        rec["answer"] = self.responder(rec["task"], prompt, rec["i"])
        return rec["answer"]

    async def _acall(self, prompt: str, stop: Optional[List[str]] = None,
                     run_manager: Optional[AsyncCallbackManagerForLLMRun] = None, **kwargs: Any) -> str:
        rec = self._record(prompt, stop, kwargs)
        r = self.responder(rec["task"], prompt, rec["i"])
        if asyncio.iscoroutine(r) or isinstance(r, asyncio.Future):
            r = await r
        rec["answer"] = r
        if self.streaming and run_manager is not None:
            words = str(r).split(" ")
            for j, wd in enumerate(words):
                tok = wd + (" " if j < len(words) - 1 else "")
                await run_manager.on_llm_new_token(token=tok, chunk=GenerationChunk(text=tok))  # as langchain's _astream does
        return r

    @property
    def _identifying_params(self) -> Mapping[str, Any]:
        return {}


# ----------------------------------------------------------------------------- world
class InjectedFault(RuntimeError):
    pass


FAULT_CLASSES = {c.__name__: c for c in (NotImplementedError, KeyError, AttributeError, TypeError, OSError, AssertionError,
                                            StopIteration, asyncio.TimeoutError, UnicodeDecodeError)}
FAULT_CLASSES["UnicodeDecodeError"] = lambda msg: UnicodeDecodeError("utf-8", b"x", 0, 1, msg)


class World:
    """One LLMRails instance + scripted environment.

    script (mutable, set per turn by the driver):
      verdicts : {rail_name: "A" | "R" | ("W", new_text)}
      llm      : function(task, prompt, index) -> str
      faults   : set of action-invocation indices (global counter) at which the stub raises
    """

    action_form = "async"  # how the stub actions are registered: async | sync | wrapped

    def __init__(self, colang: str, yaml: str, actions=()):
        self.config = RailsConfig.from_content(colang_content=colang, yaml_content=yaml + EMB_YAML)
        self.llm = ScriptedLLM()
        self.llm.calls = []
        self.llm.responder = self._respond
        self._seq = 0
        self.llm.seq_fn = self._next_seq
        self.action_log: List[dict] = []
        self.verdicts: dict = {}
        self.llm_fn = lambda task, prompt, i: "ok"
        self.faults: set = set()
        self.fault_kind = "raise"
        self.action_results: dict = {}
        self.rails = LLMRails(self.config, llm=self.llm, verbose=False)
        form = World.action_form
        if form == "async":
            self.rails.register_action(self._rail_action, name="verif_rail")
            self.rails.register_action(self._dialog_action, name="verif_lookup")
        elif form == "sync":
            # plain synchronous actions
            self.rails.register_action(self._rail_sync, name="verif_rail")
            self.rails.register_action(self._dialog_sync, name="verif_lookup")
        elif form == "wrapped":
            # an ordinary decorator around an async action: a sync function returning the coroutine
            def rail_wrapper(**kw):
                return self._rail_action(**kw)

            def dialog_wrapper(**kw):
                return self._dialog_action(**kw)

            self.rails.register_action(rail_wrapper, name="verif_rail")
            self.rails.register_action(dialog_wrapper, name="verif_lookup")
        elif form in ("class-sync", "class-async"):
            # actions registered as classes (instantiated lazily by the dispatcher) whose `run` is sync / async
            world = self
            if form == "class-sync":
                class RailCls:
                    def run(self, **kw):
                        return world._rail_sync(**kw)

                class DialogCls:
                    def run(self, **kw):
                        return world._dialog_sync(**kw)
            else:
                class RailCls:
                    async def run(self, **kw):
                        return world._rail_sync(**kw)

                class DialogCls:
                    async def run(self, **kw):
                        return world._dialog_sync(**kw)
            self.rails.register_action(RailCls, name="verif_rail")
            self.rails.register_action(DialogCls, name="verif_lookup")
        else:
            raise ValueError(form)
        for name, fn in actions:
            self.rails.register_action(fn, name=name)

    def _next_seq(self):
        self._seq += 1
        return self._seq

    # -- environment
    def _respond(self, task, prompt, i):
        return self.llm_fn(task, prompt, i)

    def _maybe_fault(self, rec):
        if rec["i"] in self.faults:
            rec["fault"] = self.fault_kind
            if self.fault_kind == "raise":
                raise InjectedFault(f"injected fault at action invocation {rec['i']}")
            if self.fault_kind.startswith("raise:"):
                raise FAULT_CLASSES[self.fault_kind[6:]](f"injected fault at action invocation {rec['i']}")
            if self.fault_kind.startswith("raise-empty:"):
                raise {"ValueError": ValueError, "TimeoutError": asyncio.TimeoutError, "AssertionError": AssertionError,
                       "KeyError": KeyError, "Multiline": lambda: RuntimeError("\n\nsecond line")}[self.fault_kind[12:]]()
            return True
        return False

    async def _rail_action(self, rail: str, text: Optional[str] = None):
        return self._rail_sync(rail, text)

    async def _dialog_action(self, q: Optional[str] = None):
        return self._dialog_sync(q)

    def _rail_sync(self, rail: str, text: Optional[str] = None):
        rec = {"i": len(self.action_log), "seq": self._next_seq(), "action": "verif_rail", "rail": rail, "text": text}
        self.action_log.append(rec)
        if self._maybe_fault(rec):
            return {"none": None, "nonbool": 7}.get(self.fault_kind)
        v = self.verdicts.get(rail, "A")
        if callable(v):
            v = v(text)     # a verdict that depends on the text the rail sees (one rail flow running twice in a call)
        rec["verdict"] = v if isinstance(v, str) else v[0]
        if v == "A":
            return True  # never echo the text: action results are rendered into later prompts
        if v == "R":
            return False
        if v == "N":
            return None   # a rail action that signals "not allowed" with a falsy value that is not False
        return v[1]

    def _dialog_sync(self, q: Optional[str] = None):
        rec = {"i": len(self.action_log), "seq": self._next_seq(), "action": "verif_lookup", "text": q}
        self.action_log.append(rec)
        if self._maybe_fault(rec):
            return None
        return self.action_results.get("verif_lookup", "lookup-result")

    # -- driving
    def mark(self):
        return len(self.llm.calls), len(self.action_log)

    def since(self, mark):
        return self.llm.calls[mark[0]:], self.action_log[mark[1]:]

    def generate(self, loop=None, **kw):
        """Run generate_async to completion on a private event loop; returns (result | None, exception | None)."""
        own = loop is None
        if own:
            loop = asyncio.new_event_loop()
        try:
            return loop.run_until_complete(self.rails.generate_async(**kw)), None
        except BaseException as e:  # noqa
            if isinstance(e, (KeyboardInterrupt, SystemExit)):
                raise
            return None, e
        finally:
            if own:
                loop.close()
