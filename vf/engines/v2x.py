"""E1 - explicit-state explorer over the real Colang 2.x interpreter.

A node is (State object, uid counter, aux) reached by a history of abstract
events; transitions call the real `run_to_completion` on a deep copy of the
State with every outcome of every `random.choice` enumerated.
"""
from __future__ import annotations

import copy
import hashlib
import re
from collections import deque as _deque
from dataclasses import dataclass, field
from typing import Any, Callable, Optional

from vf import seams

CHOICE, UIDS, CLOCK = seams.install_v2x()

from nemoguardrails.colang import parse_colang_file  # noqa: E402
from nemoguardrails.colang.v2_x.runtime import statemachine as sm  # noqa: E402
from nemoguardrails.colang.v2_x.runtime.flows import (  # noqa: E402
    Action,
    ActionStatus,
    Event,
    FlowHead,
    FlowHeadStatus,
    FlowState,
    FlowStatus,
    InternalEvent,
    State,
)
from nemoguardrails.colang.v2_x.runtime.runtime import (  # noqa: E402
    create_flow_configs_from_flow_list,
)

UUID_RE = re.compile(
    r"[0-9a-f]{8}-[0-9a-f]{4}-[0-9a-f]{4}-[0-9a-f]{4}-[0-9a-f]{12}"
)


# set by a task before it explores: emitted events are fed back as input events, as process_events does
FEED_BACK = [False]


# --------------------------------------------------------------------------- build
def parse_program(source: str):
    return parse_colang_file(
        filename="", content=source, include_source_mapping=True, version="2.x"
    )


_RAILS_CONFIG = [None]


def small_rails_config():
    """A real (small) RailsConfig object, as LLMRails puts into every State it creates."""
    if _RAILS_CONFIG[0] is None:
        from nemoguardrails import RailsConfig

        _RAILS_CONFIG[0] = RailsConfig.from_content(
            colang_content="flow main\n  match VfNever()\n",
            yaml_content='colang_version: "2.x"\nmodels: []\ninstructions:\n  - type: general\n    content: "x"\n',
        )
    return _RAILS_CONFIG[0]


def init_state(source: str, extra_sources=(), with_rails_config=False) -> State:
    """Fresh interpreter state for a program (uids restart at 0)."""
    UIDS.n = 0
    CHOICE.begin([])
    flows = list(parse_program(source)["flows"])
    for s in extra_sources:
        flows.extend(parse_program(s)["flows"])
    config = create_flow_configs_from_flow_list(flows)
    state = State(flow_states=[], flow_configs=config, rails_config=small_rails_config() if with_rails_config else None)
    sm.initialize_state(state)
    return state


def copy_state(state: State) -> State:
    memo = {id(state.flow_configs): state.flow_configs}
    if state.rails_config is not None:
        memo[id(state.rails_config)] = state.rails_config
    return copy.deepcopy(state, memo)


# --------------------------------------------------------------------------- events
def resolve_event(state: State, ev) -> Optional[dict]:
    """Abstract event -> concrete UMIM dict (None if not enabled in this state).

    ("ext", name, {args})          external event
    ("act", k, "Finished"|"Started", {args})   event of the k-th pending action
    """
    kind = ev[0]
    if kind == "start_main":
        return InternalEvent(name="StartFlow", arguments={"flow_id": "main"}, matching_scores=[])
    if kind == "internal":
        return InternalEvent(name=ev[1], arguments=dict(ev[2]), matching_scores=[])
    if kind == "actname":
        for a in pending_actions(state):
            if a.name == ev[1]:
                d = {"type": f"{a.name}{ev[2]}", "action_uid": a.uid}
                d.update(ev[3] if len(ev) > 3 else {})
                if ev[2] == "Finished":
                    d.setdefault("is_success", True)
                return d
        return None
    if kind == "ext":
        d = {"type": ev[1]}
        d.update(ev[2] if len(ev) > 2 else {})
        return d
    if kind == "act":
        pend = pending_actions(state)
        if ev[1] >= len(pend):
            return None
        a = pend[ev[1]]
        d = {"type": f"{a.name}{ev[2]}", "action_uid": a.uid}
        d.update(ev[3] if len(ev) > 3 else {})
        if ev[2] == "Finished":
            d.setdefault("is_success", True)
        return d
    raise ValueError(ev)


def pending_actions(state: State):
    return [
        a
        for a in state.actions.values()
        if a.status in (ActionStatus.STARTING, ActionStatus.STARTED, ActionStatus.STOPPING)
    ]


# --------------------------------------------------------------------------- canon
def _c(x, depth=0):
    if depth > 8:
        return "<deep>"
    if isinstance(x, FlowState):
        return ("flowref", x.uid)
    if isinstance(x, Action):
        return ("actionref", x.uid)
    if isinstance(x, Event):
        args = {
            k: v for k, v in x.arguments.items() if k not in ("event_created_at", "uid")
        }
        extra = ()
        if isinstance(x, InternalEvent) and x.flow is not None:
            extra = ("flow", x.flow.uid)
        elif getattr(x, "action_uid", None) is not None:
            extra = ("action", x.__dict__.get("action_uid"))
        return ("event", type(x).__name__, x.name, _c(args, depth + 1), extra)
    if isinstance(x, dict):
        return tuple((str(k), _c(v, depth + 1)) for k, v in x.items())
    if isinstance(x, (list, tuple)):
        return tuple(_c(v, depth + 1) for v in x)
    if isinstance(x, (set, frozenset)):
        return ("set",) + tuple(sorted((repr(_c(v, depth + 1)) for v in x)))
    if isinstance(x, re.Pattern):
        return ("re", x.pattern)
    if isinstance(x, (str, int, float, bool)) or x is None:
        return x
    if hasattr(x, "value") and hasattr(x, "name"):
        return ("enum", x.name)
    if type(x).__name__ == "ComparisonExpression":
        return ("cmp", getattr(x, "value", None), getattr(getattr(x, "operator", None), "__name__", None))
    r = repr(x)
    if " at 0x" in r:  # default object repr carries a memory address: not part of the state
        r = r.split(" at 0x")[0]
    return ("obj", type(x).__name__, r)


def dump_state(state: State, with_index=True, age_of=None) -> tuple:
    """Order preserving structural dump of everything that can influence the future."""
    flows = []
    for uid, fs in state.flow_states.items():
        heads = tuple(
            (
                hu,
                h.position,
                h.status.name,
                tuple(h.scope_uids),
                tuple(h.child_head_uids),
                tuple(h.catch_pattern_failure_label),
            )
            for hu, h in fs.heads.items()
        )
        flows.append(
            (
                uid,
                fs.flow_id,
                fs.loop_id,
                fs.hierarchy_position,
                fs.status.name,
                heads,
                _c(fs.scopes),
                _c(fs.head_fork_uids),
                tuple(fs.action_uids),
                _c(fs.context),
                fs.priority,
                _c(fs.arguments),
                fs.parent_uid,
                fs.parent_head_uid,
                tuple(fs.child_flow_uids),
                fs.activated,
                fs.new_instance_started,
                (age_of(fs) if age_of else None),
            )
        )
    actions = tuple(
        (
            uid,
            a.name,
            a.flow_uid,
            a.status.name,
            _c(a.context),
            _c(a.start_event_arguments),
            a.flow_scope_count,
        )
        for uid, a in state.actions.items()
    )
    idx = ()
    if with_index:
        idx = (
            tuple((k, tuple(v)) for k, v in state.event_matching_heads.items() if v),
            tuple(sorted(state.event_matching_heads_reverse_map.items())),
            tuple(
                (k, tuple(f.uid for f in v))
                for k, v in state.flow_id_states.items()
                if v
            ),
        )
    return (
        tuple(flows),
        actions,
        _c(state.context),
        idx,
        state.main_flow_state.uid if state.main_flow_state else None,
    )


def rename_uids(text: str) -> str:
    table: dict[str, str] = {}

    def sub(m):
        u = m.group(0)
        r = table.get(u)
        if r is None:
            r = table[u] = f"#{len(table)}"
        return r

    return UUID_RE.sub(sub, text)


def canon_key(state: State, aux=None, age_of=None) -> str:
    txt = repr((dump_state(state, age_of=age_of), aux))
    return hashlib.sha1(rename_uids(txt).encode()).hexdigest()


def out_events(state: State, rename=True):
    """Outgoing events of the last step without volatile fields."""
    res = []
    for e in state.outgoing_events:
        d = {
            k: v
            for k, v in e.items()
            if k not in ("uid", "event_created_at", "source_uid", "action_info_modality",
                         "action_info_modality_policy", "action_finished_at", "action_started_at", "action_updated_at")
        }
        res.append(d)
    return res


def out_sig(state: State) -> str:
    return rename_uids(repr([sorted(d.items(), key=lambda kv: kv[0]) for d in out_events(state)]))


# --------------------------------------------------------------------------- stepping
class StepError(Exception):
    def __init__(self, exc):
        super().__init__(repr(exc))
        self.exc = exc


def step(state: State, concrete_event: dict, vector, uid_n: int, budget=None):
    """Run one real run_to_completion on `state` (mutates it)."""
    UIDS.n = uid_n
    CHOICE.begin(vector)
    seams.CountingDeque.pops = 0
    seams.CountingDeque.budget = budget
    try:
        sm.run_to_completion(
            state,
            concrete_event if isinstance(concrete_event, Event) else dict(concrete_event),
        )
        if FEED_BACK[0]:
            # what RuntimeV2_x.process_events does with the events a step emits: they are processed as input events
            # as well (repeatedly, until a round emits nothing); the caller sees all emitted events
            emitted = list(state.outgoing_events)
            queue = list(emitted)
            rounds = 0
            while queue and rounds < 50:
                rounds += 1
                nxt = []
                for ev in queue:
                    sm.run_to_completion(state, dict(ev))
                    nxt.extend(state.outgoing_events)
                emitted.extend(nxt)
                queue = nxt
            state.outgoing_events = emitted
    finally:
        seams.CountingDeque.budget = None
    return CHOICE.points[:], UIDS.n, seams.CountingDeque.pops


@dataclass
class Node:
    state: State
    uid_n: int
    aux: Any
    hist: tuple  # ((abstract_event, choice_vector), ...)
    depth: int = 0


@dataclass
class Stats:
    programs: int = 0
    states: int = 0
    transitions: int = 0
    choice_points: int = 0
    multi_choice_steps: int = 0
    max_depth: int = 0
    max_pops: int = 0
    validated: int = 0
    errors: list = field(default_factory=list)
    extra: dict = field(default_factory=dict)

    def bump(self, k, n=1):
        self.extra[k] = self.extra.get(k, 0) + n

    def as_counts(self):
        d = {
            "programs": self.programs,
            "states": self.states,
            "transitions": self.transitions,
            "tie_break_choice_points": self.choice_points,
            "steps_with_real_tie_break": self.multi_choice_steps,
            "max_depth": self.max_depth,
            "traces_validated_against_impl": self.validated,
        }
        d.update(self.extra)
        return d


class Violation(Exception):
    def __init__(self, signature, what, detail=None):
        super().__init__(what)
        self.signature = signature
        self.what = what
        self.detail = detail or {}


# name -> fn(explorer, prev_node, aev, next_node) raising Violation.  Set by a property
# (e.g. C09) that piggybacks on the explorations of the others; results are kept apart
# from the host property's own violations.
SIDE_CHECKS: dict = {}


def result_of(ex: "Explorer", sample=None, extra=None):
    d = ex.stats.as_counts()
    d["capped"] = ex.capped
    r = {
        "counts": d,
        "violations": ex.violations,
        "side": ex.side_violations,
        "errors": ex.stats.errors[:3],
    }
    if sample is not None:
        sample = dict(sample)
        sample.setdefault("states", ex.stats.states)
        sample.setdefault("transitions", ex.stats.transitions)
        r["sample"] = sample
    if extra:
        r.update(extra)
    return r


class Explorer:
    """BFS over abstract-event histories of one program.

    alphabet(state, node) -> list of abstract events enabled (before resolution)
    monitors: list of callables (explorer, prev_node, aev, concrete, points, next_node, pops)
              raising Violation; each may update next_node.aux (copy-on-write dict)
    """

    def __init__(
        self,
        source: str,
        alphabet: Callable,
        monitors=(),
        depth=4,
        dedup=True,
        init_aux=None,
        budget=None,
        validate_every=7,
        extra_sources=(),
        stop_expand: Optional[Callable] = None,
        special: Optional[Callable] = None,
        max_states=200000,
        age_of=None,
    ):
        self.source = source
        self.extra_sources = tuple(extra_sources)
        self.alphabet = alphabet
        self.monitors = list(monitors)
        self.depth = depth
        self.dedup = dedup
        self.budget = budget
        self.validate_every = validate_every
        self.stop_expand = stop_expand
        self.special = special  # special(explorer,node,aev) -> Node | None  (non run_to_completion transitions)
        self.stats = Stats()
        self.violations: list[dict] = []
        self.init_aux = init_aux if init_aux is not None else {}
        self.max_states = max_states
        self.capped = False
        self.age_of = age_of
        self.side_violations: dict = {k: [] for k in SIDE_CHECKS}

    # -- one transition, all tie-break outcomes
    def successors(self, node: Node, aev):
        if self.special is not None and aev[0] == "special":
            nxt = self.special(self, node, aev)
            if nxt is not None:
                yield (), nxt, None, 0
            return
        conc = resolve_event(node.state, aev)
        if conc is None:
            return
        stack = [[]]
        first = True
        while stack:
            vec = stack.pop()
            st = copy_state(node.state)
            points, uid_n, pops = step(st, conc, vec, node.uid_n, self.budget)
            taken = [k for k, _ in points]
            for i in range(len(vec), len(points)):
                for alt in range(1, points[i][1]):
                    stack.append(taken[:i] + [alt])
            if first:
                self.stats.choice_points += sum(1 for _, w in points if w > 1)
                if any(w > 1 for _, w in points):
                    self.stats.multi_choice_steps += 1
                first = False
            nxt = Node(
                st,
                uid_n,
                copy.copy(node.aux),
                node.hist + ((aev, tuple(taken)),),
                node.depth + 1,
            )
            yield tuple(taken), nxt, conc, pops

    def replay(self, hist):
        """build(h): fresh state + replay - the reference semantics of a node."""
        st = init_state(self.source, self.extra_sources)
        uid_n = UIDS.n
        node = Node(st, uid_n, copy.copy(self.init_aux), (), 0)
        outs = []
        for aev, vec in hist:
            if self.special is not None and aev[0] == "special":
                node = self.special(self, node, aev)
                outs.append(None)
                continue
            conc = resolve_event(node.state, aev)
            assert conc is not None, f"replay: event {aev} not enabled"
            points, uid_n, _ = step(node.state, conc, vec, node.uid_n, self.budget)
            assert tuple(k for k, _ in points) == tuple(vec), (
                "HARNESS-NONDETERMINISM: choice points diverged during replay",
                points,
                vec,
            )
            node.uid_n = uid_n
            outs.append(out_events(node.state))
        return node, outs

    def run(self):
        self.stats.programs += 1
        st = init_state(self.source, self.extra_sources)
        root = Node(st, UIDS.n, copy.copy(self.init_aux), (), 0)
        seen = {canon_key(st, _aux_key(root.aux), self.age_of)}
        self.stats.states += 1
        frontier = _deque([root])
        try:
            for m in self.monitors:
                if hasattr(m, "on_init"):
                    m.on_init(self, root)
        except Violation as v:
            self._record(v, root, None, None)
        while frontier:
            node = frontier.popleft()
            self.stats.max_depth = max(self.stats.max_depth, node.depth)
            if node.depth >= self.depth:
                continue
            if self.stop_expand is not None and self.stop_expand(node):
                continue
            for aev in self.alphabet(node.state, node):
                try:
                    succ = list(self.successors(node, aev))
                except seams.StepBudgetExceeded as e:
                    self._record(
                        Violation("step-budget", f"step budget exceeded ({e})"),
                        node, aev, None,
                    )
                    continue
                except seams.ChoiceExhausted:
                    raise
                except Exception as e:  # escaping exception from run_to_completion
                    handled = False
                    for m in self.monitors:
                        if hasattr(m, "on_exception"):
                            try:
                                handled = m.on_exception(self, node, aev, e) or handled
                            except Violation as v:
                                self._record(v, node, aev, None)
                                handled = True
                    if not handled:
                        self.stats.bump("steps_raising")
                        self.stats.errors.append((self.source, _hist_json(node.hist), aev, repr(e)))
                    continue
                for taken, nxt, conc, pops in succ:
                    self.stats.transitions += 1
                    self.stats.max_pops = max(self.stats.max_pops, pops or 0)
                    bad = False
                    for m in self.monitors:
                        try:
                            m(self, node, aev, conc, taken, nxt, pops)
                        except Violation as v:
                            self._record(v, node, aev, taken)
                            bad = True
                    for name, fn in SIDE_CHECKS.items():
                        try:
                            fn(self, node, aev, nxt)
                        except Violation as v:
                            if len(self.side_violations[name]) < 5:
                                self._record(v, node, aev, taken, into=self.side_violations[name])
                    if bad:
                        continue
                    key = canon_key(nxt.state, _aux_key(nxt.aux), self.age_of)
                    if self.validate_every and int(key[:6], 16) % self.validate_every == 0:
                        self._validate(nxt, key)
                    if self.dedup and key in seen:
                        continue
                    seen.add(key)
                    self.stats.states += 1
                    if self.stats.states >= self.max_states:
                        self.capped = True
                        frontier.clear()
                        break
                    frontier.append(nxt)
                for m in self.monitors:
                    if hasattr(m, "after_all"):
                        try:
                            m.after_all(self, node, aev, succ)
                        except Violation as v:
                            self._record(v, node, aev, None)
                if self.capped:
                    break
        return self.stats

    def _validate(self, node: Node, key: str):
        ref, _ = self.replay(node.hist)
        a = repr(dump_state(ref.state))
        b = repr(dump_state(node.state))
        if a != b:
            raise RuntimeError(
                "HARNESS-NONDETERMINISM: deepcopy path and from-scratch replay disagree\n"
                + self.source + "\n" + repr(node.hist)
            )
        self.stats.validated += 1

    def _record(self, v: Violation, node, aev, taken, into=None):
        hist = list(node.hist)
        if aev is not None:
            hist.append((aev, tuple(taken or ())))
        (self.violations if into is None else into).append(
            {
                "signature": v.signature,
                "what": v.what,
                "replay": {
                    "engine": "E1-v2x",
                    "source": self.source,
                    "extra_sources": list(self.extra_sources),
                    "history": _hist_json(hist),
                    "feed_back": FEED_BACK[0],
                    "detail": v.detail,
                },
            }
        )


def _aux_key(aux):
    if not aux:
        return None
    return tuple(sorted((k, repr(v)) for k, v in aux.items() if not k.startswith("_")))


def _hist_json(hist):
    return [[list(a) if isinstance(a, tuple) else a, list(v)] for a, v in hist]


# ------------------------------------------------------------------ alphabets
def ext_alphabet(names_with_args, with_actions=("Finished",), repeat=False):
    """Alphabet factory: fixed external events + events of pending actions."""
    fixed = [("ext", n, dict(a)) for n, a in names_with_args]

    def alpha(state, node):
        evs = list(fixed)
        n = len(pending_actions(state))
        for k in range(n):
            for kind in with_actions:
                evs.append(("act", k, kind, {}))
        return evs

    return alpha
