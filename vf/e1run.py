"""Shared driver for E1 (Colang 2.x explorer) based properties."""
from __future__ import annotations

import time

from vf import par


def run_e1(rep, mod, tier, budget_s=None, side=None):
    tasks = mod.tasks(tier)
    seed = rep.seed
    if seed:
        # seed only perturbs the order in which programs are handed to workers
        import random
        random.Random(seed).shuffle(tasks)
    deadline = time.time() + budget_s if budget_s else None
    done = 0
    capped = False
    errors = []
    for res in par.pmap(mod.explore, tasks, chunksize=max(1, len(tasks) // (par.NPROC * 8)), deadline=deadline):
        done += 1
        c = dict(res["counts"])
        if c.pop("capped", False):
            capped = True
        rep.merge_counts(c)
        for v in (res["side"].get(side, []) if side else res["violations"]):
            rep.violation(v["signature"], v["what"], v["replay"])
        errors.extend(res.get("errors", []))
        if "sample" in res and (done % max(1, len(tasks) // 6) == 0 or done <= 2):
            rep.sample(res["sample"])
    rep.add("programs_planned", len(tasks))
    rep.add("programs_done", done)
    rep.set("exhaustive", rep.cov.get("exhaustive", True) and (done == len(tasks)) and not capped)
    if capped:
        rep.set("state_cap_hit", True)
    if done < len(tasks):
        rep.set("cap_hit", f"time budget {budget_s}s: {done}/{len(tasks)} programs fully explored")
    if errors:
        rep.set("steps_raising_examples", [repr(e)[:600] for e in errors[:3]])
    return errors
