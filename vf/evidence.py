"""Evidence files, replay artefacts, known findings, VIOLATION reporting."""
from __future__ import annotations

import hashlib
import json
import os
import sys
import time

ROOT = os.path.dirname(os.path.dirname(os.path.abspath(__file__)))
EVIDENCE_DIR = os.path.join(ROOT, "evidence")
REPLAY_DIR = os.path.join(ROOT, "replays")
FINDINGS_FILE = os.path.join(ROOT, "known_findings.json")


def jsonable(x, depth=0):
    if depth > 12:
        return repr(x)
    if isinstance(x, (str, int, float, bool)) or x is None:
        return x
    if isinstance(x, dict):
        return {str(k): jsonable(v, depth + 1) for k, v in x.items()}
    if isinstance(x, (list, tuple)):
        return [jsonable(v, depth + 1) for v in x]
    if isinstance(x, (set, frozenset)):
        return sorted((jsonable(v, depth + 1) for v in x), key=repr)
    return repr(x)


def load_findings():
    if not os.path.exists(FINDINGS_FILE):
        return []
    with open(FINDINGS_FILE) as f:
        return json.load(f).get("findings", [])


class Report:
    """Collects what one check run covered and its violations; writes evidence."""

    def __init__(self, prop: str, level: str, tier: str, seed: int):
        self.prop = prop
        self.level = level
        self.tier = tier
        self.seed = seed
        self.t0 = time.time()
        self.cov: dict = {}
        self.assumptions: list[str] = []
        self.violations: list[dict] = []
        self.known_hits: dict[str, int] = {}
        self.max_violations_written = 60
        self._findings = [
            f for f in load_findings() if f.get("property") == prop
        ]

    # ---- coverage helpers
    def add(self, key: str, n: int = 1):
        self.cov[key] = self.cov.get(key, 0) + n

    def set(self, key: str, val):
        self.cov[key] = val

    def sample(self, s, limit=6):
        lst = self.cov.setdefault("samples", [])
        if len(lst) < limit:
            lst.append(jsonable(s))

    def merge_counts(self, d: dict):
        for k, v in d.items():
            if isinstance(v, bool):
                self.cov[k] = self.cov.get(k, True) and v
            elif isinstance(v, int) and k.startswith("max_"):
                self.cov[k] = max(self.cov.get(k, 0), v)
            elif isinstance(v, int):
                self.add(k, v)
            elif k == "samples":
                for s in v:
                    self.sample(s)
            elif isinstance(v, (set, frozenset)):
                self.cov.setdefault(k, set()).update(v)
            elif isinstance(v, dict):
                tgt = self.cov.setdefault(k, {})
                for kk, vv in v.items():
                    if isinstance(vv, int):
                        tgt[kk] = tgt.get(kk, 0) + vv
                    else:
                        tgt[kk] = vv

    # ---- violations
    def violation(self, signature: str, what: str, replay: dict):
        """signature: specific input / call-site / history class of the failure."""
        for f in self._findings:
            if f.get("status") == "known" and f.get("signature") == signature:
                self.known_hits[signature] = self.known_hits.get(signature, 0) + 1
                return False
        self.violations.append(
            {"signature": signature, "what": what, "replay": replay}
        )
        return True

    def finish(self) -> int:
        os.makedirs(EVIDENCE_DIR, exist_ok=True)
        for sig, n in self.known_hits.items():
            f = next(x for x in self._findings if x.get("signature") == sig)
            print(
                f"KNOWN-FINDING: property={self.prop} {f.get('what', sig)} "
                f"[signature={sig}, {n} occurrence(s) this run]"
            )
        paths = []
        seen_sig = set()
        for v in self.violations:
            if v["signature"] in seen_sig and len(paths) >= 1:
                continue
            if len(paths) >= self.max_violations_written:
                break
            seen_sig.add(v["signature"])
            d = os.path.join(REPLAY_DIR, self.prop)
            os.makedirs(d, exist_ok=True)
            body = {
                "property": self.prop,
                "signature": v["signature"],
                "what": v["what"],
                "hashseed": os.environ.get("PYTHONHASHSEED"),
                "seed": self.seed,
                **jsonable(v["replay"]),
            }
            blob = json.dumps(body, indent=1, sort_keys=True)
            h = hashlib.sha256(blob.encode()).hexdigest()[:12]
            p = os.path.join(d, h + ".json")
            with open(p, "w") as f:
                f.write(blob)
            paths.append((p, v))
        cov = dict(self.cov)
        for k, v in list(cov.items()):
            if isinstance(v, (set, frozenset)):
                cov[k] = len(v)
        cov.setdefault("samples", [])
        ev = {
            "property_id": self.prop,
            "tier": self.tier,
            "seed": self.seed,
            "level": self.level,
            "coverage": jsonable(cov),
            "assumptions": self.assumptions,
            "wall_s": round(time.time() - self.t0, 2),
            "violations": len(self.violations),
            "known_findings_hit": dict(self.known_hits),
        }
        with open(os.path.join(EVIDENCE_DIR, f"{self.prop}.json"), "w") as f:
            json.dump(ev, f, indent=1, sort_keys=True)
        brief = {
            k: v
            for k, v in ev["coverage"].items()
            if isinstance(v, (int, float, bool))
        }
        print(f"[{self.prop}] tier={self.tier} seed={self.seed} wall={ev['wall_s']}s {brief}")
        for p, v in paths:
            print(f"  violation: {v['signature']}: {v['what']}")
            print(f"VIOLATION property={self.prop} replay={p}")
        sys.stdout.flush()
        return 1 if self.violations else 0
