"""Process pool helper: fork after the library is imported (import costs ~10 s),
one long-lived worker per core, tasks streamed in chunks."""
from __future__ import annotations

import multiprocessing as mp
import os
import time
import traceback

NPROC = int(os.environ.get("VERIF_NPROC", "0") or 0) or min(16, os.cpu_count() or 4)

WATCHDOG_S = int(os.environ.get("VERIF_WATCHDOG_S", "1500") or 1500)

_FN = None


def _call(args):
    try:
        return ("ok", _FN(args))
    except BaseException as e:  # noqa
        return ("err", f"{type(e).__name__}: {e}\n{traceback.format_exc()}", repr(args)[:2000])


def _call_many(chunk):
    return [_call(a) for a in chunk]


def pmap(fn, tasks, nproc=None, chunksize=1, deadline=None):
    """Yield fn(task) for all tasks (unordered).  A worker exception is a harness
    error and re-raised in the parent (never converted into a violation).
    deadline: absolute time.time(); once passed, remaining tasks are skipped and
    the generator returns (caller must report the cap)."""
    global _FN
    _FN = fn
    nproc = nproc or NPROC
    tasks = list(tasks)
    if nproc <= 1 or len(tasks) <= 1:
        for t in tasks:
            if deadline and time.time() > deadline:
                return
            r = _call(t)
            if r[0] == "err":
                raise RuntimeError("HARNESS-ERROR in worker:\n" + r[1] + "\ntask=" + r[2])
            yield r[1]
        return
    ctx = mp.get_context("fork")
    with ctx.Pool(nproc) as pool:
        chunksize = max(1, int(chunksize))
        chunks = [tasks[i:i + chunksize] for i in range(0, len(tasks), chunksize)]
        it = pool.imap_unordered(_call_many, chunks, 1)
        while True:
            try:
                # a worker that died (or never answers) must not hang the check for ever
                rs = it.next(timeout=WATCHDOG_S)
            except StopIteration:
                break
            except mp.TimeoutError:
                pool.terminate()
                raise RuntimeError(f"HARNESS-ERROR: no worker result within {WATCHDOG_S} s (a worker died or hangs)")
            for r in rs:
                if r[0] == "err":
                    pool.terminate()
                    raise RuntimeError("HARNESS-ERROR in worker:\n" + r[1] + "\ntask=" + r[2])
                yield r[1]
            if deadline and time.time() > deadline:
                pool.terminate()
                return
