"""Source of truth for MANIFEST.json (tools/gen_manifest.py)."""
HOOK_COMMITS = []
ENGINES = [
    {"name": "E4-cosim", "path": "vf/props/c14.py", "serves_properties": ["C14"], "kind_free_text": "co-simulation of compute_next_steps with a structured-program reference interpreter"},
    {"name": "E4-cfg", "path": "vf/props/c12.py", "serves_properties": ["C12"], "kind_free_text": "abstract CFG explorer for compiled flows + concrete head-move recorder"},
    {"name": "E2-aio", "path": "vf/engines/aio.py", "serves_properties": ["C15", "C19"], "kind_free_text": "virtual asyncio loop + stateless DFS schedule explorer with prefix replay"},
    {"name": "E3-world", "path": "vf/engines/world.py", "serves_properties": ["C01", "C02", "C03", "C15", "C16", "C17"], "kind_free_text": "real LLMRails in a scripted closed environment (scripted LLM, fake embeddings, stub actions); conversation BFS"},
    {"name": "E4-parser", "path": "vf/props/c13.py", "serves_properties": ["C13"], "kind_free_text": "layout-edit and mutation enumerators over the real Colang parsers and RailsConfig.from_path"},
    {"name": "E4-streaming", "path": "vf/props/c18.py", "serves_properties": ["C18"], "kind_free_text": "explicit-state search over StreamingHandler states, one transition per chunk"},
    {"name": "E4-server", "path": "vf/props/c20.py", "serves_properties": ["C20"], "kind_free_text": "token-string enumerator + request-sequence BFS against the real FastAPI app"},
    {"name": "E1-v2x", "path": "vf/engines/v2x.py", "serves_properties": ["C04", "C05", "C06", "C07", "C08", "C09", "C10", "C11"],
     "kind_free_text": "explicit-state BFS over the real Colang 2.x interpreter (run_to_completion), all random.choice outcomes enumerated, canonical-state dedup, from-scratch replay validation"},
]
_E1_NOTE = ("Trusted: the harness seams (vf/seams.py: ChoiceShim for random.choice, counter uids, virtual clock), "
            "the canonical-state abstraction (uid renaming; argued in DESIGN.md 2.2, cross-checked by from-scratch replay of a deterministic subset of transitions), "
            "PYTHONHASHSEED=0. Bounds as listed in the evidence file; behaviours beyond the bounds are not covered.")
CHECKS = {
    "C07": {
        "engine": "E1-v2x", "level": "model_checking",
        "technique": "explicit-state model checking of the implementation: exhaustive BFS over all event sequences for every and/or formula up to a size bound, oracle = formula evaluation",
        "text": "Every and/or tree with <=3 (quick) / <=5 (thorough) leaves, in six statement forms (match events, when events, await flows, when flows, start+match references, await and-groups of actions), is run against every event sequence (irrelevant and repeated events included, state-deduplicated BFS, all tie-breaks) on the real interpreter; the marker must appear exactly in the step where the received set first satisfies the formula.",
        "note": _E1_NOTE,
    },
    "C09": {
        "engine": "E1-v2x", "level": "model_checking",
        "technique": "explicit-state model checking of the implementation: state invariant (quiescence + index == from-scratch scan) evaluated on every state reached by all E1 explorations",
        "text": "After every run_to_completion in every E1 exploration the invariant is evaluated on the real State object: no pending internal events, active heads of running flows parked on match/WaitForHeads, done flows hold no heads, referenced flows/actions exist, event_matching_heads and its reverse map equal a from-scratch scan, flow_id_states equals a scan.",
        "note": _E1_NOTE,
    },
}
CHECKS["C05"] = {
    "engine": "E1-v2x", "level": "model_checking",
    "technique": "explicit-state model checking of the implementation: exhaustive enumeration of competitor tables x trigger events x all tie-break outcomes, oracle = admissible-winner set computed from the documented specificity rule",
    "text": "All programs of 2 (complete, direct and via awaited sub-flow) and 3 (quick: reduced; thorough: complete; plus reduced n=4) competing flows over the table mention-mask x action x loop x priority are run for every trigger event, two events deep, with every random.choice outcome; per loop exactly one Start event, winner in the arg-max of the documented score, identical actions co-win and start once, losers failed, non-fitting flows untouched.",
    "note": _E1_NOTE,
}
CHECKS["C06"] = {
    "engine": "E1-v2x", "level": "model_checking",
    "technique": "explicit-state model checking of the implementation: BFS over all event histories of enumerated hierarchy programs, lifetime / Stop-accounting / activation monitors on every state",
    "text": "Four program templates (child/parent/main hierarchies built from start/await/activate/when/groups holding actions; siblings sharing an identical action; several activators incl. nested activation and immediately-finishing activated flows; when/await-group scopes) with every slot combination, explored over all histories of {4 events, Finished of pending actions, StopFlow of the parent} to depth 4-5 (quick) / 6-7 (thorough) with all tie-breaks; monitors: no running flow below a finished/failed ancestor, Stop only for started+unfinished+unstopped actions and never while another running flow holds the action (unless its scope closed), unfinished unheld actions got exactly one Stop, activated flow has exactly one running instance iff an activator runs, immediately-finishing activated flow runs once.",
    "note": _E1_NOTE + " Activators are known statically because generated programs put `activate` first in a flow.",
}
CHECKS["C04"] = {
    "engine": "E4-enumerators + E1-v2x", "level": "exploration",
    "technique": "exhaustive enumeration of all (pattern, payload) pairs of a bounded value grammar against a reference matcher, at function level and through parser + interpreter (run_to_completion)",
    "text": "Every pair of the bounded grammar (scalars, regex leaves, lists/sets/dicts of width <=2, depth 1 quick / depth 2 thorough) is scored by the real matcher (with and without an unmentioned parameter) and compared with a recursive reference matcher written from the statement; every depth<=1 pattern is also compiled into `match E(p=<literal>)` and fed every payload, derived payloads (add/drop/reorder/alter), extra parameters and a wrong event name through run_to_completion; action and flow instance references are checked against events of the other instance / foreign uids.",
    "note": "Trusted: the reference matcher (40 lines, vf/props/c04.py ref_match). Cross-type numeric comparisons (1 vs True vs 1.0) and containers wider than 2 / deeper than the bound are not covered.",
}
CHECKS["C08"] = {
    "engine": "E1-v2x (single traces)", "level": "exploration",
    "technique": "exhaustive enumeration of signatures x call shapes x argument values x call forms, each program executed on the real parser + interpreter, oracle = Python-like binder",
    "text": "All signatures with <=2 (quick) / <=3 (thorough) parameters and every default mask, every call shape (given subset, positional prefix, named order), values from 8 types incl. None, containers and a caller variable (full product for <=2 arguments), five call forms (assign-await, await, implicit, start+match Finished, activate); the callee echoes its parameters, returns a value, assigns locals that shadow caller/sibling variables.",
    "note": "Trusted: the binder oracle. Calls omitting a parameter without default, surplus arguments and flows ending without `return` are outside the statement.",
}
CHECKS["C10"] = {
    "engine": "E1-v2x + RuntimeV2_x.process_events", "level": "model_checking",
    "technique": "explicit-state model checking of the implementation with a step budget (termination) + exhaustive fault enumeration: every fault kind x statement position x start form x every event history up to a length, through the real process_events",
    "text": "Termination: every (activated/started flow body x helper body x starter) program incl. flows that finish or fail immediately, nested activation, loops/recursion through a match; BFS over all histories to depth 3 (quick) / 4 (thorough) with a per-run_to_completion budget of 50 x (compiled elements + 10) internal events. Isolation: 12 fault kinds (bad expression, wrong type, invalid pattern, unresolvable reference; raised while sliding or while matching) at 3 statement positions, victim started in 3 ways, all histories over 4 events up to length 3 (quick) / 4 (thorough) through process_events: nothing escapes, a ColangError is observable exactly when the faulty statement is reached, a bystander flow in its own loop reacts to the same and to later events exactly as a reference model says.",
    "note": _E1_NOTE + " The bound-depends-only-on-program-size clause is checked as an explicit budget, not proved.",
}
CHECKS["C11"] = {
    "engine": "E1-v2x", "level": "model_checking",
    "technique": "explicit-state model checking of the implementation with crash-point style cut enumeration: at every reachable state a save/restore cut and an ageing cut, then all continuations in lock-step against the live state",
    "text": "Every state reachable within the depth bound (all tie-breaks) of the variable-zoo, reference, scope, activation and loop programs plus subsets of the C06/C07 program families is cut by json_to_state(state_to_json(s)) and by a 6 s jump of the virtual clock; every continuation up to the length bound is executed on live and cut copy with the same uid counter and tie-break vector: no exception, identical outgoing events, identical structural dumps.",
    "note": _E1_NOTE + " Virtual clock replaces datetime.now in statemachine/flows.",
}
CHECKS["C20"] = {
    "engine": "E4-server (fastapi TestClient + direct _get_rails)", "level": "exploration",
    "technique": "exhaustive enumeration of all config-id strings up to k hostile tokens (HTTP and direct call, single/list forms, both server modes) + breadth-first search over all request sequences over 3 thread ids with a dict-of-lists reference model",
    "text": "Part A: every distinct string of <=3 (quick) / <=4 (thorough) tokens over 21 hostile tokens as config_id / config_ids, multi- and single-config mode, real RailsConfig.from_path behind a recorder on a scratch tree with prefix-sharing siblings: every loaded path is inside the root, else the fixed reply, never a 500. Part B: BFS (state = datastore contents) over request sequences to depth 4 / 6 against the real endpoint and MemoryStore; messages given to the rails instance and the stored thread equal the reference model.",
    "note": "Trusted: fake LLMRails (echo), POSIX path semantics; symlinks and non-memory datastores not covered.",
}
CHECKS["C18"] = {
    "engine": "E4-streaming (handler state-space search)", "level": "model_checking",
    "technique": "explicit-state model checking of the real StreamingHandler: search over (offset, handler field snapshot, delivered text) with one transition per next chunk, covering all 2^(n-1) chunkings of every text through the merged DAG; DAG paths replayed on a real asyncio loop",
    "text": "All texts up to the length bound over an alphabet containing the prefix/suffix/stop characters (plus realistic shapes and all their character prefixes) x 18 prefix/suffix/stop configurations x 3 delivery modes (push_chunk, LangChain callbacks, piped handler) x 2 end protocols; for each the set of delivered strings over all chunkings must be a singleton, equal `completion`, and be a reading of 'prefix and suffix removed, cut at the first stop'.",
    "note": "Trusted: the field-snapshot state abstraction (validated by replaying witness paths from scratch through the async iterator), pattern/stop configured before the first chunk; buffering mode and mid-stream set_pattern are not covered.",
}
CHECKS["C13"] = {
    "engine": "E4-parser enumerators", "level": "exploration",
    "technique": "exhaustive enumeration: every layout edit at every admissible line of every seed (generated programs + shipped .co files), every 1-character mutation / truncation of small seeds, all token strings up to k tokens, each loaded through the real parser / RailsConfig.from_path",
    "text": "Layout: blank line, whitespace-only line, trailing spaces, trailing tab and (2.x) end-of-line comment at every admissible position singly and all at once, indentation x2 and x3, on ~320 generated programs and the shipped .co files (quick: files <= 40 lines, thorough: all 210); parsed flows must be equal modulo source positions. Errors: every prefix, deletion, duplication and substitution from 13 characters at every offset of 12 small seeds per version, all token strings of <=3 (quick) / <=4 (thorough) tokens over 26 tokens; each loaded with RailsConfig.from_path under a CPU screen + 10 s wall alarm: success or ColangParsingError naming the file, nothing else, no hang.",
    "note": "Trusted: admissible-position rules (no edits inside multi-line strings / bracket continuations; full-line comments are statements in 2.x), comparison of `flows` only for 1.0; \\r not in the alphabet.",
}
_E3_NOTE = "Trusted: the scripted environment (ScriptedLLM, fake embedding engine registered through the library's provider registry, stub rail/dialog actions), rail flows written in the shape of the shipped self-check rails; real LLMRails.generate_async is driven. Rails beyond 3, conversations beyond the turn bound and provider failures are not covered."
CHECKS["C01"] = {
    "engine": "E3-world", "level": "exploration",
    "technique": "exhaustive enumeration of rail orders x verdict vectors x dialog paths x turns on a real LLMRails instance in a scripted environment; oracle = fold over the verdict script against the ordered log of rail invocations and LLM calls",
    "text": "Worlds {Colang 1.0, 2.x guardrails library} x dialog on/off x rail exceptions on/off x ordered input-rail selections (quick: <=2 rails reduced, thorough: all <=3); BFS over 2 (3 in thorough for <=2 rails) turns with every effective accept/reject/rewrite vector and dialog path per turn and a hostile text in turn 1: rails invoked in order on the current text, nothing after a reject, reply = refusal / rail exception, no LLM call before the last rail or after a reject, pre-rewrite text in no prompt of this or later turns.",
    "note": _E3_NOTE,
}
CHECKS["C02"] = {
    "engine": "E3-world", "level": "exploration",
    "technique": "exhaustive enumeration of output-rail orders x verdict vectors x message kinds x turns on a real LLMRails instance in a scripted environment; per-turn reference fold that is reset every turn",
    "text": "Same world product for output rails; per turn the bot message is LLM generated or predefined and every effective accept/reject/rewrite(v1) vector is applied: rails invoked in order on the current text, rejected text never in the response, rewritten text returned; every sequence of turns up to the bound, so each block/rewrite in turn k is followed by fully checked turns (counted as turns_after_a_block_or_rewrite).",
    "note": _E3_NOTE,
}
CHECKS["C16"] = {
    "engine": "E3-world", "level": "exploration",
    "technique": "exhaustive enumeration of all 16 rail-category subsets (list and dict form) x verdict vectors x supplied-bot-message x dialog path on a real LLMRails instance; oracle = the documented rails-only table + the log of invoked rails",
    "text": "Both a general-mode and a dialog world with two input, two output and one retrieval rail; for every subset of {input, dialog, retrieval, output} and every effective verdict vector: exactly the selected categories invoke their rails, no LLM call unless dialog is selected, rails-only replies are the unchanged / rewritten user text, the supplied bot message / its rewritten form, or the refusal; log.activated_rails lists exactly the invoked input/output rails in order with `stop` on exactly the blocking rail.",
    "note": _E3_NOTE + " Supplied bot message uses role `assistant`.",
}
CHECKS["C03"] = {
    "engine": "E3-world + fault injector", "level": "fault_enumeration",
    "technique": "exhaustive fault enumeration: a fault (raise / return None) at every custom-action invocation index (singles and pairs) of every turn position, in every world, on a real LLMRails instance; follow-up turn checked fault-free",
    "text": "Worlds {v1 general, v1 dialog LLM path, v1 dialog custom-action path, v2 guardrails library} x rail exceptions on/off, each with an input rail, an output rail and (where applicable) a dialog action; 3-turn conversations, fault turn 1 or 2; generate returns normally, reply is refusal / rail exception / the fixed internal-error message and never the LLM text of that turn when a rail action failed, and in the next turn the input rail runs first on the new message and the output rail on the new LLM text.",
    "note": _E3_NOTE + " Faults only at action boundaries.",
}
CHECKS["C17"] = {
    "engine": "E3-world", "level": "exploration",
    "technique": "exhaustive enumeration of a hostile corpus x every LLM call position x every generation mode (pairs of positions and single-edit mutations in thorough) on a real LLMRails instance, with a well-formed follow-up turn",
    "text": "66 hostile outputs (empty/blank, wrong prefixes, unbalanced quotes, Colang 1.0/2.x keywords and flows, Jinja template and variable syntax, 10^4 characters, non-ASCII, literals of unsupported types) at every LLM call position (including one past the normal call count) of the v1 modes general / three-step / single call / multi-step / passthrough and the v2 llm library flows (intent + continuation, value generation): generate never raises, returns an assistant or exception message with string content, `{{ 1234*5 }}` / `$user_message` / `{{ config }}` in LLM text are never evaluated; a well-formed second turn follows every hostile turn.",
    "note": _E3_NOTE + " The corpus is finite and listed in vf/props/c17.py.",
}
CHECKS["C15"] = {
    "engine": "E3-world (sequential) + E2-aio (virtual asyncio loop)", "level": "model_checking",
    "technique": "exhaustive enumeration of request interleavings (sequential) and of all arrival / LLM-completion orders of overlapping generate_async tasks on a hand-driven virtual asyncio loop (stateless DFS with prefix replay); oracle = each conversation replayed alone",
    "text": "Sequential: six conversation sets built to collide under the lossy events-cache key (separator in user text, split messages, same text in different roles, context-looking text, shared prefixes) in a general and a dialog world, every interleaving of their requests on one instance, each request's reply and LLM prompts compared with the isolated run. Concurrent: 2 (quick) / 3 (thorough) generate_async tasks with different llm_params, every LLM call awaiting an explorer-owned future, all arrival/completion orders (and arrivals between loop iterations up to a deviation bound): every call runs with its request's parameters, replies/prompts equal the isolated run, parameters at rest are the configured ones.",
    "note": _E3_NOTE + " The virtual loop (vf/engines/aio.py) owns the ready queue (FIFO, never permuted), timers and external completions; replayed schedules must reproduce identical enabled-choice lists and observations.",
}
CHECKS["C12"] = {
    "engine": "E4-cfg (abstract control-flow graph explorer bound to the interpreter)", "level": "model_checking",
    "technique": "explicit-state exploration of an abstract control-flow graph of every compiled flow (state = position, failure-handler stack, open scopes, registered forks) for all generated programs up to a node bound and all shipped .co files; the abstraction is bound to the code by replaying recorded concrete head moves of the real interpreter against the graph",
    "text": "All Colang 2.x and 1.0 programs of a control grammar (if/else, while, when/or when/else, groups incl. DNF-distributed ones, break/continue, return/abort) up to 5-6 (quick) / 7 (thorough) nodes plus a rich statement family and the 210 shipped .co files: every jump / fork / failure-handler / loop-exit target exists and lies inside the flow, handler stack never pops empty, scopes never re-opened and closed at a fall-off end, no composite element left; v1: every offset read by slide/compute_next_state lands in [0,len]. Every concrete FlowHead.position assignment of interpreter runs over short histories must be an edge of the abstract graph; v1 slide() is compared with the model under all-true/all-false conditions.",
    "note": "Trusted: the abstract successor relation (validated against millions of concrete head moves); wrong-but-in-range offsets are outside the statement and not detected; heads of one flow are not modelled jointly.",
}
CHECKS["C14"] = {
    "engine": "E4-cosim (v1 decision function co-simulated with a reference interpreter)", "level": "model_checking",
    "technique": "explicit-state co-simulation: all structured Colang 1.0 flows up to a size bound, BFS over all follow/leave histories built the way the runtime builds them, real compute_next_steps vs a structured-program reference interpreter; every history evaluated on a long-lived and on a fresh flow-config instance",
    "text": "Every statement tree up to the size bound over user/bot steps, assignments, if/else, while, execute with scripted results and do-subflow (printed to Colang, parsed by the real parser), with a second flow for leaving; at every user point the history branches over the expected intent, another flow's intent, an unknown intent; the decided next step and the resulting context must equal the reference while the history follows the flow; decisions must not depend on earlier calls on the same flow configs.",
    "note": "Trusted: the reference interpreter (generator-based, in vf/props/c14.py); behaviour after a flow was interrupted is not specified and only checked for the history-only clause; labels/goto, when/else, break/continue are not generated. The thorough tier is time capped (reported in evidence).",
}
CHECKS["C19"] = {
    "engine": "E2-aio (virtual asyncio loop)", "level": "model_checking",
    "technique": "stateless exhaustive schedule exploration (DFS with prefix replay) of the real BasicEmbeddingsIndex on a hand-driven virtual asyncio loop: every order of request arrivals, batch-hold timers and embedding-model completions, for every configuration of batching and caching",
    "text": "Requests (single text, list, search; duplicates and empty string) x max_batch_size 1..3 x cache off / in-memory / filesystem x key generators (optionally pre-warmed) x batching on/off, a second round of requests on the warm state, and two indexes with different models sharing a cache: every request returns exactly model(text) in input order, every started request completes (deadlock, step horizon and a CPU watchdog are failure classes), request tables are empty at the end. Quick: 6 837 configurations fully enumerated; thorough: all configurations with <=4 requests exhaustive, 5-request ones up to a reported deviation bound.",
    "note": "Trusted: the virtual loop (ready queue FIFO and never permuted; timers and external completions are explorer choices; replays must reproduce identical enabled-choice lists), fake embedding provider registered through the library registry; model failures/cancellations and the redis store are not covered.",
}

# families added after the first version of the table (rounds 2 and 3 of seeding); appended to the texts above
_EXTRA = {
    "C01": "Also: one shipped rail flow configured twice with different parameters (content safety check input $model=..., stub action), Colang 2.x worlds on the shipped `self check input` rail, a 2.x rail configured in config.yml with / without the user's own `import guardrails`, passthrough mode.",
    "C02": "Also: conversations continued through `state` with per-turn option forms, `bot $variable` messages, the 2.x llm-library world, two interaction loops uttering LLM text in one turn, Colang 1.0 parameterised output rails (custom exception names), 2.x worlds on the shipped `self check output` rail.",
    "C03": "Also: an alphabet of exception classes incl. message-less ones, actions registered as async / sync / wrapper returning a coroutine / class with sync or async run, faults in two turns, fresh instance for the faulted turn, a parameterised rail set with a rejection before the faulted turn, 2.x mains with a fallback message after a failed `bot say` and with the action result uttered, the shipped 2.x jailbreak-heuristics rail.",
    "C04": "Also: patterns taken from variables, action progress events, reserved key / parameter names (return_value, activated, source_flow_instance_uid) at top level and nested, flow-name events of flows with parameters, independence of the declared priority (0.0, 0.5, 1.0, variable).",
    "C05": "Also: priority declared in an awaiting wrapper / twice in one flow, competitors reaching their action through or-groups or sub-flows (score chains of different length), specificity inside dict-valued parameters, events aimed at own / shared running action instances (Stop, Change), parent in one loop with a child competing in another loop (all specificity orders and start orders).",
    "C06": "Also: templates T5 (shared action held in a scope), T6 (same flow activated twice by one activator), T7 (parent and child wait for the same event), action Started events arriving late or repeatedly, second activator finishing or aborting.",
    "C07": "Also: member flows that fail (cancel forms), loop forms (statement executed again, when/else in a loop), and the same group statement completing in three flows on one event (x3 forms).",
    "C08": "Also: call layouts with named arguments before / between positional ones, shapes omitting a parameter without default (must not take another parameter's value), string values containing `$word`, 17 parameter names incl. the interpreter's bookkeeping names, mutable defaults changed in place, interpreter exceptions during a call.",
    "C09": "The invariant is also evaluated on every state reached after a save/restore or ageing cut (C11's lock-step explorer as host) and includes: no running flow below a finished instance of another flow.",
    "C10": "Also: part R - stationary programs (activated flows with and without the start_new_flow_instance label) driven with the same period of events for 10-14 rounds: cost per event within the budget and not growing from round to round; part X - an interpreter error injected at a seam with plain / faulty / twice-faulty ColangError watchers (process_events must not raise); arity and invalid-event fault kinds.",
    "C11": "Hosts: variable zoo (sets, regexes, nested and mixed-key containers, references), C06 hierarchy programs (incl. the event that ends the second activator), C07 group programs.",
    "C12": "Also: when groups with 3-4 branches of every length combination (v1 and v2, three contexts) and a second compilation of every parse result (two runtimes on one RailsConfig).",
    "C15": "Also: a rails + dialog-action world in which the arguments of every action call are compared, Colang 2.x conversation sets with LLM-generated flows that outlive the turn, requests awaited from one task, streaming requests in the schedule explorer (chunks of every request equal its isolated run).",
    "C17": "Corpus of 90 hostile outputs incl. containers whose keys / nested members cannot be stored in the state and bot intents naming non-string context variables.",
    "C19": "Also: library-global containers are reset per execution (GlobalsGuard); two indexes with different embedding models over one cache configuration, with two and three requests.",
    "C20": "Thread alphabet includes a request form carrying `context`; ids with composite tokens (`/..`, `/../..`, sibling directories sharing the root's name as prefix).",
}
for _k, _v in _EXTRA.items():
    CHECKS[_k]["text"] = CHECKS[_k]["text"].rstrip() + " " + _v

# families added in the second wave of round 3 (this text is appended as well)
_EXTRA2 = {
    "C06": "The shared-action, scope and hierarchy programs are also explored in feed-back mode: every event a step emits is processed as an input event as well, the way RuntimeV2_x.process_events drives the interpreter.",
    "C09": "The awaited event of every waiting statement is named by a reference written from the UMIM / Colang naming convention (independent of the interpreter's helper); the head lookup performed at event arrival is compared with the scan (content and order); hosts now include a notation zoo (every notation of a wait on action / flow events, with a reaction monitor) and the generated control-flow grammar of C12 (every state of its interpreter runs).",
    "C10": "Also: restarted instances of activated flows that FINISH before their first wait; part G - faults that need a second flow (a running child of the faulty flow waiting for the same event, faulty matches on FlowStarted / FlowFinished / FlowFailed, a send argument that turns faulty between the slide and the action-conflict resolution, internal events sent without their optional arguments).",
    "C11": "Cut kinds: SAVE_RESTORE, AGE (idle time once), AGE_EACH (idle time before every continuation step), RESTORE_AGED (restored state continued after idle time); states carry a RailsConfig like the states LLMRails makes; the lock-step oracle also compares the answers of the library's state-reading actions; API part: snapshots handed out by generate_async (double / triple submit, a request cancelled at any point and retried) explored on the virtual asyncio loop against a fresh instance restoring the same snapshot.",
    "C12": "Also: loader paths (initialize_state again on the same FlowConfig objects, flows added at run time through AddFlowsAction), Colang 1.0 checkpoint / goto sequences with several gotos per checkpoint, when statements whose case is an or-group.",
    "C13": "Also: Colang 1.0 block forms (define heads x explicit meta blocks x parameter blocks at several indentation pairs), blanks after the lines of multi-line strings, 24 end-of-line comment payloads (quotes, triple quotes, keywords ...) at every admissible position of programs whose strings look like syntax.",
    "C14": "Also: an instance-state oracle (no call may change the runtime's flow table or module state) with repetition chains (the same call up to 1500 / 6000 times on the used runtime), while loops with 3-12 rounds, every assignment of indentation steps to the block kinds, augmented assignment (+= / -=) with compound right-hand sides.",
    "C15": "Also: equal per-request parameter values, properly nested vs overlapping completion orders judged separately, a parameter the LLM object only takes through model_kwargs, a world whose input rail action keeps a list in the context and changes it in place.",
    "C16": "Also: options passed as one GenerationOptions object reused across calls (after a user-only call), an earlier ordinary call of the same conversation served from the events cache, input rails that refuse with a message taken from a variable (the refusal is then checked by the output rails).",
    "C17": "Also: a wall-clock horizon per turn (a turn that never returns is reported), generated flows that are long / loop for ever / call unknown subflows in multi-step mode, Colang 2.x generated values interpolated into a message with two placeholders (brace and variable syntax must arrive literally).",
    "C18": "Also: ordered stop lists of one or two (self-/mutually overlapping) stop sequences with a multi-stop reference, texts that never show the configured prefix.",
    "C19": "Also: burst arrivals, a model call that raises (at most one per schedule; every request returns model(text) or the injected error, nobody waits for ever), the same index used from a second event loop after a first round.",
    "C20": "Also: loads of the root folder itself and of single files are judged (only configuration directories below the root may be loaded), part C - every sequence of <=2 / <=3 requests over id lists that collide under a '-' join with the rails cache kept warm (oracle: the answer of a server that has seen no other request), streamed requests (`stream: true`) in the thread alphabet.",
}
for _k, _v in _EXTRA2.items():
    CHECKS[_k]["text"] = CHECKS[_k]["text"].rstrip() + " " + _v

# families added in round 4
_EXTRA3 = {
    "C01": "Also: Colang 1.0 conversations continued through `state` with eight per-turn option forms (none, {}, default object, log only, input true/false, lists), message lists in which the user message is followed by an `event` message.",
    "C02": "Also: an event-level part - core.co + guardrails.co + three small bots explored by the E1 explorer over all orders of user utterances and action results (barge-in while the bot talks or while the rail action is in flight, stopped answers); every emitted StartUtteranceBotAction with a non-refusal text needs an approving output-rails run of its own.",
    "C03": "Also: a Colang 2.x world on the shipped `self check input` / `self check output` rails, a class-based rail action whose constructor fails at the first attempt only, followed by a healthy turn.",
    "C04": "Also: parameters written in statements on flow events (return_value, StartFlow / FlowStarted parameters), values built by another flow from a variable and fed back as input events, one `match $ref.<Event>()` statement reached again with another action type / instance.",
    "C05": "Also: the same action name with identical / sub- / superset / reordered argument sets, instance events with Started confirmed for both / none / one action, cascade programs with a third interaction loop and an only child in the second.",
    "C06": "Also: T8 (action names containing Start / Stop / Finished as substrings), T9 (a child or an activated flow reacts to the same event as its parent / activator, more specifically; the parent may end through a sibling), activations of one flow that differ in their arguments; the feed-back emulation is bound to the real process_events by running every history to depth 3/4 both ways.",
    "C07": "Also: member flows without a waiting statement at every position of await / when groups.",
    "C08": "Also: scenarios with explicit expectations - restarted instances of an activated callee are bound from the activator's arguments again, a callee that changes the global it was called with, return members named like a parameter, activations differing only in the type of an argument.",
    "C09": "Hosts also: three-loop cascade programs, a program that uses one instance uid twice, C04's reused-statement programs; C11's cut states include two activators that deactivate.",
    "C10": "Also: part P - flows that react to each other's outgoing events through process_events (event cap, witness afterwards), fault kinds in another flow's header (parameter default, intent tag of the parent of an action flow).",
    "C11": "Also: re-activation of an activated flow that failed while matching / finished, two activators that deactivate.",
    "C12": "Also: the edge of the accepted 2.x language (operator x operand kind x group shape x nesting context; oracle: rejected by the loader or compiled into a closed flow).",
    "C13": "Also: blank lines after a Colang 1.0 ` or` continuation.",
    "C14": "Also: action results (None, falsy, containers) assigned over earlier values, flows defined by `start_flow` events of the history.",
    "C15": "Also: a predefined bot message that uses a context variable only some conversations supply, conversations with identical texts and different per-request options / rail verdicts.",
    "C16": "Also: one rail flow running twice within one call (listed as input and output rail; refusal taken from a variable and re-checked): `stop` belongs to the occurrence that blocked.",
    "C17": "Also: outputs longer than the prompt budget of the following call (20 000 characters).",
    "C20": "Also: percent-encoded traversal tokens, a datastore with write latency.",
}
for _k, _v in _EXTRA3.items():
    CHECKS[_k]["text"] = CHECKS[_k]["text"].rstrip() + " " + _v

_EXTRA4 = {
    "C01": "Also (round 5): rails that reject with None (a falsy result that is not False) after an earlier truthy result, the input rails selected by a list of names, rail bodies that assign everyday variable names (`$i`, `$n`, ...).",
    "C02": "Also (round 5): Colang 2.x rails listed in config.yml (every pair of input / output lists over three rails, the same rail on both sides); the shipped self-check rails with their REAL actions over message lengths around the check prompt's length limit and marker positions (a returned message was wholly contained in the prompt that approved it).",
    "C03": "Also (round 5): actions served by an actions server (in-process stand-in for aiohttp.ClientSession bound to a real loopback server by a conformance run; answers 200 failed / null / 500 / html / bad json / connect error / timeout at every action site, 1.0 and 2.x runtime); the shipped Colang 2.x library rails (llama guard, content safety, sensitive data, activefence, autoalign, patronus, jailbreak, self check) with stub actions and faults at every site.",
    "C04": "Also (round 5): bare action event statements naming the instance by the written parameter action_uid, flow parameters written by position in statements on flow events, action references made from `<Parameter>Updated` events of external actions.",
    "C05": "Also (round 5): where a competitor's interaction loop comes from (own decorator, `@override` with / without `@loop` in four source arrangements, wrapper parent), competitors with a history before the contested match (or/and groups, awaits, when).",
    "C06": "Also (round 5): T10 activated flows with the `start_new_flow_instance:` label at 8 positions, T11 `deactivate` by one of several activators, T12 an action whose scope closes in the step that started it (feed-back mode), T13 main ending with children / actions running.",
    "C07": "Also (round 5): the group statement inside the body of a `when` case with a two-alternative condition (a body that is expanded once per alternative).",
    "C08": "Also (round 5): `@override` flows whose signature differs from the overridden one (4 placements), `global` declarations at three slots of two sibling instances / the caller / a helper against a reference interpreter, callees as members of groups.",
    "C09": "Also (round 5): an exception escaping run_to_completion in any host exploration is a violation (event-processing-raised), also on the states C11's cuts reach.",
    "C10": "Also (round 5): error texts with special characters while error-reporting library flows are active (termination), parameter defaults that raise on activated flows, internal events sent with missing / ill-typed arguments, verbose logging of error texts that read like console markup.",
    "C11": "Also (round 5): requests naming an ended flow with a watcher on UnhandledEvent, group scopes whose member finishes long before the formula, attribute-style dicts kept in variables; local async actions through the non-blocking process_events API with save/restore at every call boundary (c11_async).",
    "C12": "Also (round 5): every 1.0 flow as LOADED by the runtime (FlowConfig elements, also through a start_flow event), declarations (`priority`, `meta`) at every position of the 1.0 control grammar.",
    "C13": "Also (round 5): part H - every history of <= 2 earlier files (failing in 7 contexts x 7 ways, or valid) parsed in the same process before valid probe files; single-statement files under every meaningless layout.",
    "C14": "Also (round 5): expressions that begin and end with string literals in if / while / set and over action-result fields (oracle: Python's value of the same text), conversations continued through the `state` and the `messages` API of the real LLMRails (group api).",
    "C15": "Also (round 5): conversations that define a flow under one id in their histories, a conversation whose history outgrows the prompt length limit next to short ones.",
    "C16": "Also (round 5): 34 text shapes (leading `$`, names of context variables, blank, literals of the language) at every position of a rails-only call; two overlapping rails-only calls on one instance on the virtual loop (each call's log lists its own rails).",
    "C17": "Also (round 5): the well-formed reference turn asked again on the instance that served every hostile turn.",
    "C18": "Also (round 5): the single-call hand-over (buffered head + body) under every chunking with the operations generation.py performs recorded from a real request, single streaming requests through LLMRails on realistic texts, two overlapping streaming requests on one LLMRails.",
    "C19": "Also (round 5): two indexes in one process whose engine / model names collide under 15 key derivations, an event loop abandoned while a batch is being collected followed by requests on a fresh loop.",
    "C20": "Also (round 5): part D - threads served by a REAL LLMRails under the endpoint (context, per-request options), stored thread compared exactly.",
}
for _k, _v in _EXTRA4.items():
    CHECKS[_k]["text"] = CHECKS[_k]["text"].rstrip() + " " + _v

_EXTRA5 = {
    "C01": "Also (round 6): conversations that repeat a text after a turn that failed (rail action reading the context), the shipped self check input rail with its real action over a ladder of text lengths, Colang 2.x calls carrying several utterances.",
    "C02": "Also (round 6): LLM texts shaped like variable references / templates with the variables defined, the real self_check_output action with verdicts that depend on the user message (same bot text recurring), 2.x rails that rewrite the global bot message, the shipped 1.0 self-check rail followed by another rail.",
    "C03": "Also (round 6): Colang 2.x rails of the threshold shape (`if $ok < 0.5`).",
    "C04": "Also (round 6): every written form of an expected value (interpolation, brace escapes, `$`-texts, variables) in lists / dicts / sets, pattern variables of 10 provenances, return values written on flow references, interpolated texts with special characters, ladders of up to 10000 unmentioned elements.",
    "C05": "Also (round 6): observer flows that wait for Finished / Started of a competitor stay untouched.",
    "C07": "Also (round 6): formulas written with only the parentheses precedence needs, in every statement form incl. the keyword-less group statement.",
    "C08": "Also (round 6): chains of nested / recursive calls with same-named parameters at every level, calls with several non-idempotent argument expressions (`$q.pop(0)`, `uid()`) incl. `send StartFlow(..)` forms.",
    "C09": "Also (round 6): family D - AddFlowsAction / RemoveFlowsAction / StartFlow on up to two conversations of one real RuntimeV2_x, breadth-first over all histories, predicates on every conversation's State after every call.",
    "C10": "Also (round 6): a faulty expression at 18 statement forms x 15 control-flow neighbourhoods, activated flows whose child fails at once, faulty flow-event matches inside groups, action-looking event names with an action_uid.",
    "C11": "Also (round 6): the state-reading answers come from the library's real CheckValidFlowExistsAction / CheckFlowDefinedAction.",
    "C12": "Also (round 6): blocks that hold only statements without effect (comments, pass) in the 2.x control grammar, combined Colang 1.0 configurations (`config_a + config_b` with same-id flows) as loaded by the runtime.",
    "C13": "Also (round 6): CRLF line ends among the meaningless layouts, files with expressions on later lines.",
    "C14": "Also (round 6): statements continued over several lines with every indentation of the continuation, conversations in which a failed action takes a turn back (hide_prev_turn), `$name` inside string literals.",
    "C15": "Also (round 6): passthrough mode with three API forms awaited from one task, 2.x flows continued from their docstring, container-valued parameter defaults changed in place.",
    "C16": "Also (round 6): rails-only calls at the end of conversations whose texts repeat (history from messages / cache / state), one parametrised rail configured several times, exception mode with the shipped self-check rails, a tracing-enabled configuration.",
    "C17": "Also (round 6): texts with a lone surrogate, the LLM calls of the shipped self-check rails (input / output / facts) as hostile positions.",
    "C19": "Also (round 6): cancellation of a request as a schedule choice, 22 pairs of texts that collide under cheap hashes x every key generator x store.",
    "C20": "Also (round 6): part E - the real `nemoguardrails server` command (typer CliRunner, uvicorn stubbed) for 14 command lines, part F - near-equal thread ids of lengths 16..255, part D with passthrough / masking rails.",
}
for _k, _v in _EXTRA5.items():
    CHECKS[_k]["text"] = CHECKS[_k]["text"].rstrip() + " " + _v

NOT_APPLICABLE = {}
