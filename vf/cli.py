"""vcheck entry point:  python -m vf.cli <PROP> [--tier quick|thorough] [--replay f]"""
from __future__ import annotations

import argparse
import importlib
import json
import os
import sys

LEVELS = {
    "C01": "exploration", "C02": "exploration", "C03": "fault_enumeration",
    "C04": "exploration", "C05": "model_checking", "C06": "model_checking",
    "C07": "model_checking", "C08": "exploration", "C09": "model_checking",
    "C10": "model_checking", "C11": "model_checking", "C12": "model_checking",
    "C13": "exploration", "C14": "model_checking", "C15": "model_checking",
    "C16": "exploration", "C17": "exploration", "C18": "model_checking",
    "C19": "model_checking", "C20": "exploration",
}


def main(argv=None):
    ap = argparse.ArgumentParser()
    ap.add_argument("prop")
    ap.add_argument("--tier", default=os.environ.get("VERIF_TIER") or "quick")
    ap.add_argument("--replay")
    args = ap.parse_args(argv)
    if os.environ.get("PYTHONHASHSEED") != "0":
        env = dict(os.environ, PYTHONHASHSEED="0")
        os.execve(sys.executable, [sys.executable, "-m", "vf.cli"] + (argv or sys.argv[1:]), env)
    prop = args.prop.upper()
    if args.prop == "selftest":
        from vf import seams
        seams.selftest()
        print("seams ok")
        return 0
    tier = args.tier if args.tier in ("quick", "thorough") else "quick"
    seed = int(os.environ.get("VERIF_SEED", "0") or 0)
    import logging
    logging.disable(logging.CRITICAL)
    mod = importlib.import_module(f"vf.props.{prop.lower()}")
    if args.replay:
        with open(args.replay) as f:
            rp = json.load(f)
        return mod.replay(rp)
    from vf.evidence import Report
    rep = Report(prop, LEVELS[prop], tier, seed)
    mod.run(rep, tier)
    return rep.finish()


if __name__ == "__main__":
    sys.exit(main())
