"""C13, part H: what a file parses to does not depend on the files parsed before it in the same process.

The parsers are long-lived (the Colang 2.x Lark parser and its indenter are cached per process; a server loads many
configurations one after the other).  Every history of <= 2 earlier files - failing ones (every context x break of the
table below) and valid ones - followed by a valid probe file: the probe must parse, and to exactly the flows it parses to
in a process that has parsed nothing else.  The failing files end inside an indented block, an open bracket, a string, a
docstring, ... so that whatever state a parser keeps while it is inside such a construct is left behind by the failure."""
from __future__ import annotations

import itertools

from vf.props import c13_layout as L

# context the failing file is in when it breaks  x  how it breaks
CONTEXTS_V2 = {
    "top-level": "",
    "flow-body": "flow a\n  match A()\n",
    "nested-blocks": "flow a\n  while $x\n    if $y\n      match A()\n",
    "open-paren": "flow a\n  match A(p=1,\n",
    "open-bracket-multi-line": "flow a\n  $x = [1,\n    2,\n",
    "open-brace-in-nested-block": "flow a\n  if $y\n    send B(p={\"k\": [1,\n",
    "when-branch": "flow a\n  when A()\n    send B()\n  or when C()\n",
}
BREAKS_V2 = {
    "eof": "",
    "stray-closer": "      )\n",
    "bad-character": "      send §\n",
    "over-indented": "          match Z()\n",
    "unterminated-string": "      send B(t=\"abc\n",
    "unterminated-docstring": "  \"\"\"doc\n",
    "keyword-only": "flow\n",
}
PROBES_V2 = {
    "flat": "flow p\n  match A()\n  send B()\n",
    "nested-with-multi-line-bracket": "flow p\n  if $x\n    match A()\n  else\n    send B(p=[1,\n      2])\n  match C()\n",
    "params-doc-loops": "flow p $a $b=2\n  \"\"\"doc\"\"\"\n  while $a\n    when A()\n      break\n    or when B()\n      continue\n",
    "two-flows-no-final-newline": "flow main\n  activate p\n\nflow p\n  match A() and (B() or C())",
}
CONTEXTS_V1 = {
    "top-level": "",
    "flow-body": "define flow a\n  user x\n",
    "nested-blocks": "define flow a\n  user x\n  if $y\n    bot z\n",
    "message-block": "define user x\n  \"hello\"\n",
    "multi-line-string": "define bot z\n  \"hello\n",
}
BREAKS_V1 = {
    "eof": "",
    "over-indented": "          bot q\n",
    "bad-meta": "  meta {bad\n",
    "dangling-else": "  else\n",
    "empty-define": "define\n",
    "bad-set": "  $x = = 1\n",
}
PROBES_V1 = {
    "flat": "define flow p\n  user x\n  bot y\n",
    "nested": "define flow p\n  user x\n  if $a\n    bot y\n  else\n    bot z\n  while $b\n    user w\n",
    "messages-and-flow": "define user x\n  \"hi\"\n  \"hello\"\n\ndefine bot y\n  \"ok\"\n\ndefine flow p\n  user x\n  bot y",
}


def _flows(ver, text):
    return L.flows_key(L.parse("probe.co", text, ver))


def tasks(tier):
    return [("2.x", i, 12) for i in range(12)] + [("1.0", i, 2) for i in range(2)]


def explore(task):
    ver = task[0]
    ctxs, brks, probes = (CONTEXTS_V2, BREAKS_V2, PROBES_V2) if ver == "2.x" else (CONTEXTS_V1, BREAKS_V1, PROBES_V1)
    res = {"H_histories": 0, "H_probe_parses": 0, "H_failing_files": 0, "H_files_that_failed": 0, "viol": []}
    # reference: this worker has parsed nothing but the warm-up file of the parent
    ref = {}
    for pn, pt in probes.items():
        try:
            ref[pn] = repr(_flows(ver, pt))
        except Exception as e:
            res["viol"].append((f"H:{ver}:probe-does-not-parse:{pn}", f"probe `{pn}` does not parse in a fresh process: {e!r}", {"part": "H", "ver": ver, "history": [], "probe": pn}))
    files = {}
    for (cn, ct), (bn, bt) in itertools.product(ctxs.items(), brks.items()):
        files[f"{cn}+{bn}"] = ct + bt
    res["H_failing_files"] = len(files)
    for pn, pt in probes.items():
        files["valid:" + pn] = pt
    failed = set()
    seen = set()
    hists = [(a,) for a in files] + [(a, b) for a in files for b in files if not (a.startswith("valid:") and b.startswith("valid:"))]
    hists = [h for k, h in enumerate(hists) if k % task[2] == task[1]]
    for hist in hists:
        for name in hist:
            try:
                L.parse("earlier.co", files[name], ver)
            except Exception:
                failed.add(name)
        res["H_histories"] += 1
        for pn, pt in probes.items():
            if pn not in ref:
                continue
            res["H_probe_parses"] += 1
            try:
                got = repr(_flows(ver, pt))
                kind = None if got == ref[pn] else "parses-to-other-flows"
                detail = "the flows differ from the ones of a fresh process"
            except Exception as e:
                kind, detail = "rejected", f"{type(e).__name__}: {str(e)[:160]}"
            if kind:
                last = hist[-1]
                cls = "after-a-valid-file" if last.startswith("valid:") else "after-a-failing-file:" + last.split("+")[0]
                sig = f"H:{ver}:valid-file-{kind}:{cls}"
                if sig not in seen:
                    seen.add(sig)
                    res["viol"].append((sig, f"[{ver}] after parsing {[files[h] for h in hist]!r} (history {list(hist)}) in the same process, the valid file `{pn}` {pt!r} is {kind}: {detail}",
                                        {"part": "H", "ver": ver, "history": list(hist), "probe": pn}))
                # get the process back into a usable state for the next history if possible
                break
    res["H_files_that_failed"] = len(failed)
    return res


# ------------------------------------------------------------------ files that consist of ONE top-level statement
SINGLE_V2 = {"import": "import core", "import-path": "import \"lib/x\"", "flow": "flow a\n  match A()", "flow-with-params": "flow a $p\n  send B(p=$p)",
             "two-imports": "import core\nimport llm", "import-and-flow": "import core\nflow a\n  match A()", "comment-only": "# nothing here", "decorated-flow": "@active\nflow a\n  match A()",
             "expressions-on-later-lines": "flow a $p\n  $x = $p + 1\n  if $x > 2 and $p\n    send B(p=$x, q=[1, 2])\n  else\n    send C(t=\"a {$x} b\")\n  while $x < 5\n    $x = $x + 1"}
SINGLE_V1 = {"flow": "define flow a\n  user x\n  bot y", "user": "define user x\n  \"hi\"", "bot": "define bot y\n  \"ok\"", "subflow": "define subflow s\n  bot y",
             "comment-only": "# nothing here",
             "expressions-on-later-lines": "define flow a\n  user x\n  $n = $n + 1\n  if $n > 2 and $m\n    bot y\n  else\n    bot z\n  while $n < 5\n    $n = $n + 1"}
LAYOUTS = {"as-is": lambda t: t, "final-newline": lambda t: t + "\n", "blank-line-before": lambda t: "\n" + t + "\n", "two-blank-lines-before": lambda t: "\n\n" + t + "\n",
           "blank-lines-after": lambda t: t + "\n\n\n", "trailing-blanks": lambda t: "\n".join(l + "  " for l in t.split("\n")) + "\n",
           "blank-line-with-blanks-before": lambda t: "   \n" + t + "\n",
           # a carriage return before the line feed is trailing whitespace of the line (files written on another platform)
           "crlf-line-ends": lambda t: t.replace("\n", "\r\n") + "\r\n",
           "crlf-line-ends-and-blank-lines": lambda t: "\r\n" + t.replace("\n", "\r\n\r\n") + "\r\n"}


def explore_single(ver):
    """every single-statement file x every meaningless layout: one outcome (parsed flows + imports, or rejection) for all layouts"""
    res = {"S_files": 0, "S_parses": 0, "viol": []}
    for name, text in (SINGLE_V2 if ver == "2.x" else SINGLE_V1).items():
        res["S_files"] += 1
        outcomes = {}
        for ln, fn in LAYOUTS.items():
            res["S_parses"] += 1
            try:
                r = L.parse("single.co", fn(text), ver)
                outcomes[ln] = ("ok", L.flows_key(r), tuple(r.get("import_paths") or ()))
            except Exception as e:
                outcomes[ln] = ("rejected", type(e).__name__)
        kinds = {o[0] for o in outcomes.values()}
        if len(set(outcomes.values())) > 1:
            ok = [k for k, o in outcomes.items() if o[0] == "ok"]
            rej = [k for k, o in outcomes.items() if o[0] != "ok"]
            what = "parses in the layouts %s but is rejected in %s (%s)" % (ok, rej, sorted({o[1] for o in outcomes.values() if o[0] != "ok"})) if len(kinds) > 1 else "parses to different flows / imports in different layouts"
            res["viol"].append((f"S:{ver}:single-statement-file:{name}:{'accepted-or-rejected-by-layout' if len(kinds) > 1 else 'flows-differ'}",
                                f"[{ver}] file {text!r}: {what}", {"part": "S", "ver": ver, "file": name}))
    return res


def replay(rp):
    if rp.get("part") == "S":
        text = (SINGLE_V2 if rp["ver"] == "2.x" else SINGLE_V1)[rp["file"]]
        for ln, fn in LAYOUTS.items():
            try:
                r = L.parse("single.co", fn(text), rp["ver"])
                print(ln, repr(fn(text)), "-> ok", len(r.get("flows", [])), "flow(s), imports", r.get("import_paths"))
            except Exception as e:
                print(ln, repr(fn(text)), "->", type(e).__name__, str(e)[:120])
        return 0
    ver = rp["ver"]
    ctxs, brks, probes = (CONTEXTS_V2, BREAKS_V2, PROBES_V2) if ver == "2.x" else (CONTEXTS_V1, BREAKS_V1, PROBES_V1)
    files = {f"{cn}+{bn}": ct + bt for (cn, ct), (bn, bt) in itertools.product(ctxs.items(), brks.items())}
    files.update({"valid:" + k: v for k, v in probes.items()})
    for h in rp["history"]:
        try:
            L.parse("earlier.co", files[h], ver)
            print("earlier file", h, "-> parsed")
        except Exception as e:
            print("earlier file", h, "->", type(e).__name__, str(e)[:100])
    try:
        _flows(ver, probes[rp["probe"]])
        print("probe", rp["probe"], "-> parsed")
    except Exception as e:
        print("probe", rp["probe"], "->", type(e).__name__, str(e)[:200])
    return 0
