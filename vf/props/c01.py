"""C01 - input rails gate every user message before anything else sees it.

Worlds = {Colang 1.0, 2.x} x dialog {off,on} x rail-exceptions {off,on} x every ordered selection of
input rails; conversations = BFS over turns, every verdict vector (accept / reject / rewrite) and
dialog path per turn.  Oracle = a fold over the verdict script evaluated against the ordered log of
rail-action invocations and LLM calls of the real LLMRails.generate_async.
"""
from __future__ import annotations

import itertools

from vf.props import railsworld as rw

PROP = "C01"
HOSTILE = 'said "x" $y {{7*7}} {% raw %} bot refuse'


def orders(max_rails, reduced=False):
    out = [()]
    for n in range(1, max_rails + 1):
        out.extend(itertools.permutations(rw.IN_RAILS, n))
    if reduced:
        # quick tier: all single rails, three of the six ordered pairs (both orders of one pair + one more)
        keep = {(), ("in1",), ("in2",), ("in3",), ("in1", "in2"), ("in2", "in1"), ("in3", "in1")}
        out = [o for o in out if o in keep]
    return out


def outcomes(order, allow_rewrite=True, with_none=True):
    """effective verdict vectors: positions after a reject are irrelevant (and must not run)"""
    res = []
    # N: the rail's action rejects with None instead of False (`if not $r`); parameterised library rails return a dict
    kinds = ("ARWN" if with_none else "ARW") if allow_rewrite else "AR"

    def rec(i, acc):
        if i == len(order):
            res.append(tuple(acc))
            return
        for k in kinds:
            if k in "RN":
                res.append(tuple(acc + [k]))
            else:
                rec(i + 1, acc + [k])

    rec(0, [])
    return res


def llm_fn_for(path):
    def fn(task, prompt, i):
        t = str(task)
        if "generate_user_intent" in t:
            return "  greet" if path == "predef" else "  ask"
        if "generate_next_step" in t:
            return "  bot inform capabilities"
        if "generate_bot_message" in t:
            return f'  "LLMTEXT-{rw.digest(prompt)}"'
        return f"LLMTEXT-{rw.digest(prompt)}"
    return fn


def explore_world(task):
    if task[0] == "state-mode":
        return explore_state_mode(task)
    if task[0] == "message-shapes":
        return explore_message_shapes(task)
    if task[0] == "rail-variables":
        return explore_rail_variables(task)
    if task[0] == "repeated-texts":
        from vf.props import c01_repeat
        return c01_repeat.explore(task)
    if task[0] == "2.x-several-utterances":
        from vf.props import c01_multi
        return c01_multi.explore(task)
    if task[0] == "real-self-check-input":
        from vf.props import c01_selfcheck
        return c01_selfcheck.explore(task)
    if str(task[0]).startswith("2.x"):
        from vf.props import c01_v2
        return c01_v2.explore_world(task)
    version, order, dialog, exceptions, turns = task[:5]
    res = {"worlds": 1, "turns": 0, "conversations": 0, "rejections": 0, "rewrites": 0, "llm_calls": 0,
           "rail_calls": 0, "viol": []}
    param = len(task) > 5 and task[5] == "param"
    try:
        world = rw.v1_world(in_order=order, out_order=("out1",), dialog=(dialog is True), exceptions=exceptions,
                            extra_yaml=("passthrough: True\n" if dialog == "passthrough" else ""), param_rails=param)
    except Exception as e:
        res["viol"].append((f"world-rejected:v1", repr(e), {"task": list(map(str, task))}))
        return res
    info0 = {"engine": "E3-world", "prop": "C01", "version": version, "order": list(order), "dialog": dialog, "exceptions": exceptions, "param_rails": param}
    outs = outcomes(order, allow_rewrite=not param)
    paths = ["predef", "llm"] if dialog is True else ["general"]
    nonce = [0]

    def expand(messages, banned, t, hist):
        """banned: markers of rewritten originals that must never reach a prompt again."""
        if t > turns:
            res["conversations"] += 1
            return
        text_kinds = ["plain", "hostile"] if t == 1 else ["plain"]
        for tk, oc, path in itertools.product(text_kinds, outs, paths):
            nonce[0] += 1
            marker = f"U{t}x{nonce[0]}q"
            user_text = f"{marker} hello" if tk == "plain" else f"{marker} {HOSTILE}"
            verdicts = {}
            cur = user_text
            expected_calls = []
            rejected_by = None
            for r, k in zip(order, oc):
                expected_calls.append((r, cur))
                if k in "RN":
                    verdicts[r] = k
                    rejected_by = r
                    break
                if k == "W":
                    cur = f"RW{r}t{t}x{nonce[0]}q rewritten"
                    verdicts[r] = ("W", cur)
                else:
                    verdicts[r] = "A"
            verdicts["out1"] = "A"
            msgs = messages + [{"role": "user", "content": user_text}]
            turn = rw.run_turn(world, msgs, verdicts, llm_fn_for(path))
            res["turns"] += 1
            res["llm_calls"] += len(turn.llm_calls)
            step = {"t": t, "user": user_text, "outcome": "".join(oc), "path": path}
            info = dict(info0, history=hist + [step])
            in_calls = [(a["rail"], a["text"], a["seq"]) for a in turn.actions if a["rail"] in rw.IN_RAILS]
            res["rail_calls"] += len(in_calls)

            def bad(sig, what):
                res["viol"].append((f"{sig}:v1:{'passthrough' if dialog == 'passthrough' else ('dialog' if dialog else 'nodialog')}{':parameterised-rails' if param else ''}", what, info))

            if turn.exc is not None:
                bad("generate-raised", f"{turn.exc!r}")
                continue
            got = [(r, x) for r, x, _ in in_calls]
            if got != expected_calls:
                bad("input-rail-sequence", f"order={order} outcome={oc}: rails invoked {got}, expected {expected_calls}")
                continue
            last_rail_seq = max([s for _, _, s in in_calls], default=0)
            early = [c for c in turn.llm_calls if c["seq"] < last_rail_seq]
            if early:
                bad("llm-call-before-input-rails-finished", f"task {early[0]['task']} ran before the last input rail")
            new_banned = set(banned)
            if cur != user_text:
                new_banned.add(marker)
                res["rewrites"] += 1
            if rejected_by:
                res["rejections"] += 1
                want = f"EXC:BLOCKED-{rejected_by}" if exceptions else f"REFUSED-{rejected_by}"
                if param:
                    # (Colang 1.0 does not interpolate the `{$model}` of the library rail's exception message)
                    want = ("EXC:Input not allowed. The input was blocked by the 'content safety check input $model='{$model}'' flow."
                            if exceptions else "I'm sorry, I can't respond to that.")
                if turn.text != want:
                    bad("reply-is-not-the-refusal", f"rail {rejected_by} rejected; reply {turn.text!r}, expected {want!r}")
                if turn.llm_calls:
                    bad("llm-call-after-rejection", f"rail {rejected_by} rejected but LLM tasks {[str(c['task']) for c in turn.llm_calls]} ran")


            else:
                cur_marker = cur.split(" ")[0]
                if not turn.llm_calls:
                    bad("no-generation-after-accept", f"all rails accepted but no LLM call was made; reply {turn.text!r}")
                # the first dialog/generation call of a turn quotes the user message it works on
                c = turn.llm_calls[0] if turn.llm_calls else None
                if c is not None and cur_marker not in c["prompt"]:
                    bad("prompt-lacks-current-user-text", f"task {c['task']}: prompt does not contain the (rewritten) user text marker {cur_marker}")
            # passthrough mode sends the client's raw message list to the LLM: earlier turns appear as the
            # client supplied them (the statement is about the message being processed) -> only this turn's text
            check_banned = new_banned if dialog != "passthrough" else ({marker} if cur != user_text else set())
            for c in turn.llm_calls:
                hit = [b for b in check_banned if b in c["prompt"]]
                if hit:
                    bad("pre-rewrite-text-in-prompt", f"task {c['task']} (turn {t}): prompt contains the pre-rewrite text {hit[0]}")
                    break
            reply = turn.reply if isinstance(turn.reply, dict) else {"role": "assistant", "content": str(turn.text)}
            if reply.get("role") == "exception":
                # an exception reply is not a message of the conversation; continue without it
                nxt_msgs = msgs
            else:
                nxt_msgs = msgs + [reply]
            expand(nxt_msgs, new_banned, t + 1, hist + [step])

    expand([], set(), 1, [])
    # one violation per signature
    seen, uniq = set(), []
    for v in res["viol"]:
        if v[0] not in seen:
            seen.add(v[0])
            uniq.append(v)
    res["viol"] = uniq
    res["sample"] = dict(info0, turns=res["turns"])
    return res



# ----------------------------------------------------------------------------- conversations continued through `state`
OPTION_FORMS = {
    # name: (options object for the call, input rails selected?)
    "none": (lambda: None, True),
    "empty-dict": (lambda: {}, True),
    "default-object": (lambda: __import__("nemoguardrails.rails.llm.options", fromlist=["GenerationOptions"]).GenerationOptions(), True),
    "log-only": (lambda: {"log": {"activated_rails": True}}, True),
    "input-true": (lambda: {"rails": {"input": True}}, True),
    "list-all": (lambda: {"rails": ["input", "dialog", "retrieval", "output"]}, True),
    "input-list-of-names": (lambda: {"rails": {"input": ["in1"]}}, True),   # Union[bool, List[str]]: every configured rail is named
    "input-false": (lambda: {"rails": {"input": False}}, False),
    "list-without-input": (lambda: {"rails": ["dialog", "retrieval", "output"]}, False),
}


def explore_state_mode(task):
    """Colang 1.0 conversations continued through the `state` object with per-turn generation options: whatever a turn
    selected (e.g. input rails switched off for one call), the next turn is gated by the input rails unless it opts out itself."""
    _tag, dialog, turns = task
    res = {"worlds": 1, "turns": 0, "conversations": 0, "rejections": 0, "rewrites": 0, "llm_calls": 0, "rail_calls": 0, "viol": [],
           "turns_after_an_opt_out": 0}
    world = rw.v1_world(in_order=("in1",), out_order=(), dialog=dialog)
    info0 = {"engine": "E3-world", "prop": "C01", "version": "1.0", "mode": "state-continued", "dialog": dialog}
    nonce = [0]

    def expand(state, t, hist, after_opt_out):
        if t > turns:
            res["conversations"] += 1
            return
        for form, (mk, selected) in OPTION_FORMS.items():
            for in_v in ("A", "R", "N"):
                if not selected and in_v != "A":
                    continue
                nonce[0] += 1
                user_text = f"U{t}x{nonce[0]}q hello"
                turn = rw.run_turn(world, [{"role": "user", "content": user_text}], {"in1": in_v}, llm_fn_for("llm" if dialog else "general"), options=mk(), state=state)
                res["turns"] += 1
                step = {"t": t, "options": form, "in": in_v}
                info = dict(info0, history=hist + [step])

                def bad(sig, what):
                    res["viol"].append((f"{sig}:v1:state-continued:{form}" + (":after-a-turn-without-input-rails" if after_opt_out else ""), what, info))

                if turn.exc is not None:
                    bad("generate-raised", f"{turn.exc!r}")
                    continue
                calls = [(a["rail"], a["text"]) for a in turn.actions if a.get("rail") in rw.IN_RAILS]
                res["rail_calls"] += len(calls)
                res["llm_calls"] += len(turn.llm_calls)
                if after_opt_out:
                    res["turns_after_an_opt_out"] += 1
                if selected:
                    if calls != [("in1", user_text)]:
                        bad("input-rail-sequence", f"options form `{form}` selects the input rails; rails invoked {calls}, expected [('in1', {user_text!r})]; reply {turn.text!r}")
                    elif in_v != "A":
                        res["rejections"] += 1
                        if turn.text != "REFUSED-in1":
                            bad("reply-is-not-the-refusal", f"in1 rejected; reply {turn.text!r}")
                        if turn.llm_calls:
                            bad("dialog-or-generation-after-rejection", f"in1 rejected but LLM tasks {[str(c['task']) for c in turn.llm_calls]} ran")
                elif calls:
                    bad("unselected-input-rails-ran", f"{calls}")
                nxt = getattr(turn.reply, "state", None)
                if nxt is None:
                    if t < turns:
                        bad("no-state-returned", f"generate with a state object returned {type(turn.reply).__name__} without a state")
                    continue
                expand(nxt, t + 1, hist + [step], not selected)

    expand({}, 1, [], False)
    seen, uniq = set(), []
    for v in res["viol"]:
        if v[0] not in seen:
            seen.add(v[0])
            uniq.append(v)
    res["viol"] = uniq
    res["sample"] = dict(info0, turns=res["turns"])
    return res



# ----------------------------------------------------------------------------- rail bodies that use ordinary variable names
RAIL_BODY_VARIABLES = ("i", "j", "n", "input_flows", "triggered_input_rail", "allowed", "result", "event")


def explore_rail_variables(task):
    """The first configured rail is an ordinary rail whose body keeps a value of its own in a context variable with an
    everyday name (a counter `$i`, a flag ...).  The second configured rail still has to see the message, and its
    rejection ends the turn: the runner of the rails must not depend on names a rail body may use."""
    _tag, var, side = task
    res = {"worlds": 1, "turns": 0, "conversations": 0, "rejections": 0, "rewrites": 0, "llm_calls": 0, "rail_calls": 0, "viol": []}
    text_var = "$user_message" if side == "input" else "$bot_message"
    first = f"""
define flow first rail
  ${var} = 7
  $r = execute verif_rail(rail="{'in1' if side == 'input' else 'out1'}", text={text_var})
  if not $r
    bot refuse first
    stop

define bot refuse first
  "REFUSED-first"
"""
    second = rw.v1_rail("in2" if side == "input" else "out2", side)
    yaml = "rails:\n  " + side + ":\n    flows:\n      - first rail\n      - " + ("in2" if side == "input" else "out2") + "\n"
    from vf.engines.world import World
    try:
        world = World(first + second, yaml)
    except Exception as e:
        res["viol"].append((f"world-rejected:v1:rail-variable:{var}", repr(e), {"task": list(task)}))
        return res
    a, b = ("in1", "in2") if side == "input" else ("out1", "out2")
    n = 0
    for v2 in ("A", "R"):
        n += 1
        u = f"URV{n}{var}q hello"
        turn = rw.run_turn(world, [{"role": "user", "content": u}], {a: "A", b: v2}, llm_fn_for("general"))
        res["turns"] += 1
        res["conversations"] += 1
        info = {"engine": "E3-world", "prop": "C01", "version": "1.0", "mode": "rail-variables", "variable": var, "side": side, "second_rail_verdict": v2}
        if turn.exc is not None:
            res["viol"].append((f"generate-raised:v1:rail-body-assigns-${var}:{side}", repr(turn.exc), info))
            continue
        calls = [x["rail"] for x in turn.actions if x.get("rail") in (a, b)]
        res["rail_calls"] += len(calls)
        if calls != [a, b]:
            res["viol"].append((f"{side}-rail-sequence:v1:rail-body-assigns-a-variable-of-the-runner:{side}",
                                f"the first configured {side} rail assigns `${var} = 7` in its body; configured rails [first rail, {b}], invoked {calls}; reply {turn.text!r}", info))
            continue
        if v2 == "R":
            res["rejections"] += 1
            if turn.text != f"REFUSED-{b}":
                res["viol"].append((f"reply-is-not-the-refusal:v1:rail-body-assigns-a-variable-of-the-runner:{side}", f"`${var}`: {b} rejected; reply {turn.text!r}", info))
    return res


# ----------------------------------------------------------------------------- message list shapes
def explore_message_shapes(task):
    """The user message of the turn is not the last element of `messages`: it is followed by an `event` message (the shape
    shown in the docstring of generate_async).  It is a user message like any other: no LLM call may see it before the
    input rails have, and a rejection ends the turn."""
    _tag, dialog = task
    res = {"worlds": 1, "turns": 0, "conversations": 0, "rejections": 0, "rewrites": 0, "llm_calls": 0, "rail_calls": 0, "viol": []}
    world = rw.v1_world(in_order=("in1",), out_order=(), dialog=dialog)
    shapes = {
        "user-then-event": lambda u: [{"role": "user", "content": u}, {"role": "event", "event": {"type": "UserSilent"}}],
        "context-user-then-event": lambda u: [{"role": "context", "content": {"k": "v"}}, {"role": "user", "content": u}, {"role": "event", "event": {"type": "UserSilent"}}],
        "answered-turn-then-user-then-event": lambda u: [{"role": "user", "content": "U0 earlier"}, {"role": "assistant", "content": "earlier reply"}, {"role": "user", "content": u},
                                                         {"role": "event", "event": {"type": "UserSilent"}}],
    }
    n = 0
    for shape, mk in shapes.items():
        for v in ("A", "R"):
            n += 1
            u = f"UMS{n}q hello"
            turn = rw.run_turn(world, mk(u), {"in1": v}, llm_fn_for("llm" if dialog else "general"))
            res["turns"] += 1
            res["conversations"] += 1
            info = {"engine": "E3-world", "prop": "C01", "version": "1.0", "mode": "message-shapes", "dialog": dialog, "shape": shape, "verdict": v}
            if turn.exc is not None:
                res["viol"].append((f"generate-raised:v1:message-shape:{shape}", repr(turn.exc), info))
                continue
            seen_by_rails = [a["text"] for a in turn.actions if a.get("rail") == "in1"]
            res["rail_calls"] += len(seen_by_rails)
            res["llm_calls"] += len(turn.llm_calls)
            leaked = [str(c["task"]) for c in turn.llm_calls if u in c["prompt"]]
            if leaked and (u not in seen_by_rails or v == "R"):
                res["viol"].append((f"unchecked-user-message-reached-the-llm:v1:message-shape:{shape}",
                                    f"messages shape `{shape}`, verdict {v}: LLM tasks {leaked} saw the user text, input rails saw {seen_by_rails}; reply {turn.text!r}", info))
            if v == "R":
                res["rejections"] += 1
    seen, uniq = set(), []
    for x in res["viol"]:
        if x[0] not in seen:
            seen.add(x[0])
            uniq.append(x)
    res["viol"] = uniq
    return res


def tasks(tier):
    out = []
    if tier == "quick":
        plan = [(2, 2)]
    else:
        plan = [(3, 2), (2, 3)]
    seen = set()
    for max_rails, turns in plan:
        for order in orders(max_rails, reduced=(tier == "quick")):
            for dialog in (False, True, "passthrough"):
                for exc in (False, True):
                    if dialog == "passthrough" and (exc or len(order) > 2):
                        continue
                    key = (order, dialog, exc, turns)
                    if (order, dialog, exc) in seen and turns <= 2:
                        continue
                    seen.add((order, dialog, exc))
                    out.append(("1.0", order, dialog, exc, turns))
    # one rail flow configured several times with different parameters
    for order in (("in1", "in2"), ("in2", "in1"), ("in1", "in2", "in3")):
        for dialog in (False, True):
            for exc in (False, True):
                if len(order) == 3 and (tier == "quick" or exc):
                    continue
                out.append(("1.0", order, dialog, exc, 2, "param"))
    for dialog in (False, True):
        out.append(("state-mode", dialog, 2 if tier == "quick" else 3))
        out.append(("message-shapes", dialog))
    for var in RAIL_BODY_VARIABLES:
        for side in ("input", "output"):
            out.append(("rail-variables", var, side))
    try:
        from vf.props import c01_v2
        out.extend(c01_v2.tasks(tier))
    except ImportError:
        pass
    from vf.props import c01_multi, c01_repeat, c01_selfcheck
    # (the longer tasks of these families go first so that the pool is not left waiting for them at the end)
    out = c01_repeat.tasks(tier) + c01_selfcheck.tasks(tier) + out
    out.extend(c01_multi.tasks(tier))
    return out


def run(rep, tier):
    from vf import par
    import vf.engines.world  # noqa: import the library before forking

    ts = tasks(tier)
    agg = {}
    n = 0
    for r in par.pmap(explore_world, ts):
        n += 1
        for k, v in r.items():
            if isinstance(v, int):
                agg[k] = agg.get(k, 0) + v
        for sig, what, info in r["viol"]:
            rep.violation(sig, what, info)
        if n % max(1, len(ts) // 5) == 0 and "sample" in r:
            rep.sample(r["sample"])
    for k, v in agg.items():
        rep.set(k, v)
    rep.set("evaluations", agg.get("turns", 0))
    rep.set("distinct_nontrivial", agg.get("rejections", 0) + agg.get("rewrites", 0))
    rep.set("rule", "every world (version x dialog x exceptions x ordered rail selection) x every conversation (per turn: every effective verdict vector x dialog path; hostile text in turn 1); "
                    "non-trivial = turns in which a rail rejected or rewrote; "
                    "+ repeated-text conversations (texts over {X,Y} x fault vector x text-dependent verdict map, every turn may fail and be hidden: c01_repeat.py); "
                    "+ the shipped self-check input rail with its real action over a ladder of text lengths x marker positions x prompt limits (c01_selfcheck.py); "
                    "+ Colang 2.x calls that carry several user utterances x every verdict vector (c01_multi.py)")
    rep.set("exhaustive", True)
    rep.assumptions += [
        "rails are stub flows following the shape of the shipped self-check rails (execute action -> refuse/stop or rail exception; rewrite by assigning $user_message)",
        "scripted LLM, fake embedding engine; user texts carry a per-branch nonce so the instance-wide events cache cannot alias conversations",
        "repeated-text family: a failing turn = the rail's own action raising once (injected at the action invocation); the rail action reads context['user_message'] like the shipped rails' actions",
        "real self-check family: the scripted LLM blocks exactly when the check prompt it received shows the marker word; lengths are a ladder (step 1000 in the quick tier), not every length",
    ]


def replay(rp):
    if rp.get("mode") == "repeated-texts":
        from vf.props import c01_repeat
        return c01_repeat.replay(rp)
    if rp.get("mode") == "real-self-check-input":
        from vf.props import c01_selfcheck
        return c01_selfcheck.replay(rp)
    if rp.get("mode") == "several-utterances":
        from vf.props import c01_multi
        return c01_multi.replay(rp)
    if str(rp.get("version")).startswith("2.x"):
        from vf.props import c01_v2
        return c01_v2.replay(rp)
    world = rw.v1_world(in_order=tuple(rp["order"]), out_order=("out1",), dialog=(rp["dialog"] is True), exceptions=rp["exceptions"], param_rails=rp.get("param_rails", False),
                        extra_yaml=("passthrough: True\n" if rp["dialog"] == "passthrough" else ""))
    msgs = []
    for step in rp["history"]:
        verdicts = {"out1": "A"}
        for r, k in zip(rp["order"], step["outcome"]):
            verdicts[r] = {"A": "A", "R": "R", "N": "N"}.get(k, ("W", f"RW{r} rewritten"))
        msgs = msgs + [{"role": "user", "content": step["user"]}]
        turn = rw.run_turn(world, msgs, verdicts, llm_fn_for(step["path"]))
        print(step, "->", turn.text, "| rails:", [(a["rail"], a["text"]) for a in turn.actions], "| llm:", [str(c["task"]) for c in turn.llm_calls])
        if isinstance(turn.reply, dict) and turn.reply.get("role") != "exception":
            msgs = msgs + [turn.reply]
    print(rp["what"])
    return 0
