"""C14, group `api`: the conversation is held through the public API, one LLMRails.generate_async call per user turn.

The other groups of vf/props/c14.py hand the runtime one growing event history.  A host does not do that: it calls
LLMRails.generate_async once per user turn and carries the conversation either
    state     in the state object the previous call returned (`generate_async(messages=[<new user message>],
              state=<state of the previous call>)`; the first call gets {"events": []}; the server's `state` field:
              "a state object that should be used to continue the interaction"), or
    messages  in the growing list of user / assistant messages (`generate_async(messages=<all messages so far>)`).
The conversation so far - the user turns and the replies the library itself gave - is the same in both; the first
sentence of the property then says which bot steps the next reply consists of.

  world      a real LLMRails (vf.engines.world.World: scripted LLM, registered fake embedding engine).  Every
             intent has one example utterance (its own name), every bot step a predefined message (its own name).
             The scripted LLM names the user's intent when it is asked for it (the driver's choice for that turn -
             also an intent no flow knows) and answers the two tasks of the library's own fallback flow
             (`generate next step`) with a fixed step `bot zfallback` / "ZFALLBACK".
  programs   f1: user u0; $c = 0; bot; <block> for every block of grammar `lay` (bot | user | $c = $c + 1 |
             if $c == 0/1 [else] | while $c < 2) of sizes 1-2 [1-3] that contains a user step and the loops of group
             `loop` with k = 3 whose body waits for the user, with a bot step of its own inserted directly after
             every user step (so that a turn that follows the flow decides at least one bot step);
             second flow f2: user j0; $c = 1; bot; user j1; bot.
  histories  BFS over the user's turns exactly like the other groups: at every user point {the intents the flow
             waits for, u0, j0, an unknown intent, intents a left flow waited for}, <= max_user turns, <= max_dev
             unexpected turns.  Only turns in which the reference decides at least one bot step are continued: in
             a turn without one the library's fallback flow asks the LLM and the answer becomes part of the
             conversation, which the reference does not model (such a turn is still checked, then the history ends).
  oracle     per call: the bot messages of the user's flows in the reply (lines of the reply that are bot steps of
             the program, in order) == the bot steps the reference decides for that turn (none for an intent no
             flow knows and while the flow waits).  Turns in which a flow left earlier is involved are not
             judged (as in the other groups) and not run.
  classes    signature = api:<carrier>:<since when the followed flow is followed>:<how>
               since: flow-starts-in-this-call | flow-followed-since-the-previous-call |
                      flow-followed-since-two-or-more-calls | no-flow-followed
               how:   step (other bot steps than expected) | exception
  replay     program text + carrier + the user's intents; the calls are repeated on a new LLMRails.
"""
from __future__ import annotations

import asyncio
import copy

FALLBACK_STEP = "zfallback"
FALLBACK_TEXT = "ZFALLBACK"
CARRIERS = ("state", "messages")


def _c14():
    from vf.props import c14

    return c14


def answered(block):
    """the same block with a bot step of its own directly after every user step"""
    out = []
    for st in block:
        if st[0] == "U":
            out += [st, ("B",)]
        elif st[0] == "IF":
            out.append(("IF", st[1], answered(st[2]), answered(st[3]) if st[3] else None))
        elif st[0] == "WH":
            out.append(("WH", st[1], answered(st[2])))
        else:
            out.append(st)
    return tuple(out)


def state_programs(sizes):
    """every `lay` program of these sizes with a user step and every loop of group `loop` (k = 3) whose body waits
    for the user, each user step (also the start intent) answered by a bot step of its own: a turn that follows the
    flow then decides at least one bot step"""
    c14 = _c14()
    out = []
    for n in sizes:
        for main, subs in c14.programs("lay", n):
            if c14.has(main, "U"):
                out.append(((("B",),) + answered(main), subs))
    for main, subs in c14.loop_programs((3,)):
        if c14.has(main, "U"):
            out.append(((("B",),) + answered(main), subs))
    return out


def bot_names(P):
    names = []

    def walk(block):
        for st in block or ():
            if st[0] == "B":
                names.append(st[1])
            elif st[0] == "IF":
                walk(st[2])
                walk(st[3])
            elif st[0] == "WH":
                walk(st[2])
            elif st[0] == "WN":
                for _, body in st[1]:
                    walk(body)

    for b in list(P["flows"].values()) + list(P["subs"].values()):
        walk(b)
    return names


def api_source(P, order):
    c14 = _c14()
    tab = c14._intent_table(P)
    chunks = [c14.to_colang(P, order)]
    for i in sorted(tab):
        chunks.append(f'define user {i}\n  "{i}"\n')
    for m in sorted(set(bot_names(P))):
        chunks.append(f'define bot {m}\n  "{m}"\n')
    return "\n".join(chunks)


class ApiWorld:
    def __init__(self, P, order):
        from vf.engines.world import World

        self.P = P
        self.src = api_source(P, order)
        self.bots = set(bot_names(P))
        self.cur = {"intent": None}
        self.w = World(self.src, "")
        self.w.llm_fn = self._llm
        self.loop = asyncio.new_event_loop()
        self.calls = 0

    def close(self):
        self.loop.close()

    def _llm(self, task, prompt, i):
        if task == "generate_user_intent":
            return "  " + self.cur["intent"]
        if task == "generate_next_steps":
            return "  bot " + FALLBACK_STEP
        if task == "generate_bot_message":
            return f'  "{FALLBACK_TEXT}"'
        return "  " + FALLBACK_TEXT

    @staticmethod
    def start(carrier):
        return {"events": []} if carrier == "state" else []

    def turn(self, carrier, conv, intent):
        """one generate_async call -> (("ok", reply text) | ("exc", text), the conversation as the host carries it on)"""
        self.cur["intent"] = intent
        self.calls += 1
        user = {"role": "user", "content": intent}
        if carrier == "state":
            res, exc = self.w.generate(self.loop, messages=[user], state=copy.deepcopy(conv))
            if exc is not None:
                return ("exc", f"{type(exc).__name__}: {exc}"[:300]), conv
            text = "\n".join(str(m.get("content")) for m in res.response if m.get("role") == "assistant")
            return ("ok", text), res.state
        msgs = copy.deepcopy(conv) + [user]
        res, exc = self.w.generate(self.loop, messages=msgs)
        if exc is not None:
            return ("exc", f"{type(exc).__name__}: {exc}"[:300]), conv
        return ("ok", str(res.get("content"))), msgs + [res]

    def flow_steps(self, text):
        """the lines of a reply that are bot steps of the program"""
        return [ln for ln in text.split("\n") if ln in self.bots]


def ref_turn(P, ahist, intent, tab):
    """the reference for one user turn: -> (abstract history after the turn, reference result, bot steps decided)"""
    c14 = _c14()
    ah = ahist + (("user", intent),)
    r = c14.ref_run(P, ah, tab)
    first = r
    steps = []
    while r["status"] == "strict" and r["expect"] and r["expect"][0] == "bot":
        steps.append(r["expect"][1])
        ah = ah + (("bot", r["expect"][1]),)
        r = c14.ref_run(P, ah, tab)
    return ah, first, r, steps


def since_class(before, first, intent, call, started):
    """since when the flow that decides this turn is followed (before / first: reference before the turn / after its
    user event; started: the call in which the flow followed before the turn started)"""
    if (first["leave"] or "").startswith("start:"):
        return "flow-starts-in-this-call"
    if before["cur_flow"] is not None and intent in before["pending_user"] and started is not None:
        return "flow-followed-since-the-previous-call" if call - started == 1 else "flow-followed-since-two-or-more-calls"
    return "no-flow-followed"


def explore_api(task):
    """BFS over the user's turns of one program, one generate_async call per turn, for one carrier"""
    c14 = _c14()
    idx, main, subs, f2name, opts = task
    seed = opts.get("seed", 0)
    carrier = opts["carrier"]
    P = c14.label(main, subs, c14.F2_VARIANTS[f2name])
    order = ("f1", "s1", "s2", "f2") if seed % 2 == 0 else ("f2", "s2", "s1", "f1")
    tab = c14._intent_table(P)
    W = ApiWorld(P, order)
    counts = {"programs": 1, "states": 0, "transitions": 0, "traces_validated_against_impl": 0,
              "nontrivial_histories": 0, "api_programs": 1, "api_calls": 0, "api_turns_judged": 0,
              "api_turns_flow_starts_in_this_call": 0, "api_turns_flow_followed_since_the_previous_call": 0,
              "api_turns_flow_followed_since_two_or_more_calls": 0, "api_turns_no_flow_followed": 0,
              "api_turns_left_flow_involved_not_run": 0, "api_turns_without_flow_step_history_ends": 0,
              "max_api_calls_in_a_conversation": 0, "violating_histories": 0}
    viols = {}
    sample = None
    feat_counts = {}
    from collections import deque

    q = deque()
    # node: (abstract history, conversation as carried by the host, reference result, user turns, unexpected turns,
    #        call index at which the followed flow started)
    q.append(((), W.start(carrier), c14.ref_run(P, (), tab), 0, 0, None))
    while q:
        ahist, conv, r, n_user, dev, started = q.popleft()
        cands = []
        for i in r["pending_user"] + ["u0", "j0", c14.UNKNOWN_INTENT] + sorted(x for v in r["susp"].values() for x in v):
            if i not in cands:
                cands.append(i)
        if seed:
            cands = cands[seed % len(cands):] + cands[:seed % len(cands)]
        for i in cands:
            ah2, first, r2, steps = ref_turn(P, ahist, i, tab)
            if first["status"] == "unspec":
                cost = 0
            elif i in r["pending_user"] or (i == "u0" and r["cur_flow"] is None and not r["susp"]):
                cost = 0
            else:
                cost = 1
            if dev + cost > opts["max_dev"]:
                continue
            call = n_user + 1
            if first["status"] != "strict":
                # a flow left earlier is involved: nothing is demanded (as in the other groups), the call is not made
                counts["api_turns_left_flow_involved_not_run"] += 1
                continue
            res, conv2 = W.turn(carrier, conv, i)
            counts["states"] += 1
            counts["traces_validated_against_impl"] += 1
            counts["api_calls"] += 1
            counts["max_api_calls_in_a_conversation"] = max(counts["max_api_calls_in_a_conversation"], call)
            st2 = call if (first["leave"] or "").startswith("start:") else started
            cls = since_class(r, first, i, call, started)
            counts["api_turns_judged"] += 1
            counts["api_turns_" + cls.replace("-", "_")] += 1
            if first["cum"] & set(c14.NONTRIVIAL) or cls == "flow-followed-since-two-or-more-calls":
                counts["nontrivial_histories"] += 1
            for f in first["last"]:
                feat_counts[f] = feat_counts.get(f, 0) + 1
            script = [["user", e[1]] for e in ah2 if e[0] == "user"]
            bad = None
            if res[0] != "ok":
                bad = ("exception", f"expected the bot steps {steps}, generate_async raised {res[1]}")
            else:
                got = W.flow_steps(res[1])
                if got != steps:
                    bad = ("step", f"call {call}: expected the bot steps {steps} of the flow, the reply is {res[1]!r} "
                                   f"(bot steps of the program in it: {got})")
            if bad:
                counts["violating_histories"] += 1
                sig = f"api:{carrier}:{cls}:{bad[0]}"
                v = viols.get(sig)
                size = (c14.prog_size(P), len(script), len(W.src))
                if v is None or size < v["size"]:
                    viols[sig] = {
                        "signature": sig, "n": (v["n"] if v else 0) + 1, "size": size,
                        "what": f"program `{c14._oneline(c14.to_colang(P, order))}`, one generate_async call per user turn, "
                                f"conversation carried in the {'returned state object' if carrier == 'state' else 'message list'}, "
                                f"user turns {[e[1] for e in script]}: {bad[1]}",
                        "replay": {"family": "api", "carrier": carrier, "source": W.src, "program": P, "order": list(order),
                                   "script": script, "kind": bad[0], "detail": bad[1]},
                    }
                else:
                    v["n"] += 1
                continue
            if sample is None and call >= 3 and steps:
                sample = {"program": c14.to_colang(P, order), "carrier": carrier, "user_turns": [e[1] for e in script],
                          "reply_of_the_last_call": res[1], "reference_expected": steps}
            if not steps:
                counts["api_turns_without_flow_step_history_ends"] += 1
                continue
            if n_user + 1 >= opts["max_user"]:
                continue
            q.append((ah2, conv2, r2, n_user + 1, dev + cost, st2))
    counts["transitions"] = W.calls
    W.close()
    return {"idx": idx, "counts": counts, "features": feat_counts, "violations": list(viols.values()),
            "sample": sample, "size": c14.prog_size(P), "grammar": opts["grammar"]}


def replay(rp):
    c14 = _c14()
    c14.lib()
    P = rp["program"]
    order = tuple(rp.get("order") or ("f1", "s1", "s2", "f2"))
    W = ApiWorld(P, order)
    tab = c14._intent_table(P)
    carrier = rp["carrier"]
    print(W.src)
    print(f"one generate_async call per user turn; the conversation is carried in the "
          f"{'state object returned by the previous call' if carrier == 'state' else 'growing message list'}")
    conv = W.start(carrier)
    ahist = ()
    for n, (_, i) in enumerate(rp["script"], 1):
        ah2, first, r2, steps = ref_turn(P, ahist, i, tab)
        res, conv = W.turn(carrier, conv, i)
        extra = f"   [state holds {len(conv['events'])} events]" if carrier == "state" and isinstance(conv, dict) else ""
        if first["status"] != "strict":
            print(f"call {n}: user {i}: (not judged: a flow left earlier is involved) reply {res[1]!r}")
        else:
            got = W.flow_steps(res[1]) if res[0] == "ok" else res[1]
            mark = "" if got == steps else "      ^^^ differs"
            print(f"call {n}: user {i}: expected bot steps {steps}; reply {res[1]!r}{extra}{mark}")
        ahist = ah2
    W.close()
    print("recorded:", rp.get("detail"))
    return 0
