"""C04 - Colang 2 event matching follows the documented partial-match rules.

Part A (function level): every (pattern, payload) pair of the bounded value grammar through the real
`_compute_arguments_dict_matching_score` / `_compute_event_comparison_score`, compared with a boring
recursive reference matcher written from the statement.
Part B (interpreter level): for every depth<=1 pattern a program `match E(p=<literal>)` + marker, fed
with every payload (plus derived payloads, extra parameters, wrong event names) through
`run_to_completion`; plus action / flow instance references.
Part W: the same expected values written in every documented form (literal, $variable, "{$n}" interpolation with values
shorter / as long as / longer than the placeholder, "{{..}}", "$word" text) in lists / dicts / sets and one level deeper.
Part V: every depth<=1 pattern reaching the statement through a variable of another provenance (copy of a variable, member of
a dict / list variable, global, read before, inside a written list / dict), also after events that do not match.
Part T: "{$t}" for texts with quotes / backslashes / braces taken from an event.  Part R: parameters written on a flow
REFERENCE event (`$ref.Finished(return_value=..)`).  Part N: 1..10^4 unmentioned elements / parameters.
"""
from __future__ import annotations

import itertools
import re

from vf.engines import v2x
from vf.engines.v2x import sm

PROP = "C04"

SCALARS = ["a", "b", 1, 2]
REGEXES = ["a", "^b", "1"]


class Rx:
    """pattern leaf: regex(<src>)"""

    def __init__(self, src):
        self.src = src

    def __repr__(self):
        return f"Rx({self.src!r})"

    def __eq__(self, o):
        return isinstance(o, Rx) and o.src == self.src

    def __hash__(self):
        return hash(("rx", self.src))


def containers(items, keys=("k1", "k2"), with_sets=True, set_items=None):
    out = []
    out.append(("list", ()))
    for a in items:
        out.append(("list", (a,)))
    for a, b in itertools.product(items, repeat=2):
        out.append(("list", (a, b)))
    if with_sets:
        si = set_items if set_items is not None else items
        for a in si:
            out.append(("set", (a,)))
        for a, b in itertools.combinations(si, 2):
            out.append(("set", (a, b)))
    out.append(("dict", ()))
    for k in keys:
        for a in items:
            out.append(("dict", ((k, a),)))
    for a, b in itertools.product(items, repeat=2):
        out.append(("dict", ((keys[0], a), (keys[1], b))))
    return out


def values(depth, reduced=False):
    sc = ["a", 1] if reduced else SCALARS
    v0 = [("s", x) for x in sc]
    if depth == 0:
        return v0
    inner = values(depth - 1, reduced=True if depth > 1 else reduced)
    return v0 + containers(inner, set_items=v0)


def patterns(depth, reduced=False):
    sc = ["a", 1] if reduced else SCALARS
    rx = ["a"] if reduced else REGEXES
    p0 = [("s", x) for x in sc] + [("rx", r) for r in rx]
    if depth == 0:
        return p0
    inner = patterns(depth - 1, reduced=True if depth > 1 else reduced)
    return p0 + containers(inner, set_items=p0)


def _full(fn, depth):
    """unreduced grammar: inner values are the complete depth-1 sets"""
    if fn is values:
        v0 = [("s", x) for x in SCALARS]
        inner = values(1)
        return v0 + containers(inner, with_sets=False)
    p0 = [("s", x) for x in SCALARS] + [("rx", r) for r in REGEXES]
    inner = patterns(1)
    return p0 + containers(inner, with_sets=False)


def to_py(t, as_pattern):
    k = t[0]
    if k == "s":
        return t[1]
    if k == "rx":
        return re.compile(t[1])
    if k == "list":
        return [to_py(x, as_pattern) for x in t[1]]
    if k == "set":
        return {to_py(x, as_pattern) for x in t[1]}
    if k == "dict":
        return {kk: to_py(v, as_pattern) for kk, v in t[1]}
    raise ValueError(t)


def to_colang(t):
    k = t[0]
    if k == "s":
        return f'"{t[1]}"' if isinstance(t[1], str) else str(t[1])
    if k == "rx":
        return f'regex("{t[1]}")'
    if k == "list":
        return "[" + ", ".join(to_colang(x) for x in t[1]) + "]"
    if k == "set":
        return "{" + ", ".join(to_colang(x) for x in t[1]) + "}"
    if k == "dict":
        return "{" + ", ".join(f'"{kk}": {to_colang(v)}' for kk, v in t[1]) + "}"
    raise ValueError(t)


def size(t):
    if t[0] in ("s", "rx"):
        return 1
    if t[0] == "dict":
        return 1 + sum(size(v) for _, v in t[1])
    return 1 + sum(size(x) for x in t[1])


# ----------------------------------------------------------------------------- reference
def ref_match(p, v) -> bool:
    """The statement, literally."""
    pk, vk = p[0], v[0]
    if pk == "rx":
        return vk == "s" and re.search(p[1], str(v[1])) is not None
    if pk == "s":
        return vk == "s" and type(p[1]) is type(v[1]) and p[1] == v[1]
    if pk != vk:
        return False
    if pk == "list":
        if len(p[1]) > len(v[1]):
            return False
        i = 0
        for item in v[1]:
            if i < len(p[1]) and ref_match(p[1][i], item):
                i += 1
        return i == len(p[1])
    if pk == "set":
        if len(set(p[1])) > len(set(v[1])):
            return False
        return all(any(ref_match(e, m) for m in v[1]) for e in p[1])
    if pk == "dict":
        vd = dict(v[1])
        if len(p[1]) > len(vd):
            return False
        return all(k in vd and ref_match(e, vd[k]) for k, e in p[1])
    raise ValueError(p)


def classify(p, v):
    """Stable class of a (pattern, payload) disagreement, used as the finding signature."""
    def kinds(t, acc):
        acc.add(t[0])
        if t[0] == "dict":
            for _, x in t[1]:
                kinds(x, acc)
        elif t[0] in ("list", "set"):
            for x in t[1]:
                kinds(x, acc)
        return acc

    def set_larger(p, v):
        if p[0] == "set" and v[0] == "set" and len(set(p[1])) > len(set(v[1])):
            return True
        if p[0] == v[0] == "list":
            return any(set_larger(a, b) for a in p[1] for b in v[1])
        if p[0] == v[0] == "dict":
            vd = dict(v[1])
            return any(k in vd and set_larger(e, vd[k]) for k, e in p[1])
        if p[0] == v[0] == "set":
            return any(set_larger(a, b) for a in p[1] for b in v[1])
        return False

    if set_larger(p, v):
        return "set-pattern-larger-than-received-set"
    return "pattern:" + "+".join(sorted(kinds(p, set())))


# ----------------------------------------------------------------------------- part A
def part_a_chunk(args):
    pats, vals = args
    res = {"pairs": 0, "ref_matches": 0, "container_pairs": 0, "violations": []}
    for p in pats:
        pp = {"p": to_py(p, True)}
        for v in vals:
            pv = {"p": to_py(v, False)}
            res["pairs"] += 1
            exp = ref_match(p, v)
            if exp:
                res["ref_matches"] += 1
            if p[0] not in ("s", "rx") and p[0] == v[0]:
                res["container_pairs"] += 1
            for extra in (False, True):
                args_ = dict(pv)
                if extra:
                    args_["q"] = "zzz"  # a parameter the statement does not mention
                try:
                    score = sm._compute_arguments_dict_matching_score(args_, pp)
                    got = score > 0.0
                    err = None
                except Exception as e:  # noqa
                    got, err, score = None, repr(e), None
                if got != exp:
                    if len(res["violations"]) < 40:
                        res["violations"].append(
                            (classify(p, v), f"pattern {to_colang(p)} vs payload {to_colang(v)}"
                             f"{' (+unmentioned parameter)' if extra else ''}: expected "
                             f"{'match' if exp else 'no match'}, implementation "
                             f"{'raised ' + err if err else ('score %r' % score)}",
                             {"engine": "C04-A", "pattern": p, "payload": v, "extra": extra}))
                elif exp and extra:
                    base = sm._compute_arguments_dict_matching_score(pv, pp)
                    if not (0 < score < base):
                        res["violations"].append(
                            ("unmentioned-parameter-not-less-specific",
                             f"{to_colang(p)} vs {to_colang(v)}: score with an unmentioned parameter {score} !< {base}",
                             {"engine": "C04-A", "pattern": p, "payload": v, "extra": True}))
    return res


# ----------------------------------------------------------------------------- part B
def program_for(p, via_variable=False):
    if via_variable:
        # the same pattern taken from a flow variable (the evaluator wraps containers from variables)
        return f"flow main\n  $pat = {to_colang(p)}\n  match E(p=$pat)\n  send Marker()\n  match Never()\n"
    return f"flow main\n  match E(p={to_colang(p)})\n  send Marker()\n  match Never()\n"


def derived(p):
    """payloads derived from the pattern: an instance, + add / drop / reorder / alter one element"""
    def inst(t):
        if t[0] == "rx":
            return ("s", {"a": "xay", "^b": "bz", "1": 1}.get(t[1], t[1]))
        if t[0] == "s":
            return t
        if t[0] == "dict":
            return ("dict", tuple((k, inst(x)) for k, x in t[1]))
        return (t[0], tuple(inst(x) for x in t[1]))

    base = inst(p)
    out = [base]
    if base[0] in ("list", "set"):
        items = list(base[1])
        for extra in (("s", "zz"), ("s", 9)):
            out.append((base[0], tuple(items + [extra])))
            if base[0] == "list":
                out.append(("list", tuple([extra] + items)))
                if len(items) >= 1:
                    out.append(("list", tuple(items[:1] + [extra] + items[1:])))
        for i in range(len(items)):
            out.append((base[0], tuple(items[:i] + items[i + 1:])))
            out.append((base[0], tuple(items[:i] + [("s", "zz")] + items[i + 1:])))
        if base[0] == "list" and len(items) == 2:
            out.append(("list", (items[1], items[0])))
    if base[0] == "dict":
        items = list(base[1])
        out.append(("dict", tuple(items + [("k9", ("s", "zz"))])))
        for i in range(len(items)):
            out.append(("dict", tuple(items[:i] + items[i + 1:])))
            out.append(("dict", tuple(items[:i] + [(items[i][0], ("s", "zz"))] + items[i + 1:])))
    # dedupe, drop sets with unhashable / duplicate members
    res, seen = [], set()
    for v in out:
        if v[0] == "set" and len(set(v[1])) != len(v[1]):
            continue
        if repr(v) not in seen:
            seen.add(repr(v))
            res.append(v)
    return res


def part_b_task(args):
    p, vals = args[0], args[1]
    via_variable = len(args) > 2 and args[2]
    res = {"programs": 1, "steps": 0, "markers": 0, "violations": [], "derived": 0}
    src = program_for(p, via_variable)
    try:
        base = v2x.init_state(src)
    except Exception as e:
        res["violations"].append(("pattern-literal-rejected", f"{to_colang(p)}: {e!r}", {"engine": "C04-B", "source": src}))
        return res
    conc = v2x.resolve_event(base, ("start_main",))
    v2x.step(base, conc, [], v2x.UIDS.n)
    n0 = v2x.UIDS.n
    der = derived(p)
    res["derived"] = len(der)
    cases = [(v, "E", False) for v in vals] + [(v, "E", True) for v in der] + [(v, "E2", False) for v in der[:1]]
    for v, evname, extra in cases:
        st = v2x.copy_state(base)
        ev = {"type": evname, "p": to_py(v, False)}
        if extra:
            ev["q"] = [1, 2]
            ev["r"] = "unmentioned"
        try:
            v2x.step(st, ev, [], n0)
            got = any(e["type"] == "Marker" for e in st.outgoing_events)
            err = None
        except Exception as e:  # noqa
            got, err = None, repr(e)
        res["steps"] += 1
        exp = ref_match(p, v) and evname == "E"
        if exp:
            res["markers"] += 1
        if got != exp:
            if len(res["violations"]) < 20:
                res["violations"].append(
                    ((classify(p, v) + (":pattern-from-variable" if via_variable else "")) if evname == "E" else "wrong-event-name-matched",
                     f"`match E(p={to_colang(p)})` on {evname}(p={to_colang(v)}{', q=.., r=..' if extra else ''}): expected "
                     f"{'advance' if exp else 'no advance'}, " + (f"raised {err}" if err else f"advanced={got}"),
                     {"engine": "C04-B", "source": src, "event": {"type": evname, "p": v, "extra": extra}}))
    return res


REF_PROGRAMS = {
    "action-ref": (
        "flow main\n  start Act1Action() as $a\n  start Act1Action() as $b\n  match ${W}.Finished()\n  send Marker()\n  match Never()\n",
        2,
    ),
    "action-ref-started": (
        "flow main\n  start Act1Action() as $a\n  start Act1Action() as $b\n  match ${W}.Started()\n  send Marker()\n  match Never()\n",
        2,
    ),
    # a bare action event statement (no reference object): the instance is named by the written parameter action_uid
    # (docs: working-with-actions, `match UtteranceBotActionFinished(action_uid=$event_ref.action_uid)`)
    "bare-action-event-by-uid": (
        "flow main\n  start Act1Action() as $a\n  start Act1Action() as $b\n  match Act1ActionFinished(action_uid=${W}.uid)\n  send Marker()\n  match Never()\n",
        2,
    ),
    "bare-action-event-by-uid-started": (
        "flow main\n  start Act1Action() as $a\n  start Act1Action() as $b\n  match Act1ActionStarted(action_uid=${W}.uid)\n  send Marker()\n  match Never()\n",
        2,
    ),
    "flow-ref": (
        "flow c $n\n  match E(n=$n)\n\nflow main\n  start c 1 as $a\n  start c 2 as $b\n  match ${W}.Finished()\n  send Marker()\n  match Never()\n",
        0,
    ),
    "flow-ref-failed": (
        "flow c $n\n  match E(n=$n)\n  abort\n\nflow main\n  start c 1 as $a\n  start c 2 as $b\n  match ${W}.Failed()\n  send Marker()\n  match Never()\n",
        0,
    ),
}


ACTION_PROGRESS = {
    "ref-finished-after-update": "flow main\n  start CountAction(count=3) as $a\n  match $a.Finished()\n  send Marker()\n  match Never()\n",
    "ctor-finished-after-update": "flow main\n  start CountAction(count=3)\n  match CountAction(count=3).Finished()\n  send Marker()\n  match Never()\n",
    "ctor-other-args-no-match": "flow main\n  start CountAction(count=3)\n  match CountAction(count=4).Finished()\n  send Marker()\n  match Never()\n",
}


def part_progress(_):
    """Started / Updated events of the same instance may carry parameters named like the start
    parameters; the statement's parameters of `X(args).Finished()` refer to the *start* arguments."""
    res = {"progress_cases": 0, "violations": []}
    for name, src in ACTION_PROGRESS.items():
        for pre in ([], [("Started", {"count": 3})], [("Started", {"count": 2})], [("Updated", {"count": 2})],
                    [("Started", {}), ("Updated", {"count": 1}), ("Updated", {"count": 0})]):
            st = v2x.init_state(src)
            v2x.step(st, v2x.resolve_event(st, ("start_main",)), [], v2x.UIDS.n)
            pend = v2x.pending_actions(st)
            if len(pend) != 1:
                res["violations"].append((f"harness:action-progress:{name}", f"{len(pend)} pending actions", {"engine": "C04-ref", "source": src}))
                continue
            uid = pend[0].uid
            for kind, args in pre:
                v2x.step(st, dict({"type": f"CountAction{kind}", "action_uid": uid}, **args), [], v2x.UIDS.n)
            ev = {"type": "CountActionFinished", "action_uid": uid, "is_success": True}
            v2x.step(st, ev, [], v2x.UIDS.n)
            got = any(e["type"] == "Marker" for e in st.outgoing_events)
            exp = name != "ctor-other-args-no-match"
            res["progress_cases"] += 1
            if got != exp:
                res["violations"].append((f"action-event-after-progress-events:{name}",
                                          f"{name}: progress events {pre} then Finished of the same instance: expected advance={exp}, got {got}",
                                          {"engine": "C04-ref", "source": src, "event": ev, "pre": pre}))
    return res


def part_ref(_):
    """a statement that refers to a specific action / flow instance matches only that instance's events"""
    res = {"ref_cases": 0, "violations": []}
    for name, (tmpl, n_actions) in REF_PROGRAMS.items():
        for which, idx in (("a", 0), ("b", 1)):
            src = tmpl.replace("${W}", f"${which}")
            base = v2x.init_state(src)
            v2x.step(base, v2x.resolve_event(base, ("start_main",)), [], v2x.UIDS.n)
            n0 = v2x.UIDS.n
            if n_actions:
                kind = "Started" if "Started" in src else "Finished"
                pend = v2x.pending_actions(base)
                assert len(pend) == 2, (name, len(pend))
                feeds = [(f"own:{k}", {"type": f"Act1Action{kind}", "action_uid": pend[k].uid}, k == idx) for k in range(2)]
                feeds.append(("foreign-uid", {"type": f"Act1Action{kind}", "action_uid": "ffffffff-0000-4000-8000-000000000001"}, False))
                feeds.append(("no-uid", {"type": f"Act1Action{kind}"}, False))
            else:
                feeds = [(f"n={k + 1}", {"type": "E", "n": k + 1}, k == idx) for k in range(2)]
                feeds.append(("n=3", {"type": "E", "n": 3}, False))
            for label, ev, exp in feeds:
                st = v2x.copy_state(base)
                v2x.step(st, ev, [], n0)
                got = any(e["type"] == "Marker" for e in st.outgoing_events)
                res["ref_cases"] += 1
                if got != exp:
                    res["violations"].append(
                        (f"instance-reference:{name}",
                         f"{name}: `match ${which}...` fed with event of {label}: expected advance={exp}, got {got}",
                         {"engine": "C04-ref", "source": src, "event": ev}))
    return res



def part_event_action_ref(_):
    """`match X() as $ev` on an event of an action the state does not know (a user / external action), then
    `match $ev.action.Finished()`: the statement names the Finished event of THAT action instance, whatever event of
    the action `$ev` was captured from (Started, an `<Parameter>Updated` event, ...)"""
    res = {"event_action_ref_cases": 0, "violations": []}
    captures = {"Started": ("UtteranceUserAction.Started()", {"type": "UtteranceUserActionStarted"}),
                "TranscriptUpdated": ("UtteranceUserAction.TranscriptUpdated()", {"type": "UtteranceUserActionTranscriptUpdated", "interim_transcript": "hel"}),
                "bare-TranscriptUpdated": ("UtteranceUserActionTranscriptUpdated()", {"type": "UtteranceUserActionTranscriptUpdated", "interim_transcript": "hel"}),
                "custom-action-progress": ("CameraSensorAction.FrameCountUpdated()", {"type": "CameraSensorActionFrameCountUpdated", "frame_count": 3})}
    for cname, (stmt, first) in captures.items():
        action = first["type"][:first["type"].index("Action") + len("Action")]
        src = f"flow main\n  match {stmt} as $ev\n  send Captured()\n  match $ev.action.Finished()\n  send Marker()\n  match Never()\n"
        for label, uid2, exp in (("same-instance", "user-action-1", True), ("other-instance", "user-action-2", False)):
            info = {"engine": "C04-ref", "source": src, "capture": cname}
            try:
                st = v2x.init_state(src)
                v2x.step(st, v2x.resolve_event(st, ("start_main",)), [], v2x.UIDS.n)
                v2x.step(st, dict(first, action_uid="user-action-1"), [], v2x.UIDS.n)
                if not any(e["type"] == "Captured" for e in st.outgoing_events):
                    res["violations"].append((f"event-action-reference:{cname}:capture-did-not-match", f"`match {stmt} as $ev` ignored {first}", info))
                    continue
                ev = {"type": action + "Finished", "action_uid": uid2, "is_success": True, "final_transcript": "hello"}
                v2x.step(st, ev, [], v2x.UIDS.n)
                got = any(e["type"] == "Marker" for e in st.outgoing_events)
            except Exception as e:
                res["violations"].append((f"event-action-reference:{cname}:raised", repr(e), info))
                continue
            res["event_action_ref_cases"] += 1
            if got != exp:
                res["violations"].append((f"event-action-reference:{cname}:{label}",
                                          f"`match {stmt} as $ev` captured from action user-action-1, then `match $ev.action.Finished()` fed with "
                                          f"{ev['type']} of {uid2}: expected advance={exp}, got {got}", dict(info, event=ev)))
    return res


# one `match $r.<Event>()` statement reached several times, `$r` referring to another action (of another type) / another
# flow each time: a generic helper flow used for two references, and a loop that starts another action per round
REUSED_STATEMENT = {
    "helper-flow-two-action-types": (
        "flow wait for $r\n  match $r.Finished()\n\nflow main\n  start Act1Action() as $a\n  start Act2Action() as $b\n"
        "  await wait for $a\n  send Progress(step=1)\n  await wait for $b\n  send Progress(step=2)\n  match Never()\n",
        ["Act1Action", "Act2Action"]),
    "loop-two-action-types": (
        "flow main\n  $i = 0\n  while $i < 2\n    if $i == 0\n      start Act1Action() as $r\n    else\n      start Act2Action() as $r\n"
        "    match $r.Finished()\n    $i = $i + 1\n    send Progress(step=$i)\n  match Never()\n",
        ["Act1Action", "Act2Action"]),
    "loop-same-type-two-instances": (
        "flow main\n  $i = 0\n  while $i < 2\n    start Act1Action() as $r\n    match $r.Finished()\n    $i = $i + 1\n    send Progress(step=$i)\n  match Never()\n",
        ["Act1Action", "Act1Action"]),
    "helper-flow-started-events": (
        "flow wait for $r\n  match $r.Started()\n\nflow main\n  start Act1Action() as $a\n  start Act2Action() as $b\n"
        "  await wait for $a\n  send Progress(step=1)\n  await wait for $b\n  send Progress(step=2)\n  match Never()\n",
        ["Act1Action", "Act2Action"]),
}


def part_reused_statement(_):
    res = {"reused_statement_cases": 0, "violations": []}
    for name, (src, order) in REUSED_STATEMENT.items():
        kind = "Started" if "Started" in src else "Finished"
        try:
            st = v2x.init_state(src)
            v2x.step(st, v2x.resolve_event(st, ("start_main",)), [], v2x.UIDS.n)
            steps = []
            for k, act_name in enumerate(order, start=1):
                pend = [a for a in v2x.pending_actions(st) if a.name == act_name and (kind == "Finished" or a.status.name == "STARTING")]
                if not pend:
                    res["violations"].append((f"reused-statement:{name}:round-{k}", f"no pending {act_name} in round {k} (the statement did not advance before)", {"engine": "C04-ref", "source": src}))
                    break
                # an event of the OTHER type / a foreign instance must not advance the statement ...
                other = "Act2Action" if act_name == "Act1Action" else "Act1Action"
                stx = v2x.copy_state(st)
                v2x.step(stx, {"type": f"{other}{kind}", "action_uid": "ffffffff-0000-4000-8000-000000000001"}, [], v2x.UIDS.n)
                if any(e["type"] == "Progress" for e in stx.outgoing_events):
                    res["violations"].append((f"reused-statement:{name}:foreign-event-advanced", f"round {k}: a {other}{kind} event of a foreign instance advanced `match $r.{kind}()`", {"engine": "C04-ref", "source": src}))
                # ... the event of the referenced instance must
                v2x.step(st, {"type": f"{act_name}{kind}", "action_uid": pend[0].uid}, [], v2x.UIDS.n)
                got = [e.get("step") for e in st.outgoing_events if e["type"] == "Progress"]
                res["reused_statement_cases"] += 1
                if got != [k]:
                    res["violations"].append((f"reused-statement:{name}:not-advanced-in-round-{k}",
                                              f"`match $r.{kind}()` reached for the {k}. time with $r = {act_name}: its {kind} event gave Progress {got}, expected [{k}]",
                                              {"engine": "C04-ref", "source": src}))
                    break
        except Exception as e:
            res["violations"].append((f"reused-statement:{name}:raised", repr(e), {"engine": "C04-ref", "source": src}))
    return res


def part_flow_params(_):
    """`match f.Finished()` / `match f.Started()` / `match f(...).Finished()` on a flow NAME: parameters of the flow
    that the statement does not mention never prevent the match; mentioned ones must be equal"""
    res = {"flow_param_cases": 0, "violations": []}
    sigs = [("$p", None), ("$p=1", 1), ("$p $q=2", None)]
    starts = {"$p": ["start f 1", "start f $p=2", 'start f "x"'], "$p=1": ["start f", "start f 2", "start f $p=1"],
              "$p $q=2": ["start f 1", "start f 1 3", "start f $q=5 $p=1"]}
    bound = {"start f 1": {"p": 1}, "start f $p=2": {"p": 2}, 'start f "x"': {"p": "x"}, "start f": {"p": 1}, "start f 2": {"p": 2},
             "start f $p=1": {"p": 1}, "start f 1 3": {"p": 1, "q": 3}, "start f $q=5 $p=1": {"p": 1, "q": 5}}
    for sig, _d in sigs:
        for start in starts[sig]:
            b = dict(bound[start])
            if sig == "$p $q=2" and "q" not in b:
                b["q"] = 2
            matches = [("f.Finished()", True), ("f.Started()", True), ("FlowFinished(flow_id=\"f\")", True)]
            for k, v in b.items():
                matches.append((f"f.Finished({k}={v!r})".replace("'", '"'), True))
                other = 99 if v != 99 else 98
                matches.append((f"f.Finished({k}={other})", False))
                # the flow parameter written in the flow part of the statement, by name and - the first one - by position
                matches.append((f"f({k}={v!r}).Finished()".replace("'", '"'), True))
                matches.append((f"f({k}={other}).Finished()", False))
                if k == "p":
                    matches.append((f"f({v!r}).Finished()".replace("'", '"'), True))
                    matches.append((f"f({other}).Finished()", False))
            for m, exp in matches:
                ev = "Started" if ".Started" in m else "Finished"
                src = (f"flow f {sig}\n  match Go()\n\n"
                       f"flow watcher\n  match {m}\n  send Marker()\n  match Never()\n\n"
                       f"flow main\n  start watcher\n  {start}\n  match Never()\n")
                try:
                    st = v2x.init_state(src)
                    v2x.step(st, v2x.resolve_event(st, ("start_main",)), [], v2x.UIDS.n)
                    got = any(e["type"] == "Marker" for e in st.outgoing_events)
                    if ev == "Finished":
                        if got:
                            res["violations"].append(("flow-name-event:matched-before-the-flow-finished", f"`match {m}` advanced at start", {"engine": "C04-flowparam", "source": src}))
                        v2x.step(st, {"type": "Go"}, [], v2x.UIDS.n)
                        got = any(e["type"] == "Marker" for e in st.outgoing_events)
                except Exception as e:
                    res["violations"].append(("flow-name-event:raised", f"`flow f {sig}`, `{start}`, `match {m}`: {e!r}", {"engine": "C04-flowparam", "source": src}))
                    continue
                res["flow_param_cases"] += 1
                if got != exp:
                    kind = "unmentioned-flow-parameter-prevents-match" if exp else "mentioned-flow-parameter-ignored"
                    if m.startswith("f(") and "=" not in m:
                        kind = "flow-parameter-written-by-position:" + ("no-advance" if exp else "advance")
                    res["violations"].append((f"flow-name-event:{kind}",
                                              f"`flow f {sig}` started by `{start}` (bound {b}): `match {m}` expected advance={exp}, got {got}",
                                              {"engine": "C04-flowparam", "source": src}))
    seen, uniq = set(), []
    for v in res["violations"]:
        if v[0] not in seen:
            seen.add(v[0])
            uniq.append(v)
    res["violations"] = uniq
    return res



def part_flow_events(_):
    """parameters WRITTEN in a statement on a flow event count like any other: the return value in
    `match f.Finished(return_value=..)` / `match FlowFinished(flow_id=.., return_value=..)`, a flow parameter in
    `match StartFlow(flow_id=.., p=..)` / `match FlowStarted(flow_id=.., p=..)`"""
    res = {"flow_event_cases": 0, "violations": []}
    cases = []
    for rv in (6, "six", [1, 2]):
        lit = repr(rv).replace("'", '"')
        other = '"no"' if rv != "no" else '"yes"'
        for stmt, exp in ((f"f.Finished(return_value={lit})", True), (f"f.Finished(return_value={other})", False), (f"f.Finished(return_value=5)", False),
                          (f"FlowFinished(flow_id=\"f\", return_value={lit})", True), (f"FlowFinished(flow_id=\"f\", return_value=5)", False),
                          (f"FlowFinished(return_value={lit})", True), (f"FlowFinished(return_value=5)", False),
                          ("FlowFinished(flow_id=\"g\")", False), ("f.Finished()", True)):
            src = (f"flow f $p\n  match Go()\n  return {lit}\n\n@loop(\"w\")\nflow watcher\n  match {stmt}\n  send Marker()\n  match Never()\n\n"
                   "flow main\n  start watcher\n  start f 1\n  match Never()\n")
            cases.append((src, stmt, exp, "Go", f"`flow f` returns {lit}"))
    for stmt, exp in (("StartFlow(flow_id=\"f\", p=1)", True), ("StartFlow(flow_id=\"f\", p=2)", False), ("StartFlow(flow_id=\"f\", p=regex(\"^1$\"))", True),
                      ("StartFlow(flow_id=\"f\", p=regex(\"^2$\"))", False), ("StartFlow(flow_id=\"f\")", True), ("StartFlow(flow_id=\"g\", p=1)", False),
                      ("StartFlow(p=1)", True), ("StartFlow(p=2)", False),
                      ("FlowStarted(flow_id=\"f\", p=1)", True), ("FlowStarted(flow_id=\"f\", p=2)", False), ("f.Started(p=1)", True), ("f.Started(p=2)", False)):
        src = (f"flow f $p\n  match Never()\n\n@loop(\"w\")\nflow watcher\n  match {stmt}\n  send Marker()\n  match Never()\n\n"
               "flow main\n  start watcher\n  match Go()\n  start f $p=1\n  match Never()\n")
        cases.append((src, stmt, exp, "Go", "`start f $p=1`"))
    for src, stmt, exp, trigger, what in cases:
        try:
            st = v2x.init_state(src)
            v2x.step(st, v2x.resolve_event(st, ("start_main",)), [], v2x.UIDS.n)
            early = any(e["type"] == "Marker" for e in st.outgoing_events)
            v2x.step(st, {"type": trigger}, [], v2x.UIDS.n)
            got = early or any(e["type"] == "Marker" for e in st.outgoing_events)
        except Exception as e:
            res["violations"].append(("flow-event:raised", f"`match {stmt}` ({what}): {e!r}", {"engine": "C04-flowevent", "source": src}))
            continue
        res["flow_event_cases"] += 1
        if got != exp:
            ev = stmt.split("(")[0].split(".")[-1]
            kind = ("written-parameter-ignored:" if not exp else "matching-event-missed:") + ev
            res["violations"].append((f"flow-event:{kind}", f"{what}: `match {stmt}` expected advance={exp}, got {got}", {"engine": "C04-flowevent", "source": src}))
    seen, uniq = set(), []
    for v in res["violations"]:
        if v[0] not in seen:
            seen.add(v[0])
            uniq.append(v)
    res["violations"] = uniq
    return res


def part_sent_values(_):
    """the received value was built by another flow from a variable (`$d = <literal>` / `send E(p=$d)`) and comes back as
    an input event the way the event-processing API feeds emitted events back: the match decision must be the one for the
    same value written as a literal"""
    res = {"sent_value_cases": 0, "violations": []}
    pats = [t for t in patterns(1, True)][:40]
    vals = [v for v in values(1, True) if isinstance(v, tuple) and v[0] in ("dict", "list", "set")][:30]
    v2x.FEED_BACK[0] = True
    try:
        for p_ in pats:
            for v_ in vals:
                exp = ref_match(p_, v_)
                for how in ("variable", "literal"):
                    sender = (f"  $d = {to_colang(v_)}\n  send E(p=$d)\n" if how == "variable" else f"  send E(p={to_colang(v_)})\n")
                    src = (f"@loop(\"w\")\nflow watcher\n  match E(p={to_colang(p_)})\n  send Marker()\n  match Never()\n\n"
                           f"flow sender\n  match Go()\n{sender}  match Never()\n\nflow main\n  start watcher\n  start sender\n  match Never()\n")
                    try:
                        st = v2x.init_state(src)
                        v2x.step(st, v2x.resolve_event(st, ("start_main",)), [], v2x.UIDS.n)
                        v2x.step(st, {"type": "Go"}, [], v2x.UIDS.n)
                        got = any(e["type"] == "Marker" for e in st.outgoing_events)
                    except Exception as e:
                        res["violations"].append(("sent-value:raised", f"{to_colang(p_)} vs {to_colang(v_)} ({how}): {e!r}", {"engine": "C04-sent", "source": src}))
                        continue
                    res["sent_value_cases"] += 1
                    if got != exp:
                        res["violations"].append((f"sent-value:{classify(p_, v_)}:value-sent-from-a-{how}",
                                                  f"`match E(p={to_colang(p_)})`, value {to_colang(v_)} sent by another flow from a {how}: expected advance={exp}, got {got}",
                                                  {"engine": "C04-sent", "source": src}))
    finally:
        v2x.FEED_BACK[0] = False
    seen, uniq = set(), []
    for v in res["violations"]:
        if v[0] not in seen:
            seen.add(v[0])
            uniq.append(v)
    res["violations"] = uniq
    return res


RESERVED_NAMES = ["return_value", "activated", "source_flow_instance_uid"]


def part_reserved(_):
    """parameter names / dict keys that the interpreter uses itself for flow events are ordinary names in a user event"""
    res = {"reserved_name_cases": 0, "violations": []}
    for name in RESERVED_NAMES:
        cases = [
            ("nested", f'Event1(param={{"{name}": 1}})', [({"param": {name: 1}}, True), ({"param": {name: 2}}, False), ({"param": {"x": 2}}, False),
                                                           ({"param": {name: 1, "x": 2}}, True), ({"param": {}}, False)]),
            ("nested-in-list", f'Event1(param=[{{"{name}": 1}}])', [({"param": [{name: 1}]}, True), ({"param": [{name: 2}]}, False), ({"param": [{"x": 1}]}, False)]),
            ("top-level", f"Event1({name}=1)", [({name: 1}, True), ({name: 2}, False), ({"x": 1}, False), ({name: 1, "x": 3}, True)]),
            ("top-level-with-other", f"Event1({name}=1, a=1)", [({name: 1, "a": 1}, True), ({name: 2, "a": 1}, False), ({"a": 1, "b": 2}, False)]),
        ]
        for where, pat, feeds in cases:
            src = f"flow main\n  match {pat}\n  send Marker()\n  match Never()\n"
            try:
                base = v2x.init_state(src)
                v2x.step(base, v2x.resolve_event(base, ("start_main",)), [], v2x.UIDS.n)
            except Exception as e:
                res["violations"].append((f"reserved-name:{where}:program-raised", f"`match {pat}`: {e!r}", {"engine": "C04-ref", "source": src, "event": {"type": "Event1"}}))
                continue
            n0 = v2x.UIDS.n
            for payload, exp in feeds:
                st = v2x.copy_state(base)
                ev = dict(payload, type="Event1")
                try:
                    v2x.step(st, ev, [], n0)
                    got = any(e["type"] == "Marker" for e in st.outgoing_events)
                except Exception as e:
                    res["violations"].append((f"reserved-name:{where}:raised", f"`match {pat}` fed {payload}: {e!r}", {"engine": "C04-ref", "source": src, "event": ev}))
                    continue
                res["reserved_name_cases"] += 1
                if got != exp:
                    kind = "written-parameter-ignored" if got else "equal-value-not-matched"
                    res["violations"].append((f"reserved-name:{where}:{kind}",
                                              f"`match {pat}` fed Event1{payload}: expected advance={exp}, got {got} (the name `{name}` is skipped by the matcher)",
                                              {"engine": "C04-ref", "source": src, "event": ev}))
    seen, uniq = set(), []
    for v in res["violations"]:
        if v[0] not in seen:
            seen.add(v[0])
            uniq.append(v)
    res["violations"] = uniq
    return res


def part_priority(_):
    """whether a match advances does not depend on the priority the flow declared (also the legal bounds 0.0 and 1.0)"""
    res = {"priority_cases": 0, "violations": []}
    pats = [("E()", lambda e: True), ('E(p="a")', lambda e: e.get("p") == "a"), ('E(p={"k": 1})', lambda e: isinstance(e.get("p"), dict) and e["p"].get("k") == 1),
            ('E(p=["a"])', lambda e: isinstance(e.get("p"), list) and "a" in e["p"])]
    feeds = [{}, {"p": "a"}, {"p": "b"}, {"p": {"k": 1, "j": 2}}, {"p": {"k": 2}}, {"p": ["x", "a"]}, {"p": []}, {"p": "a", "q": 1}]
    for prio in ("0.0", "0.5", "1.0", "$zero"):
        for pat, ref in pats:
            src = (f"flow main\n  $zero = 0.0\n  priority {prio}\n  match {pat}\n  send Marker()\n  match Never()\n")
            try:
                base = v2x.init_state(src)
                v2x.step(base, v2x.resolve_event(base, ("start_main",)), [], v2x.UIDS.n)
            except Exception as e:
                res["violations"].append(("priority:program-raised", f"priority {prio}, match {pat}: {e!r}", {"engine": "C04-ref", "source": src, "event": {"type": "E"}}))
                continue
            n0 = v2x.UIDS.n
            for payload in feeds:
                st = v2x.copy_state(base)
                ev = dict(payload, type="E")
                v2x.step(st, ev, [], n0)
                got = any(e["type"] == "Marker" for e in st.outgoing_events)
                res["priority_cases"] += 1
                if got != bool(ref(payload)):
                    res["violations"].append((f"priority:match-decision-depends-on-priority:{'zero' if prio in ('0.0', '$zero') else prio}",
                                              f"`priority {prio}` then `match {pat}` fed E{payload}: expected advance={bool(ref(payload))}, got {got}",
                                              {"engine": "C04-ref", "source": src, "event": ev}))
    seen, uniq = set(), []
    for v in res["violations"]:
        if v[0] not in seen:
            seen.add(v[0])
            uniq.append(v)
    res["violations"] = uniq
    return res


# ----------------------------------------------------------------------------- part W: written forms of a pattern
# The SAME expected value can be written in several documented ways: a literal, a `$variable`, a string with an
# interpolated expression ("{$n}" - the variable values are shorter than / as long as / longer than the placeholder),
# a string with escaped braces ("{{id}}" is the text {id}), a string that contains a `$word`.  The statement denotes
# the resolved value, whichever way its items are written, so the decision must be the reference's for that value.
FORM_VARS = [("n1", '"a"'), ("n5", '"abcde"'), ("n12", '"abcdefghijkl"'), ("i2", "2"), ("sb", '"b"')]
LEAF_FORMS = [
    ("lit-str", '"a"', ("s", "a")),
    ("lit-int", "1", ("s", 1)),
    ("var-str", "$sb", ("s", "b")),
    ("var-int", "$i2", ("s", 2)),
    ("interp-shorter", '"{$n1}"', ("s", "a")),
    ("interp-same-length", '"{$n5}"', ("s", "abcde")),
    ("interp-longer", '"{$n12}"', ("s", "abcdefghijkl")),
    ("interp-int", '"{$i2}"', ("s", "2")),
    ("interp-embedded", '"x{$n1}y"', ("s", "xay")),
    ("escaped-braces", '"{{id}}"', ("s", "{id}")),
    ("dollar-text", '"$USD"', ("s", "$USD")),
    ("regex", 'regex("a")', ("rx", "a")),
]
_FORM = {n: (txt, val) for n, txt, val in LEAF_FORMS}


def written_patterns(tier):
    """every leaf form alone, every list / dict of <= 2 and set of 2 leaf forms (ordered pairs), and the pairs one level
    deeper (`[{"k1": X}, Y]`, `{"k1": [X], "k2": Y}`); a tree of ("w", <form name>) leaves"""
    leaves = [("w", n) for n, _t, _v in LEAF_FORMS]
    out = list(leaves)
    for c in containers(leaves, set_items=leaves):
        if c[0] == "set" and len({repr(w_resolve(x)) for x in c[1]}) != len(c[1]):
            continue  # two ways of writing the same member: the set has one member
        out.append(c)
    for a, b in itertools.product(leaves, repeat=2):
        out.append(("list", (("dict", (("k1", a),)), b)))
        out.append(("dict", (("k1", ("list", (a,))), ("k2", b))))
    return out


def w_resolve(t):
    if t[0] == "w":
        return _FORM[t[1]][1]
    if t[0] == "dict":
        return ("dict", tuple((k, w_resolve(x)) for k, x in t[1]))
    return (t[0], tuple(w_resolve(x) for x in t[1]))


def w_colang(t):
    if t[0] == "w":
        return _FORM[t[1]][0]
    if t[0] == "list":
        return "[" + ", ".join(w_colang(x) for x in t[1]) + "]"
    if t[0] == "set":
        return "{" + ", ".join(w_colang(x) for x in t[1]) + "}"
    return "{" + ", ".join(f'"{kk}": {w_colang(v)}' for kk, v in t[1]) + "}"


def w_forms(t, acc=None):
    acc = [] if acc is None else acc
    if t[0] == "w":
        acc.append(t[1])
    elif t[0] == "dict":
        for _, x in t[1]:
            w_forms(x, acc)
    else:
        for x in t[1]:
            w_forms(x, acc)
    return acc


def w_program(t):
    return ("flow main\n" + "".join(f"  ${n} = {lit}\n" for n, lit in FORM_VARS)
            + f"  match E(p={w_colang(t)})\n  send Marker()\n  match Never()\n")


def _feed_cases(base, n0, p, cases, res, sig_of, what_of, info, noise=None):
    """feed every (payload, event name, extra parameters) to a copy of the waiting state; compare with the reference"""
    for v, evname, extra in cases:
        st = v2x.copy_state(base)
        ev = {"type": evname, "p": to_py(v, False)}
        if extra:
            ev["q"] = [1, 2]
            ev["r"] = "unmentioned"
        try:
            pre_adv = False
            if noise is not None:
                # the statement's expressions are evaluated for every candidate event: events that do not match come first
                for nv in noise:
                    v2x.step(st, {"type": "E", "p": to_py(nv, False)}, [], n0)
                    pre_adv = pre_adv or any(e["type"] == "Marker" for e in st.outgoing_events)
                    res["steps"] += 1
            v2x.step(st, ev, [], n0)
            got = pre_adv or any(e["type"] == "Marker" for e in st.outgoing_events)
            err = None
        except Exception as e:  # noqa
            got, err = None, repr(e)
        res["steps"] += 1
        exp = ref_match(p, v) and evname == "E"
        if noise is not None and any(ref_match(p, nv) for nv in noise):
            exp = True
        if exp:
            res["markers"] += 1
        if got != exp and len(res["violations"]) < 20:
            res["violations"].append(
                (sig_of(v, evname, got), what_of(v, evname, extra, exp, got, err),
                 dict(info, event={"type": evname, "p": v, "extra": extra}, noise=list(noise) if noise is not None else None)))


def part_w_task(t):
    res = {"programs": 1, "steps": 0, "markers": 0, "violations": [], "derived": 0}
    p = w_resolve(t)
    src = w_program(t)
    forms = w_forms(t)
    sig = "written-form:" + t[0].replace("w", "scalar") + ":" + "+".join(sorted(set(forms)))
    info = {"engine": "C04-B", "source": src}
    try:
        base = v2x.init_state(src)
        v2x.step(base, v2x.resolve_event(base, ("start_main",)), [], v2x.UIDS.n)
    except Exception as e:
        res["violations"].append((sig + ":program-raised", f"`match E(p={w_colang(t)})`: {e!r}", dict(info, event={"type": "E"})))
        return res
    n0 = v2x.UIDS.n
    der = derived(p)
    res["derived"] = len(der)
    vals = values(1) if size(p) <= 3 else []
    cases = [(v, "E", False) for v in vals] + [(v, "E", False) for v in der] + [(v, "E", True) for v in der] + [(v, "E2", False) for v in der[:1]]
    _feed_cases(base, n0, p, cases, res,
                lambda v, evname, got: (sig + (":no-advance" if not got else ":advance")) if evname == "E" else "wrong-event-name-matched",
                lambda v, evname, extra, exp, got, err: (
                    f"`match E(p={w_colang(t)})` (the value {to_colang(p)}; " + ", ".join(f"${n} = {lit}" for n, lit in FORM_VARS)
                    + f") on {evname}(p={to_colang(v)}{', q=.., r=..' if extra else ''}): expected {'advance' if exp else 'no advance'}, "
                    + (f"raised {err}" if err else f"advanced={got}")), info)
    return res


# ----------------------------------------------------------------------------- part V: where the pattern variable got its value from
PROVENANCES = ["copied-variable", "member-of-dict-variable", "member-of-nested-dict-variable", "item-of-list-variable", "member-written-in-the-statement",
               "copied-twice", "global-variable", "read-before-the-match", "inside-a-list-pattern", "inside-a-dict-pattern"]


def provenance_program(p, how):
    """(source, the pattern the statement denotes, payload wrapper for the patterns that contain the variable)"""
    src, den = _provenance_program(p, how)
    wrap = None
    if how == "inside-a-list-pattern":
        wrap = lambda v: ("list", (("s", "a"), v))  # noqa: E731
    if how == "inside-a-dict-pattern":
        wrap = lambda v: ("dict", (("k1", v), ("k2", ("s", 1))))  # noqa: E731
    return src, den, wrap


def _provenance_program(p, how):
    lit = to_colang(p)
    tail = "  send Marker()\n  match Never()\n"
    if how == "copied-variable":
        return f"flow main\n  $src = {lit}\n  $pat = $src\n  match E(p=$pat)\n" + tail, p
    if how == "copied-twice":
        return f"flow main\n  $src = {lit}\n  $mid = $src\n  $pat = $mid\n  match E(p=$pat)\n" + tail, p
    if how == "member-of-dict-variable":
        return f'flow main\n  $cfg = {{"m": {lit}, "name": "x"}}\n  $pat = $cfg.m\n  match E(p=$pat)\n' + tail, p
    if how == "member-of-nested-dict-variable":
        return f'flow main\n  $cfg = {{"inner": {{"m": {lit}}}, "name": "x"}}\n  $pat = $cfg.inner.m\n  match E(p=$pat)\n' + tail, p
    if how == "item-of-list-variable":
        return f"flow main\n  $cfg = [0, {lit}]\n  $pat = $cfg[1]\n  match E(p=$pat)\n" + tail, p
    if how == "member-written-in-the-statement":
        return f'flow main\n  $cfg = {{"m": {lit}, "name": "x"}}\n  match E(p=$cfg.m)\n' + tail, p
    if how == "global-variable":
        return f"flow main\n  global $pat\n  $src = {lit}\n  $pat = $src\n  match E(p=$pat)\n" + tail, p
    if how == "read-before-the-match":
        return f"flow main\n  $src = {lit}\n  $pat = $src\n  send Probe(v=$pat)\n  $n = len([$pat])\n  match E(p=$pat)\n" + tail, p
    if how == "inside-a-list-pattern":
        return f'flow main\n  $src = {lit}\n  $pat = $src\n  match E(p=["a", $pat])\n' + tail, ("list", (("s", "a"), p))
    if how == "inside-a-dict-pattern":
        return f'flow main\n  $src = {lit}\n  $pat = $src\n  match E(p={{"k1": $pat, "k2": 1}})\n' + tail, ("dict", (("k1", p), ("k2", ("s", 1))))
    raise ValueError(how)


def part_v_task(args):
    p0, how = args
    res = {"programs": 1, "steps": 0, "markers": 0, "violations": [], "derived": 0}
    src, p, wrap = provenance_program(p0, how)
    kind = p0[0] if p0[0] not in ("s", "rx") else "scalar"
    sig = f"pattern-variable:{how}:{kind}"
    info = {"engine": "C04-B", "source": src}
    try:
        base = v2x.init_state(src)
        v2x.step(base, v2x.resolve_event(base, ("start_main",)), [], v2x.UIDS.n)
        if any(e["type"] == "Marker" for e in base.outgoing_events):
            raise RuntimeError("advanced without an event")
    except Exception as e:
        res["violations"].append((sig + ":program-raised", f"{how}, pattern {to_colang(p0)}: {e!r}", dict(info, event={"type": "E"})))
        return res
    n0 = v2x.UIDS.n
    der = derived(p)
    res["derived"] = len(der)
    vals = [v for v in values(1) if v[0] == p[0]] if size(p) <= 3 else []
    cases = [(v, "E", False) for v in vals] + [(v, "E", False) for v in der] + [(v, "E", True) for v in der[:1]]
    if wrap is not None:
        # the variable is one member of the written pattern: every payload for the variable's pattern, in that place
        inner = [v for v in values(1) if v[0] == p0[0]] + derived(p0)
        cases += [(wrap(v), "E", False) for v in inner]
        res["derived"] += len(inner)

    def what(v, evname, extra, exp, got, err, tag=""):
        return (f"{how}: the statement denotes `match E(p={to_colang(p)})`{tag}; on {evname}(p={to_colang(v)}{', q=.., r=..' if extra else ''}) expected "
                f"{'advance' if exp else 'no advance'}, " + (f"raised {err}" if err else f"advanced={got}"))

    _feed_cases(base, n0, p, cases, res, lambda v, evname, got: sig + (":no-advance" if not got else ":advance"), what, info)
    # the same decisions after two candidate events that do not match (an empty container of the same kind, another scalar)
    noise = [v for v in (("s", "zz"), (p[0], ()) if p[0] in ("list", "dict") else ("s", 9)) if not ref_match(p, v)]
    _feed_cases(base, n0, p, [(v, "E", False) for v in der], res,
                lambda v, evname, got: sig + ":after-events-that-do-not-match" + (":no-advance" if not got else ":advance"),
                lambda v, evname, extra, exp, got, err: what(v, evname, extra, exp, got, err, f" after the events {[to_colang(x) for x in noise]}"), info, noise=noise)
    return res


# ----------------------------------------------------------------------------- part T: interpolated text
# `match Ev(text="{$t}")` denotes the string value of $t, whatever characters it has.  The text enters by an event
# (no literal has to be written for it): `match First() as $e` / `$t = $e.text`.
TEXTS = [("plain", "plain text"), ("single-quote", "it's"), ("double-quote", 'say "hi" now'), ("tab", "tab\there"), ("newline", "two\nlines"),
         ("braces", "a {x} b"), ("dollar-word", "pay $USD 5"), ("backslash", "C:\\new"), ("backslash-other", "a\\d+"), ("trailing-backslash", "a\\"),
         ("adjacent-double-quotes", 'say ""hi""'), ("adjacent-single-quotes", "''"), ("leading-quote", '"x'), ("hash", "# no comment")]
TEXT_PATTERNS = [("scalar", 'text="{$t}"', lambda t: t), ("variable", "text=$t", lambda t: t), ("embedded", 'text="<{$t}>"', lambda t: "<" + t + ">"),
                 ("in-list", 'text=["{$t}", 1]', lambda t: [t, 1]), ("in-dict", 'text={"k1": "{$t}"}', lambda t: {"k1": t})]


def part_text(_):
    import warnings
    warnings.filterwarnings("ignore", category=SyntaxWarning)  # python's remark about `\d` in an expression the evaluator built
    res = {"interpolated_text_cases": 0, "interpolated_text_advances": 0, "violations": []}
    for pname, pat, build in TEXT_PATTERNS:
        src = f"flow main\n  match First() as $e\n  $t = $e.text\n  send Captured()\n  match Ev({pat})\n  send Marker()\n  match Never()\n"
        for tname, text in TEXTS:
            for other_name, other in [(tname, text)] + [(n, t) for n, t in TEXTS[:3] if n != tname][:1]:
                exp = other == text
                info = {"engine": "C04-text", "source": src, "first": {"type": "First", "text": text}}
                ev = {"type": "Ev", "text": build(other)}
                try:
                    st = v2x.init_state(src)
                    v2x.step(st, v2x.resolve_event(st, ("start_main",)), [], v2x.UIDS.n)
                    v2x.step(st, {"type": "First", "text": text}, [], v2x.UIDS.n)
                    if not any(e["type"] == "Captured" for e in st.outgoing_events):
                        res["violations"].append((f"harness:interpolated-text:{pname}:capture", "First not matched", dict(info, event=ev)))
                        continue
                    v2x.step(st, ev, [], v2x.UIDS.n)
                    got = any(e["type"] == "Marker" for e in st.outgoing_events)
                except Exception as e:
                    res["violations"].append((f"interpolated-text:{tname}:raised", f"`match Ev({pat})`, $t = {text!r}: {e!r}", dict(info, event=ev)))
                    continue
                res["interpolated_text_cases"] += 1
                res["interpolated_text_advances"] += bool(exp)
                if got != exp:
                    res["violations"].append((f"interpolated-text:{tname}:{'equal-text-not-matched' if exp else 'other-text-matched'}",
                                              f"$t = {text!r} (taken from an event), `match Ev({pat})` fed Ev(text={build(other)!r}): expected advance={exp}, got {got}",
                                              dict(info, event=ev)))
    seen, uniq = set(), []
    for v in res["violations"]:
        if v[0] not in seen:
            seen.add(v[0])
            uniq.append(v)
    res["violations"] = uniq
    return res


# ----------------------------------------------------------------------------- part R: parameters written on a flow REFERENCE event
def part_flow_ref_events(_):
    """`start f .. as $ref` / `match $ref.Finished(return_value=<x>)`, `match $ref.Started(p=<x>)`: the parameter is written in the
    statement, so the event of the referenced instance advances the statement only with a matching value"""
    res = {"flow_reference_event_cases": 0, "violations": []}
    cases = []
    for rv in (6, "six", [1, 2], {"k": 1}):
        lit = repr(rv).replace("'", '"')
        stmts = [(f"$ref.Finished(return_value={lit})", True), ("$ref.Finished(return_value=5)", False), ('$ref.Finished(return_value="no")', False),
                 ("$ref.Finished()", True), (f"$ref.Finished(return_value={lit}, p=1)", True), (f"$ref.Finished(return_value={lit}, p=2)", False),
                 ("$ref.Finished(p=1)", True), ("$ref.Finished(p=2)", False)]
        if isinstance(rv, list):
            stmts += [("$ref.Finished(return_value=[2])", True), ("$ref.Finished(return_value=[2, 1])", False), ("$ref.Finished(return_value=[1, 2, 3])", False)]
        if isinstance(rv, dict):
            stmts += [('$ref.Finished(return_value={"k": 2})', False), ('$ref.Finished(return_value={"j": 1})', False), ("$ref.Finished(return_value={})", True)]
        if isinstance(rv, str):
            stmts += [('$ref.Finished(return_value=regex("^s"))', True), ('$ref.Finished(return_value=regex("^x"))', False)]
        for stmt, exp in stmts:
            src = (f"flow f $p\n  match Go()\n  return {lit}\n\nflow main\n  start f 1 as $ref\n  match {stmt}\n  send Marker()\n  match Never()\n")
            cases.append((src, stmt, exp, f"`flow f` (started as $ref with p=1) returns {lit}"))
    for stmt, exp in (("$ref.Finished()", True), ("$ref.Finished(return_value=5)", False)):
        src = f"flow f $p\n  match Go()\n\nflow main\n  start f 1 as $ref\n  match {stmt}\n  send Marker()\n  match Never()\n"
        cases.append((src, stmt, exp, "`flow f` (started as $ref) ends without `return`"))
    for src, stmt, exp, what in cases:
        try:
            st = v2x.init_state(src)
            v2x.step(st, v2x.resolve_event(st, ("start_main",)), [], v2x.UIDS.n)
            early = any(e["type"] == "Marker" for e in st.outgoing_events)
            v2x.step(st, {"type": "Go"}, [], v2x.UIDS.n)
            got = early or any(e["type"] == "Marker" for e in st.outgoing_events)
        except Exception as e:
            res["violations"].append(("flow-reference-event:raised", f"`match {stmt}` ({what}): {e!r}", {"engine": "C04-flowevent", "source": src}))
            continue
        res["flow_reference_event_cases"] += 1
        if got != exp:
            name = "return_value" if "return_value" in stmt else "flow-parameter"
            kind = (f"written-{name}-ignored" if not exp else f"matching-event-missed:{name}")
            res["violations"].append((f"flow-reference-event:{kind}", f"{what}: `match {stmt}` expected advance={exp}, got {got}", {"engine": "C04-flowevent", "source": src}))
    seen, uniq = set(), []
    for v in res["violations"]:
        if v[0] not in seen:
            seen.add(v[0])
            uniq.append(v)
    res["violations"] = uniq
    return res


# ----------------------------------------------------------------------------- part N: how MANY unmentioned elements
LADDER = [1, 10, 100, 1000, 10000]
MANY_SHAPES = {
    "list-items": ('items=["a"]', lambda n: {"items": ["a"] + ["x"] * n}, lambda n: {"items": ["b"] + ["x"] * n}),
    "list-items-before": ('items=["a"]', lambda n: {"items": ["x"] * n + ["a"]}, lambda n: {"items": ["x"] * n + ["b"]}),
    "dict-entries": ('data={"a": 1}', lambda n: {"data": dict({"a": 1}, **{f"k{i}": i for i in range(n)})}, lambda n: {"data": dict({"a": 2}, **{f"k{i}": i for i in range(n)})}),
    "set-members": ('tags={"a"}', lambda n: {"tags": {"a"} | {f"x{i}" for i in range(n)}}, lambda n: {"tags": {"b"} | {f"x{i}" for i in range(n)}}),
    "event-parameters": ("a=1", lambda n: dict({"a": 1}, **{f"k{i}": i for i in range(n)}), lambda n: dict({"a": 2}, **{f"k{i}": i for i in range(n)})),
}


def part_many(_):
    """payloads derived from the pattern by adding N elements / parameters the statement does not mention, N on a ladder up to 10^4"""
    res = {"many_unmentioned_cases": 0, "violations": []}
    for name, (pat, good, bad) in MANY_SHAPES.items():
        src = f"flow main\n  match Ev({pat})\n  send Marker()\n  match Never()\n"
        base = v2x.init_state(src)
        v2x.step(base, v2x.resolve_event(base, ("start_main",)), [], v2x.UIDS.n)
        n0 = v2x.UIDS.n
        for n in LADDER:
            for build, exp in ((good, True), (bad, False)):
                st = v2x.copy_state(base)
                ev = dict(build(n), type="Ev")
                v2x.step(st, ev, [], n0)
                got = any(e["type"] == "Marker" for e in st.outgoing_events)
                res["many_unmentioned_cases"] += 1
                if got != exp:
                    res["violations"].append((f"many-unmentioned:{name}:{'prevent-the-match' if exp else 'matched'}",
                                              f"`match Ev({pat})` fed the {'expected' if exp else 'a wrong'} value plus {n} unmentioned {name}: expected advance={exp}, got {got}",
                                              {"engine": "C04-many", "source": src, "shape": name, "n": n, "good": exp}))
    seen, uniq = set(), []
    for v in res["violations"]:
        if v[0] not in seen:
            seen.add(v[0])
            uniq.append(v)
    res["violations"] = uniq
    return res


def run(rep, tier):
    from vf import par

    depth = 1 if tier == "quick" else 2
    pats = patterns(depth)
    vals = values(depth)
    rep.set("patterns", len(pats))
    rep.set("payloads", len(vals))
    rep.assumptions += [
        f"value grammar depth {depth}: scalars {SCALARS}, regex leaves {REGEXES}, lists/sets/dicts of width <=2 (sets of scalars/regex only; depth-2 inner values reduced to {{'a',1,regex(a)}})",
        "cross-type numeric comparisons (1 vs True vs 1.0) are outside the alphabet",
        "reference matcher: equal same-type scalars; regex search on str(scalar); list = in-order subsequence; set = every expected member matched by some member; dict = keys present with matching values; expected container never larger than received",
    ]
    # ---- part A
    chunk = max(1, len(pats) // (par.NPROC * 4))
    tasks = [(pats[i:i + chunk], vals) for i in range(0, len(pats), chunk)]
    tot = {"pairs": 0, "ref_matches": 0, "container_pairs": 0}
    for r in par.pmap(part_a_chunk, tasks):
        for k in tot:
            tot[k] += r[k]
        for sig, what, rp in r["violations"]:
            rep.violation(sig, what, rp)
    rep.set("function_level_pairs", tot["pairs"])
    rep.set("function_level_pairs_expected_to_match", tot["ref_matches"])
    rep.set("function_level_same_container_pairs", tot["container_pairs"])
    # ---- part A2 (thorough): full (unreduced) depth-2 grammar, pairs of the same top-level kind
    if tier == "thorough":
        import time as _t
        full_p = [p for p in _full(patterns, 2) if p[0] in ("list", "dict")]
        full_v = [v for v in _full(values, 2) if v[0] in ("list", "dict")]
        deadline = _t.time() + 900
        t2 = {"pairs": 0, "ref_matches": 0, "container_pairs": 0}
        tasks2 = []
        for kind in ("list", "dict"):
            pk = [p for p in full_p if p[0] == kind]
            vk = [v for v in full_v if v[0] == kind]
            ch = max(1, len(pk) // (par.NPROC * 16))
            tasks2 += [(pk[i:i + ch], vk) for i in range(0, len(pk), ch)]
        done2 = 0
        for r in par.pmap(part_a_chunk, tasks2, deadline=deadline):
            done2 += 1
            for k in t2:
                t2[k] += r[k]
            for sig, what, rp in r["violations"]:
                rep.violation(sig, what, rp)
        rep.set("function_level_full_depth2_pairs", t2["pairs"])
        rep.set("function_level_full_depth2_expected_to_match", t2["ref_matches"])
        rep.set("function_level_full_depth2_chunks", f"{done2}/{len(tasks2)}")
        if done2 < len(tasks2):
            rep.set("cap_hit", f"full depth-2 cross product stopped by the 900 s budget after {done2}/{len(tasks2)} chunks; the reduced depth-2 product and everything else are complete")
        tot["pairs"] += t2["pairs"]
        tot["ref_matches"] += t2["ref_matches"]
    # ---- part B
    pats_b = patterns(1) if tier == "quick" else patterns(2)
    vals_b = values(1)
    steps = markers = progs = der = 0
    tasks_b = [(p, vals_b if size(p) <= 3 else []) for p in pats_b]
    # the same depth<=1 patterns supplied through a flow variable (regex leaves cannot be stored in a set literal variable any differently)
    tasks_b += [(p, vals_b if size(p) <= 3 else [], True) for p in patterns(1)]
    for r in par.pmap(part_b_task, tasks_b, chunksize=4):
        steps += r["steps"]; markers += r["markers"]; progs += r["programs"]; der += r["derived"]
        for sig, what, rp in r["violations"]:
            rep.violation(sig, what, rp)
    # ---- parts W / V: the ways a pattern can be written, and where a pattern variable got its value from
    w_tasks = written_patterns(tier)
    v_tasks = [(p, how) for p in patterns(1) for how in PROVENANCES]
    for fam, fn, tasks_x in (("written_form", part_w_task, w_tasks), ("pattern_variable", part_v_task, v_tasks)):
        f_steps = f_markers = f_progs = 0
        by_sig = {}
        for r in par.pmap(fn, tasks_x, chunksize=4):
            f_steps += r["steps"]; f_markers += r["markers"]; f_progs += r["programs"]; der += r["derived"]
            for sig, what, rp in r["violations"]:
                # the shortest (then alphabetically first) failing case stands for its signature, whatever order the workers finish in
                if sig not in by_sig or (len(what), what) < (len(by_sig[sig][0]), by_sig[sig][0]):
                    by_sig[sig] = (what, rp)
        # one report per signature (a defect of the evaluator shows in many programs), the first ten in a fixed order
        for sig in sorted(by_sig)[:10]:
            rep.violation(sig, by_sig[sig][0], by_sig[sig][1])
        if len(by_sig) > 10:
            rep.set(fam + "_signatures_not_listed", len(by_sig) - 10)
        rep.set(fam + "_programs", f_progs)
        rep.set(fam + "_steps", f_steps)
        rep.set(fam + "_steps_expected_to_advance", f_markers)
        steps += f_steps; markers += f_markers; progs += f_progs
    rep.assumptions += [
        "written forms: leaf forms " + ", ".join(f"{n} `{t}`" for n, t, _v in LEAF_FORMS) + " with " + ", ".join(f"${n} = {lit}" for n, lit in FORM_VARS)
        + "; every leaf alone, lists/dicts of <=2, sets of 2, and ordered pairs one level deeper; the statement denotes the resolved value",
        "pattern variables: every depth<=1 pattern reaching the statement through " + ", ".join(PROVENANCES) + "; also after two events that do not match",
        f"interpolated text: {len(TEXTS)} texts (quotes, backslashes, braces, $word, control characters) taken from an event, written as {[n for n, _p, _b in TEXT_PATTERNS]}",
        f"unmentioned elements / parameters added in numbers {LADDER}",
    ]
    tx = part_text(None)
    for sig, what, rp in tx["violations"]:
        rep.violation(sig, what, rp)
    rep.set("interpolated_text_cases", tx["interpolated_text_cases"])
    fr = part_flow_ref_events(None)
    for sig, what, rp in fr["violations"]:
        rep.violation(sig, what, rp)
    rep.set("flow_reference_event_cases", fr["flow_reference_event_cases"])
    mn = part_many(None)
    for sig, what, rp in mn["violations"]:
        rep.violation(sig, what, rp)
    rep.set("many_unmentioned_cases", mn["many_unmentioned_cases"])
    rr = part_ref(None)
    for sig, what, rp in rr["violations"]:
        rep.violation(sig, what, rp)
    ea = part_event_action_ref(None)
    for sig, what, rp in ea["violations"]:
        rep.violation(sig, what, rp)
    rep.set("event_action_reference_cases", ea["event_action_ref_cases"])
    pr = part_progress(None)
    for sig, what, rp in pr["violations"]:
        rep.violation(sig, what, rp)
    rn = part_reserved(None)
    for sig, what, rp in rn["violations"]:
        rep.violation(sig, what, rp)
    rep.set("reserved_name_cases", rn["reserved_name_cases"])
    pp = part_priority(None)
    for sig, what, rp in pp["violations"]:
        rep.violation(sig, what, rp)
    rep.set("priority_cases", pp["priority_cases"])
    fp = part_flow_params(None)
    for sig, what, rp in fp["violations"]:
        rep.violation(sig, what, rp)
    rep.set("flow_name_event_cases", fp["flow_param_cases"])
    ru = part_reused_statement(None)
    for sig, what, rp in ru["violations"]:
        rep.violation(sig, what, rp)
    rep.set("reused_statement_cases", ru["reused_statement_cases"])
    fe = part_flow_events(None)
    for sig, what, rp in fe["violations"]:
        rep.violation(sig, what, rp)
    rep.set("flow_event_cases", fe["flow_event_cases"])
    sv = [r for r in par.pmap(part_sent_values, [0])][0]
    for sig, what, rp in sv["violations"]:
        rep.violation(sig, what, rp)
    rep.set("sent_value_cases", sv["sent_value_cases"])
    rep.set("action_progress_cases", pr["progress_cases"])
    rep.set("interpreter_level_programs", progs)
    rep.set("interpreter_level_steps", steps)
    rep.set("interpreter_level_steps_expected_to_advance", markers)
    rep.set("derived_payloads", der)
    rep.set("instance_reference_cases", rr["ref_cases"])
    rep.set("evaluations", tot["pairs"] * 2 + steps + rr["ref_cases"])
    rep.set("distinct_nontrivial", tot["ref_matches"] + markers)
    rep.set("rule", "all (pattern,payload) pairs of the bounded grammar at function level (with and without an unmentioned parameter) and, for depth<=1 patterns, "
                    "through the parser+interpreter - also with every leaf written in each documented form and with the pattern reaching the statement through a variable of "
                    "every listed provenance; non-trivial = pairs the reference expects to match (positive cases; every other pair is a negative case)")
    rep.set("exhaustive", True)
    rep.sample({"pattern": to_colang(pats[len(pats) // 2]), "payload": to_colang(vals[len(vals) // 3])})
    rep.sample({"program": program_for(pats_b[-1])})


def replay(rp):
    if rp.get("engine") == "C04-A":
        p = _tup(rp["pattern"]); v = _tup(rp["payload"])
        args = {"p": to_py(v, False)}
        if rp.get("extra"):
            args["q"] = "zzz"
        print("pattern", to_colang(p), "payload", to_colang(v), "reference:", ref_match(p, v),
              "implementation score:", sm._compute_arguments_dict_matching_score(args, {"p": to_py(p, True)}))
    elif rp.get("engine") == "C04-many":
        pat, good, bad = MANY_SHAPES[rp["shape"]]
        st = v2x.init_state(rp["source"])
        v2x.step(st, v2x.resolve_event(st, ("start_main",)), [], v2x.UIDS.n)
        v2x.step(st, dict((good if rp["good"] else bad)(rp["n"]), type="Ev"), [], v2x.UIDS.n)
        print(rp["source"], f"\nevent Ev with the {'expected' if rp['good'] else 'wrong'} value and {rp['n']} unmentioned {rp['shape']} ->", [e["type"] for e in st.outgoing_events])
    elif rp.get("engine") == "C04-text":
        st = v2x.init_state(rp["source"])
        v2x.step(st, v2x.resolve_event(st, ("start_main",)), [], v2x.UIDS.n)
        v2x.step(st, rp["first"], [], v2x.UIDS.n)
        print(rp["source"], "\nevent", rp["first"], "->", [e["type"] for e in st.outgoing_events])
        try:
            v2x.step(st, rp["event"], [], v2x.UIDS.n)
            print("event", rp["event"], "->", [e["type"] for e in st.outgoing_events])
        except Exception as e:
            print("event", rp["event"], "raised", repr(e))
    elif rp.get("engine") == "C04-flowevent":
        st = v2x.init_state(rp["source"])
        v2x.step(st, v2x.resolve_event(st, ("start_main",)), [], v2x.UIDS.n)
        print(rp["source"], "\nafter start ->", [e["type"] for e in st.outgoing_events])
        v2x.step(st, {"type": "Go"}, [], v2x.UIDS.n)
        print("event Go ->", [e["type"] for e in st.outgoing_events])
    elif rp.get("engine") == "C04-flowparam":
        st = v2x.init_state(rp["source"])
        v2x.step(st, v2x.resolve_event(st, ("start_main",)), [], v2x.UIDS.n)
        print(rp["source"], "\nafter start ->", [e["type"] for e in st.outgoing_events])
        v2x.step(st, {"type": "Go"}, [], v2x.UIDS.n)
        print("event Go ->", [e["type"] for e in st.outgoing_events])
    else:
        st = v2x.init_state(rp["source"])
        v2x.step(st, v2x.resolve_event(st, ("start_main",)), [], v2x.UIDS.n)
        ev = rp["event"]
        for nv in rp.get("noise") or []:
            nev = {"type": "E", "p": to_py(_tup(nv), False)}
            v2x.step(st, nev, [], v2x.UIDS.n)
            print("event", nev, "->", [e["type"] for e in st.outgoing_events])
        if "p" in ev and isinstance(ev["p"], list):
            e = {"type": ev["type"], "p": to_py(_tup(ev["p"]), False)}
            if ev.get("extra"):
                e.update(q=[1, 2], r="unmentioned")
            ev = e
        v2x.step(st, ev, [], v2x.UIDS.n)
        print(rp["source"], "\nevent", ev, "->", [e["type"] for e in st.outgoing_events])
    print(rp.get("what"))
    return 0


def _tup(x):
    if isinstance(x, list):
        return tuple(_tup(i) for i in x)
    return x
