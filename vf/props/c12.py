"""C12 - compiled flows are closed: every jump / fork / failure-handler / loop-exit target
exists inside the flow, opened scopes are closed, only primitives remain (Colang 2.x);
every relative jump and branch offset lands inside the flow (Colang 1.0).

Enumerates (exhaustively, smallest first)
  * all programs of a control-flow grammar up to a node bound (2.x and 1.0),
  * a product space "rich statement (groups, when-forms, start/await/activate, labels, ...) x
    nesting context" and pairs of rich statements,
  * every `.co` file shipped in the repository (own Colang version, imports resolved by the loader),
  * Colang 1.0 checkpoints: all sequences of label / goto atoms up to a length (several gotos per checkpoint,
    forward and backward, out of and into nested blocks) in four contexts,
  * 2.x `when` statements whose case is an or-group with every small control-flow block as case / else body,
  * every generated 2.x program on each way a flow reaches `State.flow_configs`: the configuration, a further
    `initialize_state` on the same flow configs, and `AddFlowsAction` on a running state,
  * the edge of the accepted 2.x language: operator x kind of operand x group shape x statement form (whether or
    not an expansion rule supports the combination) and the bare loop exits, in every nesting context - each program
    is either rejected by the loader or compiled into a closed flow,
  * Colang 1.0 flow declarations (`priority N` / `meta` blocks) at every statement position of every block of the
    1.0 control grammar up to a node bound (then / else blocks, while bodies, when branches, top of the flow) under
    every flow header - and every 1.0 flow of every family / shipped file as LOADED by the runtime
    (`RuntimeV1_0._load_flow_config`, a whole `RuntimeV1_0(config).flow_configs`, the flow a `start_flow` event
    defines; vf/props/c12_v1load.py): offsets inside the loaded flow, only steps left in it,
  * 2.x blocks that hold statements without effect (comment lines, `pass`): every block of the control grammar with
    such a leaf up to a node bound - bodies of nothing else and nops among statements (vf/props/c12_gen2.py),
  * Colang 1.0 COMBINED configurations (`config_a + config_b`, what the server builds for several config_ids) whose
    two parts define a flow with the same id: all ordered pairs of small programs and every program with each of its
    one-line-shorter copies; the flows of the combined configuration and the flow configs the runtime loader makes of
    them (vf/props/c12_comb.py),
and model-checks each compiled flow: explicit-state exploration of its control-flow graph
(vf/props/c12_cfg.py).  The abstraction is bound to the implementation by running the
generated 2.x programs on the real interpreter with a logging wrapper around the
`FlowHead.position` setter (vf/props/c12_dyn.py) and the 1.0 flows on the real `sliding.slide`.
"""
from __future__ import annotations

import json
import os
import re
import time
import warnings

from vf import par
from vf.engines import v2x

from nemoguardrails.colang import parse_colang_file
from nemoguardrails.colang.v2_x.runtime import statemachine as sm
from nemoguardrails.colang.v2_x.runtime.flows import State
from nemoguardrails.colang.v2_x.runtime.runtime import RuntimeV2_x, create_flow_configs_from_flow_list

from vf.props import c12_cfg as G
from vf.props import c12_dyn as D
from vf.props import c12_files as F
from vf.props import c12_gen as gen
from vf.props import c12_v1load as L
from vf.props import c12_gen2 as gen2
from vf.props import c12_comb as CB

PROP = "C12"
HELPER_FLOWS = {"f", "g", "h", "p"}
MAX_V_PER_SIG_PER_TASK = 2

TIERS = {
    "quick": dict(
        v2_bound=5, v2_dyn_all=5, v2_dyn_stride={}, v1_bound=6, kmax=3,
        rich_dyn=True, pairs=False, files_stride=1, depth=4, max_steps=120, budget_s=70,
        goto_len=5, whenor_body=2, paths_stride={}, edge_kmax=2, v1meta_bound=4, v1meta_full=3,
        nop_bound=4, nop_full=3, comb_pairs=3, comb_edits=3, comb_full=2,
    ),
    "thorough": dict(
        v2_bound=7, v2_dyn_all=5, v2_dyn_stride={6: 16, 7: 256}, v1_bound=7, kmax=4,
        rich_dyn=True, pairs=True, files_stride=1, depth=5, max_steps=400, budget_s=17 * 60,
        goto_len=6, whenor_body=3, paths_stride={7: 8}, edge_kmax=3, v1meta_bound=5, v1meta_full=4,
        nop_bound=5, nop_full=4, comb_pairs=3, comb_edits=5, comb_full=3,
    ),
}
CHUNK = 400


# =========================================================================== one program
class Acc:
    """per-task accumulator"""

    def __init__(self):
        self.c = {}
        self.viol = []
        self.per_sig = {}
        self.samples = []
        self.reject = {}

    def add(self, k, n=1):
        self.c[k] = self.c.get(k, 0) + n

    def violation(self, sig, what, replay):
        n = self.per_sig.get(sig, 0)
        self.per_sig[sig] = n + 1
        if n < MAX_V_PER_SIG_PER_TASK:
            self.viol.append({"signature": sig, "what": what, "replay": replay})

    def result(self):
        return {"counts": self.c, "violations": self.viol, "per_sig": self.per_sig,
                "samples": self.samples[:3], "reject": self.reject}


def compile_v2(source=None, flows=None):
    """loader path of the runtime: flow list -> flow configs -> State -> initialize_state"""
    v2x.UIDS.n = 0
    v2x.CHOICE.begin([])
    if flows is None:
        flows = list(v2x.parse_program(source)["flows"])
    cfgs = create_flow_configs_from_flow_list(flows)
    st = State(flow_states=[], flow_configs=cfgs)
    sm.initialize_state(st)
    return st


# --------------------------------------------------------------------------- the other loader paths
# A flow reaches `State.flow_configs` on three ways:
#   (a) configuration: create_flow_configs_from_flow_list + initialize_state              (compile_v2)
#   (b) every further state of a runtime: `State(flow_configs=dict(runtime.flow_configs))` + initialize_state
#       runs initialize_flow again on the SAME FlowConfig objects (RuntimeV2_x.process_events)   (reinit_v2)
#   (c) while the bot runs: RuntimeV2_x._add_flows_action(state, config=<source>) (AddFlowsAction: flows the
#       LLM generates, flows an application loads)                                          (add_at_runtime)
# The compiled flow has to be closed whichever way it came.
ADDED_MAIN = "vfmain"
HOST_SOURCE = "flow main\n  match VfNeverEvent()\n"
_RT = {}


def runtime_host():
    """one RuntimeV2_x on a minimal 2.x configuration (built in the parent, inherited by the workers)"""
    if "rt" not in _RT:
        from nemoguardrails import RailsConfig
        with warnings.catch_warnings():
            warnings.simplefilter("ignore")
            cfg = RailsConfig.from_content(colang_content=HOST_SOURCE, yaml_content='colang_version: "2.x"\n')
            _RT["cfg"] = cfg
            _RT["rt"] = RuntimeV2_x(cfg)
    return _RT["rt"], _RT["cfg"]


def _drive(coro):
    """run a coroutine that never really suspends"""
    try:
        coro.send(None)
    except StopIteration as stop:
        return stop.value
    coro.close()
    raise RuntimeError("the coroutine suspended")


def reinit_v2(st):
    """(b): a further state on the same flow configs"""
    st2 = State(context={}, flow_states={}, flow_configs=dict(st.flow_configs))
    sm.initialize_state(st2)
    return st2


def rename_main(source):
    """the program with its main flow renamed (a flow `main` exists in every state already)"""
    if source.count("flow main\n") != 1:
        raise ValueError("no unique main flow")
    return source.replace("flow main\n", f"flow {ADDED_MAIN}\n")


def add_at_runtime(source):
    """(c): fresh state of the host runtime, then every flow of `source` through AddFlowsAction.
    returns (state, names of the flows added)"""
    rt, cfg = runtime_host()
    v2x.UIDS.n = 0
    v2x.CHOICE.begin([])
    st = State(context={}, flow_states={}, flow_configs=dict(rt.flow_configs), rails_config=cfg)
    sm.initialize_state(st)
    added = _drive(rt._add_flows_action(st, config=rename_main(source)))
    return st, list(added)


def check_other_paths(acc, st, origin, source, size, cfgs):
    explored = {G.fingerprint(st.flow_configs[fid]): c for fid, c in cfgs.items() if fid in st.flow_configs}
    # (b)
    try:
        st2 = reinit_v2(st)
    except Exception as ex:
        acc.violation("v2:re-initialisation-raised",
                      f"[{origin}] initialize_state on the flow configs of an initialised state raised "
                      f"{type(ex).__name__}: {str(ex)[:120]}",
                      {"kind": "v2", "path": "reinit", "origin": origin, "source": source, "file": None,
                       "flow": None, "detail": {}, "size": size})
    else:
        acc.add("v2_programs_reinitialised")
        check_v2_state(acc, st2, origin + ":re-initialised", source, size, None, path="reinit", explored=explored)
    # (c)
    try:
        st3, added = add_at_runtime(source)
    except Exception as ex:   # the run-time loader refuses it: outside the property
        acc.add("v2_programs_rejected_by_runtime_loader")
        acc.reject.setdefault(f"AddFlowsAction {type(ex).__name__}: {str(ex)[:70]}", source)
        return
    acc.add("v2_programs_added_at_runtime")
    acc.add("v2_flows_added_at_runtime", len(added))
    if ADDED_MAIN in st3.flow_configs and not any(x["kind"] == "v2-added-at-runtime" for x in acc.samples):
        fc = st3.flow_configs[ADDED_MAIN]
        if len(fc.element_labels) >= 2:
            acc.samples.append({
                "kind": "v2-added-at-runtime", "origin": origin, "program": source, "flows_added": added,
                "flow": ADDED_MAIN, "elements": len(fc.elements), "labels_in_table": len(fc.element_labels),
            })
    check_v2_state(acc, st3, origin + ":added-at-runtime", source, size, None, path="added", only=set(added),
                   explored=explored)


PATH_SUFFIX = {None: "", "reinit": "@re-initialised", "added": "@AddFlowsAction"}


def check_v2_state(acc, st, origin, source, size, dyn=None, skip_helpers=True, file_rel=None, path=None, only=None,
                   explored=None):
    """`explored` (fingerprint -> Cfg): compiled forms of this program that were model-checked on the
    configuration path; a flow that arrives with the same compiled form on another path has the same graph
    (only counted then), any other form is explored."""
    cfgs = {}
    clean = True
    for fid, fc in st.flow_configs.items():
        if only is not None and fid not in only:
            continue
        if explored is not None:
            if skip_helpers and fid in HELPER_FLOWS:
                continue
            if file_rel is not None and fid == "main" and getattr(fc, "source_file", None) in ("", None):
                continue
            fp = G.fingerprint(fc)
            cfg = explored.get(fp)
            if cfg is not None:
                acc.add("v2_flows_checked")
                acc.add("v2_flows_checked_" + path)
                acc.add(f"v2_flows_{path}_same_compiled_form_as_explored")
                if acc.c["v2_flows_checked"] % 32 == 0:
                    # keep the shortcut honest: explore anyway, the graph must be the same
                    chk = G.explore(fc)
                    same = (len(chk.states) == len(cfg.states) and chk.edges == cfg.edges
                            and sorted(q.sig for q in chk.problems) == sorted(q.sig for q in cfg.problems))
                    if not same:
                        raise AssertionError(f"c12: equal fingerprints, different graphs ({origin}, flow {fid})")
                    acc.add("v2_same_form_shortcuts_verified_by_exploration")
                for p in cfg.problems:
                    acc.violation(
                        p.sig + PATH_SUFFIX[path], f"[{origin}] {p.what}",
                        {"kind": "v2", "path": path, "origin": origin, "source": source, "file": file_rel,
                         "flow": fid, "detail": p.detail, "size": size})
                continue
            acc.add(f"v2_flows_{path}_compiled_form_differs_explored_separately")
        cfg = G.explore(fc)
        cfgs[fid] = cfg
        if skip_helpers and fid in HELPER_FLOWS:
            continue
        if file_rel is not None and fid == "main" and getattr(fc, "source_file", None) in ("", None):
            continue
        acc.add("v2_flows_checked")
        if path is not None:
            acc.add("v2_flows_checked_" + path)
        ndup = G.duplicate_labels(fc)
        if ndup:
            # informational (not part of the property): the shadowed copies are dead code when no abstract
            # state sits on them
            acc.add("v2_flows_with_a_label_defined_twice")
            reach = {st_[0] for st_ in cfg.proj}
            sh = G.shadowed_label_positions(fc)
            acc.add("v2_shadowed_label_copies", len(sh))
            acc.add("v2_shadowed_label_copies_reachable_in_graph", sum(1 for i in sh if i in reach))
        if file_rel is not None:
            acc.c.setdefault("shipped_flows_distinct", set()).add(("2.x", fc.source_file, fid))
        acc.add("states", len(cfg.states))
        acc.add("transitions", cfg.ntrans)
        acc.add("cfg_edges", len(cfg.edges))
        acc.add("v2_elements", cfg.n)
        acc.add("v2_ignored_elements", cfg.ignored)
        if cfg.loop_exits_no_label:
            acc.add("v2_flows_with_loop_exit_outside_of_a_loop")
            acc.add("v2_loop_exits_without_label_outside_of_a_loop", cfg.loop_exits_no_label)
        acc.c["max_cfg_states_per_flow"] = max(acc.c.get("max_cfg_states_per_flow", 0), len(cfg.states))
        if cfg.capped:
            acc.add("cfg_state_cap_hit")
        for p in cfg.problems:
            clean = False
            acc.violation(
                p.sig + PATH_SUFFIX[path],
                f"[{origin}] {p.what}",
                {"kind": "v2", "path": path, "origin": origin, "source": source, "file": file_rel, "flow": fid,
                 "detail": p.detail, "size": size},
            )
    if dyn:
        counts, out = D.explore_dynamic(st, cfgs, depth=dyn["depth"], max_steps=dyn["max_steps"])
        for rk, rh in counts.pop("raising").items():
            acc.reject.setdefault("step raised " + rk, {"program": source, "history": rh})
        for k, v in counts.items():
            if k == "dyn_max_depth":
                acc.c["max_dyn_depth"] = max(acc.c.get("max_dyn_depth", 0), v)
            else:
                acc.add(k, v)
        acc.add("traces_validated_against_impl", counts["dyn_moves"])
        acc.add("v2_programs_run_on_interpreter")
        for v in out:
            acc.violation(
                v["signature"], f"[{origin}] {v['what']}",
                {"kind": "v2dyn", "origin": origin, "source": source, "flow": v["detail"]["flow"],
                 "detail": v["detail"], "history": v.get("history"), "size": size},
            )
        if not any(x["kind"] == "v2-program" for x in acc.samples) and counts["dyn_moves"]:
            acc.samples.append({
                "kind": "v2-program", "origin": origin, "program": source,
                "cfg": {fid: {"elements": c.n, "states": len(c.states), "edges": len(c.edges)}
                        for fid, c in cfgs.items() if fid not in HELPER_FLOWS},
                "interpreter": counts,
            })
    return cfgs


_LINE_NO = re.compile(r"line \d+")


def do_v2_program(acc, source, origin, size, dyn, paths=True, twice=False):
    acc.add("v2_programs_generated")
    try:
        flows = list(v2x.parse_program(source)["flows"])
        st = compile_v2(flows=flows)
    except Exception as ex:  # loader refuses the program: outside the property
        acc.add("v2_programs_rejected_by_loader")
        key = f"{type(ex).__name__}: {_LINE_NO.sub('line N', str(ex))[:70]}"
        acc.reject.setdefault(key, source)
        return False
    acc.add("v2_programs_checked")
    cfgs = check_v2_state(acc, st, origin, source, size, dyn)
    if paths:
        check_other_paths(acc, st, origin, source, size, cfgs)
    if twice or "while" in source or "when" in source:
        # a second runtime built from the same parse result (two LLMRails objects on one RailsConfig):
        # the compiled flows of the second compilation must be closed as well
        try:
            st2 = compile_v2(flows=flows)
        except Exception as ex:
            acc.violation("v2:second-compilation-raised", f"[{origin}] compiling the same parsed flows a second time raised {type(ex).__name__}: {str(ex)[:120]}",
                          {"kind": "v2", "origin": origin, "source": source, "file": None, "flow": None, "detail": {"second_compilation": True}, "size": size})
            return True
        acc.add("v2_programs_compiled_twice")
        check_v2_state(acc, st2, origin + ":second-compilation", source, size, None)
    return True


V1_PATH_SUFFIX = {None: "", "loaded": "@loaded", "dynamic": "@start_flow-event"}


def _v1_replay(origin, source, file_rel, flow_id, detail, size, path=None, **more):
    r = {"kind": "v1", "origin": origin, "source": source, "file": file_rel, "flow": flow_id, "detail": detail,
         "size": size, "path": path}
    r.update(more)
    return r


def check_v1_loaded(acc, fc, origin, source, size, file_rel, path, **more):
    """a flow as the runtime holds it (FlowConfig made by the loader), explored as it is: offsets, steps, real slide"""
    els = fc.elements
    probs, n, edges, types = G.v1_check(fc.id, els, raw=True, steps=True)
    acc.add("states", n)
    acc.add("transitions", edges)
    acc.add("v1_elements", n)
    acc.add("v1_loaded_flows_explored_as_loaded")
    for p in probs:
        acc.violation(p.sig + V1_PATH_SUFFIX[path], f"[{origin}] {p.what}",
                      _v1_replay(origin, source, file_rel, fc.id, p.detail, size, path, **more))
    if not [p for p in probs if not p.sig.startswith("v1:non-primitive-left")]:
        ok, cyc, bad = D.v1_bind(fc.id, els, flow_config=fc)
        acc.add("traces_validated_against_impl", ok)
        acc.add("v1_slide_calls_validated", ok)
        acc.add("v1_slide_calls_validated_on_loaded_flow_configs", ok)
        acc.add("v1_slide_cycles_skipped", cyc)
        for b in bad:
            acc.violation(
                "v1:impl-slide-differs-from-model" + V1_PATH_SUFFIX[path],
                f"[{origin}] v1 flow `{fc.id}` (as loaded): sliding.slide(head={b['head']}, expressions={b['value']}) "
                f"returned {b['impl']!r}, model {b['model']!r}",
                _v1_replay(origin, source, file_rel, fc.id, b, size, path, **more))
    return probs, types


def do_v1_flows(acc, flows, origin, source, size, file_rel=None):
    """returns {flow id: element list of the flow as loaded by the host loader}"""
    loaded_by_id = {}
    for f in flows:
        els = f["elements"]
        probs, n, edges, types = G.v1_check(f["id"], els)
        acc.add("v1_flows_checked")
        if file_rel is not None:
            acc.c.setdefault("shipped_flows_distinct", set()).add(("1.0", file_rel, f["id"]))
        skind = "v1-file" if file_rel else ("v1-goto-program" if origin.startswith("v1goto") else "v1-program")
        if not any(x["kind"] == skind for x in acc.samples) and n > (5 if skind == "v1-goto-program" else 3):
            acc.samples.append({
                "kind": skind, "origin": origin, "program": source,
                "flow": f["id"], "elements": n, "offset_edges": edges, "element_types": types,
            })
        acc.add("states", n)
        acc.add("transitions", edges)
        acc.add("v1_elements", n)
        for p in probs:
            acc.violation(
                p.sig, f"[{origin}] {p.what}",
                {"kind": "v1", "origin": origin, "source": source, "file": file_rel, "flow": f["id"],
                 "detail": p.detail, "size": size},
            )
        if not probs:
            ok, cyc, bad = D.v1_bind(f["id"], els)
            acc.add("traces_validated_against_impl", ok)
            acc.add("v1_slide_calls_validated", ok)
            acc.add("v1_slide_cycles_skipped", cyc)
            for b in bad:
                acc.violation(
                    "v1:impl-slide-differs-from-model",
                    f"[{origin}] v1 flow `{f['id']}`: sliding.slide(head={b['head']}, expressions={b['value']}) "
                    f"returned {b['impl']!r}, model {b['model']!r}",
                    {"kind": "v1", "origin": origin, "source": source, "file": file_rel, "flow": f["id"],
                     "detail": b, "size": size},
                )
        # ---- the flow as LOADED by the runtime (what the interpreter walks over)
        modelled = G.v1_runtime_elements(els)
        try:
            fc = L.load_host(f)
        except Exception as ex:   # the loader of the runtime refuses the flow: outside the property
            acc.add("v1_flows_rejected_by_runtime_loader")
            acc.reject.setdefault(f"v1 runtime loader {type(ex).__name__}: {str(ex)[:70]}", source or file_rel)
            continue
        acc.add("v1_flows_loaded_by_runtime_loader")
        loaded_by_id[f["id"]] = fc.elements
        if fc.elements == modelled:
            # the graph explored above is the graph of the loaded flow; what is left to ask of the loaded flow
            # is that only steps remain in it
            acc.add("v1_flows_loaded_same_form_as_explored")
            for p in G.v1_step_problems(f["id"], fc.elements):
                acc.violation(p.sig, f"[{origin}] {p.what}",
                              _v1_replay(origin, source, file_rel, f["id"], p.detail, size, None))
        else:
            acc.add("v1_flows_loaded_form_differs_explored_separately")
            check_v1_loaded(acc, fc, origin + ":as-loaded", source, size, file_rel, "loaded", loader="host")
    return loaded_by_id


def do_v1_program(acc, source, origin, size, dynamic_body=None, full_runtime=False):
    acc.add("v1_programs_generated")
    try:
        r = parse_colang_file("t.co", source, include_source_mapping=False, version="1.0")
        flows = r.get("flows", [])
    except Exception as ex:
        acc.add("v1_programs_rejected_by_loader")
        acc.reject.setdefault(f"v1 {type(ex).__name__}: {str(ex)[:70]}", source)
        return False
    acc.add("v1_programs_checked")
    loaded = do_v1_flows(acc, flows, origin, source, size)
    if full_runtime:
        # (b) the whole runtime built on the configuration: its flow_configs must hold what the host loader made
        try:
            cfgs = L.load_runtime(source)
        except Exception as ex:
            acc.add("v1_programs_rejected_by_runtime_constructor")
            acc.reject.setdefault(f"v1 RuntimeV1_0(config) {type(ex).__name__}: {str(ex)[:70]}", source)
            cfgs = None
        if cfgs is not None:
            acc.add("v1_runtimes_built")
            for f in flows:
                fc = cfgs.get(f["id"])
                if fc is None or f["id"] not in loaded:
                    acc.add("v1_runtime_flows_not_comparable")
                    continue
                if L.strip(fc.elements) == L.strip(loaded[f["id"]]):
                    acc.add("v1_runtime_flow_configs_same_as_host_loader")
                else:
                    acc.add("v1_runtime_flow_configs_differ_explored_separately")
                    check_v1_loaded(acc, fc, origin + ":runtime.flow_configs", source, size, None, "loaded",
                                    loader="runtime")
    if dynamic_body is not None and L.dynamic_available():
        # (c) the same flow defined by a `start_flow` event of a history
        for f in flows[:1]:
            try:
                fc = L.load_dynamic(f["id"], dynamic_body)
            except Exception as ex:   # refused: outside the property
                acc.add("v1_dynamic_flows_rejected_by_loader")
                acc.reject.setdefault(f"v1 start_flow event {type(ex).__name__}: {str(ex)[:70]}", dynamic_body)
                continue
            acc.add("v1_dynamic_flows_loaded")
            _, types = check_v1_loaded(acc, fc, origin + ":start_flow-event", source, size, None, "dynamic",
                                       body=dynamic_body)
            if not any(x["kind"] == "v1-start_flow-event" for x in acc.samples) and len(fc.elements) > 4:
                acc.samples.append({"kind": "v1-start_flow-event", "origin": origin, "flow_body": dynamic_body,
                                    "elements": len(fc.elements), "element_types": types})
    return True


# --------------------------------------------------------------------------- combined 1.0 configurations
COMB_SUFFIX = "@combined-config"
_COMB_CACHE = {}


def comb_configs(nmax):
    """[(n, idx, source, RailsConfig | None)] of all programs of the 1.0 control grammar with <= nmax nodes, each loaded
    from a folder of its own (once per worker process; the folders are removed as soon as they are loaded)"""
    if nmax not in _COMB_CACHE:
        sc = CB.Scratch()
        try:
            out = []
            for n, i, src in gen2.comb_programs(nmax):
                try:
                    cfg = sc.load(src)
                except Exception:   # refused by the loader: outside the property (counted by the task of that program)
                    cfg = None
                out.append((n, i, src, cfg))
        finally:
            sc.close()
        _COMB_CACHE[nmax] = out
    return _COMB_CACHE[nmax]


def _merge_sub(acc, sub, mk_replay):
    for k, v in sub.c.items():
        if isinstance(v, int) and not isinstance(v, bool):
            acc.add(k, v)
    for k, v in sub.reject.items():
        acc.reject.setdefault(k, v)
    for v in sub.viol:
        acc.violation(v["signature"] + COMB_SUFFIX, v["what"], mk_replay(v))


def check_combined(acc, base, updated, base_src, upd_src, origin, size, full=False):
    """`base + updated`: every flow of the combined configuration, and every flow the runtime loader makes of its flow
    list, is closed.  A flow that is, element for element, a flow of one of the two configurations has the graph that
    was explored there (counted); any other element list is explored as it is."""
    acc.add("v1_combined_configs")
    try:
        comb = CB.combine(base, updated)
    except Exception as ex:   # the loader refuses to combine them: outside the property
        acc.add("v1_combined_configs_rejected_by_loader")
        acc.reject.setdefault(f"config_a + config_b {type(ex).__name__}: {str(ex)[:70]}", [base_src, upd_src])
        return
    flows = list(comb.flows)
    known = [f["elements"] for f in list(base.flows) + list(updated.flows)]
    ids = [f.get("id") for f in flows]
    acc.add("v1_combined_flows", len(flows))
    acc.add("v1_combined_configs_with_several_definitions_of_one_flow_id" if len(set(ids)) < len(ids)
            else "v1_combined_configs_with_one_definition_per_flow_id")
    text = "# base configuration\n" + base_src + "# updated configuration\n" + upd_src

    def replay_of(index, flow_id, path):
        def mk(v):
            return {"kind": "v1comb", "origin": origin, "base": base_src, "updated": upd_src, "source": text,
                    "flow": flow_id, "index": index, "path": path, "detail": v["replay"].get("detail"), "size": size}
        return mk

    explored_loaded = [G.v1_runtime_elements(k) for k in known]
    for idx, f in enumerate(flows):
        if any(f["elements"] == k for k in known):
            acc.add("v1_combined_flows_same_form_as_in_their_own_configuration")
            continue
        acc.add("v1_combined_flows_new_form_explored")
        sub = Acc()
        do_v1_flows(sub, [f], origin + f":flows[{idx}]", None, size)
        _merge_sub(acc, sub, replay_of(idx, f.get("id"), None))
        explored_loaded.append(G.v1_runtime_elements(f["elements"]))
        if not any(x["kind"] == "v1-combined-new-form" for x in acc.samples):
            acc.samples.append({"kind": "v1-combined-new-form", "origin": origin, "base": base_src, "updated": upd_src,
                                "flow": f.get("id"), "elements": len(f["elements"])})
    # ---- what the interpreter of the combined configuration walks over
    try:
        fcs = CB.runtime_flow_configs(comb)
    except Exception as ex:   # the loader of the runtime refuses the flow list: outside the property
        acc.add("v1_combined_configs_rejected_by_runtime_loader")
        acc.reject.setdefault(f"v1 runtime loader (combined) {type(ex).__name__}: {str(ex)[:70]}", [base_src, upd_src])
        return
    for fid, fc in fcs.items():
        acc.add("v1_combined_runtime_flow_configs")
        if any(fc.elements == k for k in explored_loaded):
            acc.add("v1_combined_runtime_flow_configs_same_form_as_explored")
            continue
        acc.add("v1_combined_runtime_flow_configs_new_form_explored")
        sub = Acc()
        check_v1_loaded(sub, fc, origin + ":runtime.flow_configs", None, size, None, "loaded", loader="combined")
        _merge_sub(acc, sub, replay_of(None, fid, "loaded"))
    if not any(x["kind"] == "v1-combined-config" for x in acc.samples) and len(flows) > 1 and size >= 3:
        acc.samples.append({"kind": "v1-combined-config", "origin": origin, "base": base_src, "updated": upd_src,
                            "flow_ids_of_combined_config": ids, "elements_per_flow": [len(f["elements"]) for f in flows],
                            "runtime_flow_configs": {fid: len(fc.elements) for fid, fc in fcs.items()}})
    if full:
        try:
            fr = CB.full_runtime(comb)
        except Exception as ex:
            acc.add("v1_combined_configs_rejected_by_runtime_constructor")
            acc.reject.setdefault(f"v1 RuntimeV1_0(combined) {type(ex).__name__}: {str(ex)[:70]}", [base_src, upd_src])
            return
        acc.add("v1_combined_runtimes_built")
        for fid, fc in fr.items():
            other = fcs.get(fid)
            if other is not None and L.strip(other.elements) == L.strip(fc.elements):
                acc.add("v1_combined_runtime_flow_configs_same_as_host_loader")
                continue
            acc.add("v1_combined_runtime_flow_configs_differ_explored_separately")
            sub = Acc()
            check_v1_loaded(sub, fc, origin + ":RuntimeV1_0(combined)", None, size, None, "loaded", loader="combined-full")
            _merge_sub(acc, sub, replay_of(None, fid, "loaded"))


def check_single_config(acc, cfg, origin, source, size):
    """the flows of one configuration as `RailsConfig.from_path` holds them"""
    acc.add("v1_single_configs_checked")
    do_v1_flows(acc, list(cfg.flows), origin, source, size)


def do_comb_pairs(acc, nmax, lo, hi, full_sum):
    cfgs = comb_configs(nmax)
    for a in range(lo, hi):
        na, ia, asrc, acfg = cfgs[a]
        acc.add("v1_programs_generated")
        if acfg is None:
            acc.add("v1_programs_rejected_by_loader")
            acc.reject.setdefault("v1 RailsConfig.from_path refused the program", asrc)
            continue
        acc.add("v1_programs_checked")
        check_single_config(acc, acfg, f"v1comb:n={na}:#{ia}", asrc, na)
        for nb, ib, bsrc, bcfg in cfgs:
            if bcfg is None:
                continue
            acc.add("v1_combined_pairs")
            check_combined(acc, acfg, bcfg, asrc, bsrc, f"v1comb:pair:n={na}:#{ia}+n={nb}:#{ib}", na + nb,
                           full=na + nb <= full_sum)


def do_comb_edits(acc, n, lo, hi):
    blocks = gen.V1_BLOCKS(n, False)
    sc = CB.Scratch()
    try:
        for i in range(lo, hi):
            src = gen.render_v1(blocks[i])
            acc.add("v1_programs_generated")
            try:
                cfg = sc.load(src)
            except Exception as ex:
                acc.add("v1_programs_rejected_by_loader")
                acc.reject.setdefault(f"v1 from_path {type(ex).__name__}: {str(ex)[:70]}", src)
                continue
            acc.add("v1_programs_checked")
            check_single_config(acc, cfg, f"v1comb:n={n}:#{i}", src, n)
            for ln, esrc in gen2.line_deletions(src):
                acc.add("v1_edited_copies_generated")
                try:
                    ecfg = sc.load(esrc)
                except Exception as ex:   # the copy is not a program: outside the property
                    acc.add("v1_edited_copies_rejected_by_loader")
                    acc.reject.setdefault(f"v1 from_path (edited copy) {type(ex).__name__}: {str(ex)[:60]}", esrc)
                    continue
                acc.add("v1_edited_copies_checked")
                check_single_config(acc, ecfg, f"v1comb:n={n}:#{i}:without-line-{ln}", esrc, n)
                acc.add("v1_combined_edit_pairs", 2)
                check_combined(acc, cfg, ecfg, src, esrc, f"v1comb:edit:n={n}:#{i}+without-line-{ln}", n)
                check_combined(acc, ecfg, cfg, esrc, src, f"v1comb:edit:n={n}:#{i}:without-line-{ln}+original", n)
    finally:
        sc.close()


def do_file(acc, rel):
    version, how = F.version_of(rel)
    acc.add("files_total")
    acc.add(f"files_{version}_{how}")
    cwd = os.getcwd()
    try:
        os.chdir(F.REPO)   # shipped examples import paths relative to the repository root
        with warnings.catch_warnings():
            warnings.simplefilter("ignore")
            if version == "2.x":
                flows = F.load_v2_unit(rel)
                if not any(fl.name == "main" for fl in flows):
                    flows += v2x.parse_program("flow main\n  match VfNeverEvent()\n")["flows"]
                st = compile_v2(flows=flows)
            else:
                flows = F.load_v1_file(rel)
    except Exception as ex:
        acc.add("files_skipped_rejected_by_loader")
        acc.reject.setdefault(f"file {rel}: {type(ex).__name__}: {str(ex)[:90]}", rel)
        return
    finally:
        os.chdir(cwd)
    acc.add("files_checked")
    if version == "2.x":
        cfgs = check_v2_state(acc, st, f"file:{rel}", None, 0, dyn=None, skip_helpers=False, file_rel=rel)
        try:
            st_r = reinit_v2(st)
        except Exception as ex:
            acc.violation("v2:re-initialisation-raised", f"[file:{rel}] initialize_state on the flow configs of an initialised state raised {type(ex).__name__}: {str(ex)[:120]}",
                          {"kind": "v2", "path": "reinit", "origin": f"file:{rel}", "source": None, "file": rel, "flow": None, "detail": {}, "size": 0})
        else:
            acc.add("v2_programs_reinitialised")
            check_v2_state(acc, st_r, f"file:{rel}:re-initialised", None, 0, dyn=None, skip_helpers=False, file_rel=rel, path="reinit",
                           explored={G.fingerprint(st.flow_configs[fid]): c for fid, c in cfgs.items()})
        try:
            st2 = compile_v2(flows=flows)
        except Exception as ex:
            acc.violation("v2:second-compilation-raised", f"[file:{rel}] compiling the same parsed flows a second time raised {type(ex).__name__}: {str(ex)[:120]}",
                          {"kind": "v2", "origin": f"file:{rel}", "source": None, "file": rel, "flow": None, "detail": {"second_compilation": True}, "size": 0})
        else:
            acc.add("v2_programs_compiled_twice")
            check_v2_state(acc, st2, f"file:{rel}:second-compilation", None, 0, dyn=None, skip_helpers=False, file_rel=rel)
        acc.samples.append({
            "kind": "v2-file", "file": rel, "flows_compiled": len(cfgs),
            "abstract_states": sum(len(c.states) for c in cfgs.values()),
            "cfg_edges": sum(len(c.edges) for c in cfgs.values()),
        })
    else:
        do_v1_flows(acc, flows, f"file:{rel}", None, 0, file_rel=rel)


# =========================================================================== tasks
_RICH_CACHE = {}


def rich(kmax):
    if kmax not in _RICH_CACHE:
        _RICH_CACHE[kmax] = gen.rich_statements(kmax)
    return _RICH_CACHE[kmax]


_WHENOR_CACHE = {}


def whenor(max_body):
    if max_body not in _WHENOR_CACHE:
        _WHENOR_CACHE[max_body] = list(gen.when_or_family(max_body))
    return _WHENOR_CACHE[max_body]


_EDGE_CACHE = {}


def edge(kmax):
    if kmax not in _EDGE_CACHE:
        _EDGE_CACHE[kmax] = gen.edge_statements(kmax)
    return _EDGE_CACHE[kmax]


def task_dyn(key):
    # the interpreter binding for the 3-branch groups that end the flow or sit in a loop
    return {"depth": 4, "max_steps": 150} if key[0] == 3 and max(key[1]) <= 2 else None


def work(task):
    kind = task[0]
    acc = Acc()
    t0 = time.process_time()
    if kind == "v2ctl":
        _, n, lo, hi, stride, dynp, pstride = task
        blocks = gen.V2_BLOCKS(n, False)
        for i in range(lo, hi):
            dyn = dynp if (stride and i % stride == 0) else None
            do_v2_program(acc, gen.render_v2(blocks[i]), f"v2ctl:n={n}:#{i}", n, dyn, paths=(i % pstride == 0))
    elif kind == "v2rich":
        _, kmax, ctx, lo, hi, dynp = task
        rs = rich(kmax)
        for i in range(lo, hi):
            sid, lines = rs[i]
            # statements with a return variable (`$v = match ..` / `$v = await ..`) are compiled twice in every context
            # (expansion rules that take the variable off the parsed statement: the second compilation starts from that)
            do_v2_program(acc, gen.in_context_v2(ctx, lines), f"v2rich:{ctx}:{sid}", len(lines) + 2, dynp,
                          twice=" = " in sid)
    elif kind == "v2pair":
        _, kmax, lo, hi, stride, dynp = task
        rs = rich(kmax)
        m = len(rs)
        for idx in range(lo, hi):
            i, j = divmod(idx, m)
            dyn = dynp if (stride and idx % stride == 0) else None
            do_v2_program(acc, gen.pair_v2(rs[i][1], rs[j][1]), f"v2pair:{rs[i][0]}+{rs[j][0]}", 4, dyn)
    elif kind == "v2cur":
        for i, src in enumerate(gen.CURATED_V2):
            do_v2_program(acc, src, f"v2curated:#{i}", 0, task[1])
    elif kind == "v1ctl":
        _, n, lo, hi = task
        blocks = gen.V1_BLOCKS(n, False)
        for i in range(lo, hi):
            do_v1_program(acc, gen.render_v1(blocks[i]), f"v1ctl:n={n}:#{i}", n)
    elif kind == "v1rich":
        for ctx in gen.V1_CONTEXTS:
            for lines in gen.V1_RICH:
                do_v1_program(acc, gen.in_context_v1(ctx, lines), f"v1rich:{ctx}:{lines[0]}", len(lines) + 2)
        for l1 in gen.V1_RICH:
            for l2 in gen.V1_RICH:
                do_v1_program(acc, gen.pair_v1(l1, l2), f"v1pair:{l1[0]}+{l2[0]}", 4)
    elif kind == "whenfam":
        _, version, mc, ml = task
        for key, src in gen.when_family(version, mc, ml):
            if version == "1.0":
                do_v1_program(acc, src, f"v1when:{key}", sum(key[1]))
            else:
                do_v2_program(acc, src, f"v2when:{key}", sum(key[1]), task_dyn(key))
    elif kind == "v1goto":
        _, length, lo, hi = task
        seqs = gen.goto_sequences(length)
        for i in range(lo, hi):
            for ctx in gen.GOTO_CONTEXTS:
                acc.add("v1_goto_programs")
                acc.add("v1_goto_statements", gen.n_gotos(seqs[i]))
                do_v1_program(acc, gen.render_goto_v1(seqs[i], ctx), f"v1goto:{ctx}:{'.'.join(seqs[i])}", length)
    elif kind == "v1meta":
        _, n, lo, hi, full = task
        structs = gen.v1_meta_structures(n)
        for i in range(lo, hi):
            for header, _ in gen.V1M_HEADERS:
                for phase in range(len(gen.V1M_PRIO_FORMS)):
                    src, body = gen.render_v1_meta(structs[i], header, phase)
                    acc.add("v1_meta_programs")
                    ok = do_v1_program(acc, src, f"v1meta:n={n}:#{i}:{header}:{phase}", n,
                                       dynamic_body=body if header == "flow" else None,
                                       full_runtime=full and phase == 0)
                    if ok and not any(x["kind"] == "v1-meta-program" for x in acc.samples) and n >= 3:
                        acc.samples.append({"kind": "v1-meta-program", "origin": f"v1meta:n={n}:#{i}:{header}:{phase}",
                                            "program": src, "paths": ["parser output", "host loader"]
                                            + (["runtime.flow_configs"] if full and phase == 0 else [])
                                            + (["start_flow event"] if header == "flow" else [])})
    elif kind == "whenor":
        _, max_body, lo, hi, dynp = task
        fam = whenor(max_body)
        for i in range(lo, hi):
            key, src = fam[i]
            acc.add("v2_when_or_group_programs")
            # interpreter binding for the one-case forms (the case body is emitted once per or-group there too)
            do_v2_program(acc, src, "v2whenor:" + ":".join(str(x) for x in key), key[1] + 2,
                          dynp if not key[4] else None)
    elif kind == "v2edge":
        _, kmax, ctx, lo, hi, dynp = task
        es = edge(kmax)
        for i in range(lo, hi):
            sid, lines, meta = es[i]
            acc.add("v2_edge_programs")
            # interpreter binding for the bare loop exits (the other accepted statements are those of the rich family)
            ok = do_v2_program(acc, gen.in_context_v2(ctx, lines), f"v2edge:{ctx}:{sid}", len(lines) + 2,
                               dynp if meta["op"] == "loop-exit" else None, twice=meta["form"] == "assign")
            acc.add(f"v2_edge_{'accepted' if ok else 'rejected'}__{meta['op']}")
            acc.add("v2_edge_programs_accepted_and_checked" if ok else "v2_edge_programs_rejected_by_loader")
    elif kind == "v2nop":
        _, n, lo, hi, dynp, nphases = task
        structs = gen2.nop_structures(n)
        for i in range(lo, hi):
            bare = gen2.n_nop_only_bodies(structs[i])
            for phase, pname in enumerate(gen2.NOP_PHASES[:nphases]):
                acc.add("v2_nop_programs")
                src = gen2.render_nop(structs[i], phase)
                ok = do_v2_program(acc, src, f"v2nop:n={n}:#{i}:{pname}", n, dynp, twice=True)
                if ok:
                    acc.add("v2_nop_programs_accepted_and_checked")
                    if bare:
                        acc.add("v2_nop_programs_with_a_body_of_nothing_else")
                        acc.add("v2_nop_bodies_of_nothing_else", bare)
                    if bare and n >= 3 and not any(x["kind"] == "v2-nop-program" for x in acc.samples):
                        acc.samples.append({"kind": "v2-nop-program", "origin": f"v2nop:n={n}:#{i}:{pname}",
                                            "program": src, "bodies_without_any_effect": bare})
                else:
                    acc.add("v2_nop_programs_rejected_by_loader")
    elif kind == "v1comb":
        if task[1] == "pairs":
            _, _, nmax, lo, hi, full_sum = task
            do_comb_pairs(acc, nmax, lo, hi, full_sum)
        else:
            _, _, n, lo, hi = task
            do_comb_edits(acc, n, lo, hi)
    elif kind == "file":
        do_file(acc, task[1])
    else:
        raise ValueError(task)
    r = acc.result()
    r["task"] = task[:2] if kind != "file" else ("file",)
    r["cpu"] = time.process_time() - t0
    return r


def _chunks(n, size):
    return [(lo, min(n, lo + size)) for lo in range(0, n, size)]


def tasks(tier):
    t = TIERS[tier]
    dynp = {"depth": t["depth"], "max_steps": t["max_steps"]}
    # the curated programs are few: longer histories (two loop iterations)
    out = [("v2cur", {"depth": max(6, t["depth"]), "max_steps": 1500}), ("v1rich",)]
    out += [("whenfam", "1.0", 3 if tier == "quick" else 4, 3), ("whenfam", "2.x", 3 if tier == "quick" else 4, 3 if tier == "quick" else 2)]
    for n in range(1, t["nop_bound"] + 1):
        full = n <= t["nop_full"]   # beyond: the comment spelling only, no interpreter runs
        for lo, hi in _chunks(len(gen2.nop_structures(n)), 6 if full else 24):
            out.append(("v2nop", n, lo, hi, dynp if full else None, len(gen2.NOP_PHASES) if full else 1))
    for lo, hi in _chunks(len(gen2.comb_programs(t["comb_pairs"])), 6):
        out.append(("v1comb", "pairs", t["comb_pairs"], lo, hi, t["comb_full"]))
    for n in range(1, t["comb_edits"] + 1):
        for lo, hi in _chunks(len(gen.V1_BLOCKS(n, False)), 40):
            out.append(("v1comb", "edits", n, lo, hi))
    for n in range(1, t["v1meta_bound"] + 1):
        full = n <= t["v1meta_full"]
        for lo, hi in _chunks(len(gen.v1_meta_structures(n)), 8 if full else 64):
            out.append(("v1meta", n, lo, hi, full))
    me = len(edge(t["edge_kmax"]))
    for ctx in gen.V2_CONTEXTS:
        for lo, hi in _chunks(me, 64):
            out.append(("v2edge", t["edge_kmax"], ctx, lo, hi, dynp))
    files = F.all_co_files()
    for i, rel in enumerate(files):
        if i % t["files_stride"] == 0:
            out.append(("file", rel))
    for length in range(1, t["goto_len"] + 1):
        for lo, hi in _chunks(len(gen.goto_sequences(length)), CHUNK):
            out.append(("v1goto", length, lo, hi))
    for lo, hi in _chunks(len(whenor(t["whenor_body"])), 32):
        out.append(("whenor", t["whenor_body"], lo, hi, {"depth": 3, "max_steps": t["max_steps"] // 2}))
    for n in range(1, t["v1_bound"] + 1):
        for lo, hi in _chunks(len(gen.V1_BLOCKS(n, False)), CHUNK * 8):
            out.append(("v1ctl", n, lo, hi))
    for n in range(1, t["v2_bound"] + 1):
        stride = 1 if n <= t["v2_dyn_all"] else t["v2_dyn_stride"].get(n, 0)
        size = CHUNK // 8 if stride == 1 else CHUNK
        for lo, hi in _chunks(len(gen.V2_BLOCKS(n, False)), size):
            out.append(("v2ctl", n, lo, hi, stride, dynp, t["paths_stride"].get(n, 1)))
    m = len(rich(t["kmax"]))
    for ctx in gen.V2_CONTEXTS:
        for lo, hi in _chunks(m, 24):
            out.append(("v2rich", t["kmax"], ctx, lo, hi, dynp if t["rich_dyn"] else None))
    if t["pairs"]:
        mp = len(rich(3))
        for lo, hi in _chunks(mp * mp, CHUNK):
            out.append(("v2pair", 3, lo, hi, 64, dynp))
    return out, len(files)


# =========================================================================== run
def run(rep, tier):
    t = TIERS[tier]
    D.install()
    runtime_host()     # built once here, the workers inherit it
    L.host()
    tk, nfiles = tasks(tier)
    planned = {}
    for x in tk:
        planned[x[0]] = planned.get(x[0], 0) + 1
    if rep.seed:
        import random
        # the seed only perturbs the order in which chunks are handed to the workers
        # (the small families at the front - curated, 1.0 rich, when families, edge family - stay there, so that a
        # time cap under load drops the same kind of chunk for every seed)
        nh = 0
        while nh < len(tk) and tk[nh][0] in ("v2cur", "v1rich", "whenfam", "v2nop", "v1comb", "v1meta", "v2edge"):
            nh += 1
        head, tail = tk[:nh], tk[nh:]
        random.Random(rep.seed).shuffle(tail)
        tk = head + tail
    deadline = time.time() + t["budget_s"]
    done = 0
    done_by_kind = {}
    cpu_by_kind = {}
    viol = []
    per_sig = {}
    rejects = {}
    sample_kinds = {}
    for res in par.pmap(work, tk, chunksize=1, deadline=deadline):
        done += 1
        k = res["task"][0]
        key = k if k not in ("v2ctl", "v1ctl", "v1goto", "v1meta", "v2nop", "v1comb") else f"{k}:{'n=' if k != 'v1comb' else ''}{res['task'][1]}"
        done_by_kind[key] = done_by_kind.get(key, 0) + 1
        cpu_by_kind[key] = cpu_by_kind.get(key, 0.0) + res["cpu"]
        c = dict(res["counts"])
        for mk in ("max_cfg_states_per_flow", "max_dyn_depth"):
            if mk in c:
                rep.set(mk, max(rep.cov.get(mk, 0), c.pop(mk)))
        rep.merge_counts(c)
        viol.extend(res["violations"])
        for s, n in res["per_sig"].items():
            per_sig[s] = per_sig.get(s, 0) + n
        for kk, vv in res["reject"].items():
            rejects.setdefault(kk, vv)
        for smp in res["samples"]:
            if sample_kinds.get(smp["kind"], 0) < 2:
                sample_kinds[smp["kind"]] = sample_kinds.get(smp["kind"], 0) + 1
                rep.sample(smp, limit=12)
    planned_by_kind = {}
    for x in tk:
        key = x[0] if x[0] not in ("v2ctl", "v1ctl", "v1goto", "v1meta", "v2nop", "v1comb") else f"{x[0]}:{'n=' if x[0] != 'v1comb' else ''}{x[1]}"
        planned_by_kind[key] = planned_by_kind.get(key, 0) + 1
    complete = done == len(tk)
    rep.set("worker_cpu_seconds_by_family", {k: round(v, 1) for k, v in sorted(cpu_by_kind.items())})
    rep.set("tasks_planned", len(tk))
    rep.set("tasks_done", done)
    rep.set("exhaustive", bool(complete))
    if not complete:
        full = sorted(k for k, n in planned_by_kind.items() if done_by_kind.get(k, 0) == n)
        rep.set("cap_hit", f"time budget {t['budget_s']}s: {done}/{len(tk)} chunks; fully covered: {full}")
    for k in ("states", "transitions", "traces_validated_against_impl"):
        rep.cov.setdefault(k, 0)
    # (the evidence schema wants `programs` to be a number: programs and files that were compiled and checked)
    rep.set("programs", rep.cov.get("v2_programs_checked", 0) + rep.cov.get("v1_programs_checked", 0)
            + rep.cov.get("files_checked", 0))
    rep.set("program_counts", {
        "v2_generated": rep.cov.get("v2_programs_generated", 0),
        "v2_checked": rep.cov.get("v2_programs_checked", 0),
        "v2_rejected_by_loader": rep.cov.get("v2_programs_rejected_by_loader", 0),
        "v2_run_on_interpreter": rep.cov.get("v2_programs_run_on_interpreter", 0),
        "v1_generated": rep.cov.get("v1_programs_generated", 0),
        "v1_checked": rep.cov.get("v1_programs_checked", 0),
        "v1_rejected_by_loader": rep.cov.get("v1_programs_rejected_by_loader", 0),
        "shipped_files_total": nfiles,
        "shipped_files_checked": rep.cov.get("files_checked", 0),
        "shipped_files_skipped_rejected_by_loader": rep.cov.get("files_skipped_rejected_by_loader", 0),
    })
    rep.set("bounds", {k: t[k] for k in ("v2_bound", "v1_bound", "kmax", "v2_dyn_all", "v2_dyn_stride",
                                          "depth", "max_steps", "pairs", "goto_len", "whenor_body", "paths_stride",
                                          "edge_kmax", "v1meta_bound", "v1meta_full", "nop_bound", "nop_full", "comb_pairs", "comb_edits",
                                          "comb_full")})
    rep.set("loader_rejections", {k: (v if len(str(v)) < 300 else str(v)[:300]) for k, v in
                                  sorted(rejects.items())[:40]})
    rep.set("violation_occurrences_by_signature", per_sig)
    rep.assumptions += [
        "2.x control grammar: all blocks of <=N nodes over {match | if[/else] | while | when[/or when][/else] | "
        "return | abort | break | continue} (terminators last in a block, break/continue only inside while); "
        "names assigned by occurrence; conditions are the marker `$c`",
        "2.x rich family: every rich statement (simple statements, and/or groups with <=kmax leaves for "
        "match/await/start/send/activate/deactivate, when-forms with group specs) in each of "
        f"{len(gen.V2_CONTEXTS)} nesting contexts; thorough also every ordered pair of rich statements (kmax 3)",
        "1.0 control grammar: all blocks of <=N nodes over {user | bot | if[/else] | while | when[/else when] | "
        "return | break | continue}; rich statements x contexts and all ordered pairs",
        f"1.0 checkpoints: all sequences of <= {t['goto_len']} atoms over {{statement | label a | checkpoint b | goto a | "
        "go to b | if: goto a | if: goto b | if: label a}} (a checkpoint defined at most once, every goto to a defined "
        f"checkpoint, before or after it, any number of gotos per checkpoint) in each of {len(gen.GOTO_CONTEXTS)} contexts",
        f"2.x `when` whose case is an or-group (4 group specs x one/two cases x with/without else) with every block of "
        f"the control grammar of <= {t['whenor_body']} nodes as case body and as else body, at top level and in a loop",
        f"2.x edge of the accepted language: every statement {{match | await | start | stop | activate | deactivate | send}} "
        f"x operand kind {{event | flow | action | variable reference | flow member event | reference member event}} x "
        f"group shape (all and/or trees of <= {t['edge_kmax']} leaves) as a statement and as the right side of an assignment, "
        "the same operands without an operator and as the case of a `when` / `or when`, and the bare loop exits (break, "
        f"continue, under an if), each in the {len(gen.V2_CONTEXTS)} nesting contexts - whether or not an expansion rule "
        "supports the combination. Oracle: the loader rejects the program (counted per operator), or every compiled "
        "flow is closed on all three loader paths",
        "`break` / `continue` outside of every loop compile to Break / Continue(label=None): a loop exit that names no "
        "target (nothing to point outside the flow); `slide` steps over it to the next element, which is an edge of the "
        "graph (counted: v2_loop_exits_without_label_outside_of_a_loop; the interpreter's step over it is bound by "
        "dyn_moves_over_loop_exit_without_label). Inside a while loop a label-less loop exit is a violation "
        "(v2:loop-exit-unresolved)",
        "loader paths (2.x), every generated program (control grammar sizes in bounds.paths_stride: every k-th) on all three: (a) configuration (flow list -> flow configs -> "
        "initialize_state), (b) initialize_state once more on the same flow configs (what the runtime does for every "
        "further state), (c) every flow of the program loaded into a running state with RuntimeV2_x._add_flows_action "
        "(AddFlowsAction; main renamed). A flow that arrives on (b)/(c) with the same compiled form (elements and label "
        "table equal up to renaming of generated uids) as the one explored on (a) has the same graph and is only "
        "counted; any other form is explored. Shipped files: (a) and (b); the second compilation is explored in full",
        "a label name may be defined by several Label elements (expansion of `when`; counted): the table keeps the "
        "last one, which is the position every reference denotes",
        "abstract state = (position, failure-handler stack, open scopes, registered fork uids); Goto with the "
        "constant expression \"True\" is always taken, any other expression may go both ways; scopes / "
        "handlers are tracked per path (heads of one flow are not modelled jointly); because EndScope removes "
        "the scope from every head of the flow, a concrete head may hold a subset of the abstract scope set "
        "(counted as dyn_moves_with_scope_closed_by_other_head)",
        "scopes and handlers must be closed where the flow ends by running off its last element; ends via "
        "`return` / uncaught `abort` are not constrained",
        "binding: every assignment to FlowHead.position made by run_to_completion during all event histories "
        "up to the stated depth (events of the program + Finished of pending actions; histories are pruned "
        "where an event moves no head; random.choice and `$c` outcomes enumerated, <=3 `$c` evaluations per "
        "step) must be an abstract edge and reach an abstract state; for 1.0 the real sliding.slide is called "
        "from every head with all expressions True / all False",
        "1.0 flows are checked as the runtime sees them: the parser's output with a leading meta element removed (the model "
        "of the loader), and EVERY 1.0 flow of every family and every shipped file is also handed to the loader of the "
        "runtime itself (RuntimeV1_0._load_flow_config of one host runtime): when FlowConfig.elements equals the modelled "
        "list the explored graph is the graph of the loaded flow (counted: v1_flows_loaded_same_form_as_explored), any other "
        "list is explored as it is - offsets, steps and the real sliding.slide on the loaded FlowConfig (signatures "
        "`...@loaded`)",
        f"1.0 declarations: all blocks of <= {t['v1meta_bound']} nodes of the 1.0 control grammar with a third leaf, a "
        "flow-level declaration statement (`priority N` / a `meta` block), that contain at least one declaration - at the "
        "top of the flow and in then / else blocks, while bodies, when branches - x flow header {define flow | define "
        "subflow | define extension flow} x which spelling comes first; checked as parsed, as loaded by the host loader, "
        f"for <= {t['v1meta_full']} nodes as held by a whole runtime built on the configuration (RuntimeV1_0(RailsConfig)."
        "flow_configs; LLMRails itself is not constructed - it starts a download thread), and (header `define flow`) as the "
        "flow a `start_flow` event with that body defines (RuntimeV1_0._get_flow_configs, signatures `...@start_flow-event`)",
        "a loaded 1.0 flow consists of steps only: elements slide has a rule for, branch, flow, run_action, event patterns; "
        "an element {_type: meta, meta: {...}} is a flow-level declaration (the loader's own contract is to move it to the "
        "FlowConfig), not a step (v1:non-primitive-left:meta). It is judged on the flow as loaded, never on the parser's "
        "output, so a loader that takes nested declarations out (and keeps the offsets right) passes",
        f"2.x statements without effect: all blocks of <= {t['nop_bound']} nodes of the 2.x control grammar with a second leaf "
        "`nop` (a comment line - which the parser turns into an empty statement of the block - or `pass`) that contain at "
        "least one: then / else / while / when-case / when-else bodies and flow bodies that hold nothing else (counted: "
        "v2_nop_bodies_of_nothing_else), and nops before / between / after statements and terminators; spellings: all "
        f"comments, all `pass`, alternating by occurrence for <= {t['nop_full']} nodes (with interpreter runs), the comment "
        "spelling beyond; every program on the three loader paths and compiled twice",
        f"1.0 combined configurations (`RailsConfig.__add__`, what the server builds for several config_ids): two real "
        f"configuration folders (config.yml `models: []` + flows.co) loaded with RailsConfig.from_path and joined with `+`; "
        f"both define the flow `t`. Pairs: all ordered pairs of programs of the 1.0 control grammar with <= {t['comb_pairs']} "
        f"nodes; edits: every program with <= {t['comb_edits']} nodes together with every copy that lacks one line (when the "
        "loader accepts the copy), in both orders. Oracle: every flow of (a + b).flows and every FlowConfig that "
        "RuntimeV1_0._init_flow_configs makes of that list (run on the host runtime; a whole RuntimeV1_0(a + b) for pairs of "
        f"together <= {t['comb_full']} nodes, which must hold the same) is closed: a flow that is element for element (source "
        "mapping included) a flow of a or of b has the graph explored for that configuration (counted), any other element "
        "list is explored as it is - offsets, steps, the real sliding.slide (signatures `...@combined-config`). 2.x "
        "configurations are not combined: `+` turns their Flow objects into dicts and RuntimeV2_x refuses the result",
        "programs the loader rejects are outside the property and only counted",
    ]
    # smallest program first per signature
    viol.sort(key=lambda v: (len(v["replay"].get("source") or "") or 10**7, v["what"]))
    kept = {}
    for v in viol:
        n = kept.get(v["signature"], 0)
        if n >= 3:
            continue
        kept[v["signature"]] = n + 1
        rep.violation(v["signature"], v["what"], v["replay"])


# =========================================================================== replay
def replay(rp):
    D.install()
    runtime_host()
    kind = rp.get("kind")
    print("signature:", rp.get("signature"))
    print("what     :", rp.get("what"))
    if kind in ("v2", "v2dyn"):
        path = rp.get("path")
        flow_id = rp["flow"]
        if rp.get("source") is not None:
            # "rejected by the loader or compiled into a closed flow" (edge family): a rejection is a pass
            try:
                compile_v2(rp["source"])
            except Exception as ex:
                print("program:\n" + rp["source"])
                print("expected: the loader rejects the program, or every compiled flow is closed")
                print(f"observed: the loader rejects it ({type(ex).__name__}: {str(ex)[:160]})")
                return 0
        if rp.get("source") is not None and path == "added":
            print("program (every flow loaded with AddFlowsAction into a running state, main renamed to "
                  f"`{ADDED_MAIN}`):\n" + rp["source"])
            st, added = add_at_runtime(rp["source"])
            print("flows added:", added)
        elif rp.get("source") is not None:
            print("program:\n" + rp["source"])
            st = compile_v2(rp["source"])
            if path == "reinit":
                print("(initialize_state once more on the same flow configs)")
                st = reinit_v2(st)
        else:
            print("file:", rp["file"])
            cwd = os.getcwd()
            os.chdir(F.REPO)
            try:
                flows = F.load_v2_unit(rp["file"])
                if not any(fl.name == "main" for fl in flows):
                    flows += v2x.parse_program("flow main\n  match VfNeverEvent()\n")["flows"]
                st = compile_v2(flows=flows)
            finally:
                os.chdir(cwd)
            if path == "reinit":
                print("(initialize_state once more on the same flow configs)")
                st = reinit_v2(st)
        if flow_id is None:
            print("expected: no exception; observed: see `what`")
            return 0
        fc = st.flow_configs[flow_id]
        cfg = G.explore(fc)
        marks = {p.detail.get("pos") for p in cfg.problems}
        print(f"compiled flow `{rp['flow']}` ({cfg.n} elements, {len(cfg.states)} abstract states):")
        print(G.describe(fc, marks))
        print("expected: no problems; observed:")
        for p in cfg.problems:
            print("  ", p.sig, "-", p.what)
        if not cfg.problems:
            print("   (none)")
        if kind == "v2dyn" and rp.get("history"):
            cfgs = {fid: G.explore(c) for fid, c in st.flow_configs.items()}
            hist = [(tuple(a), tuple(v)) for a, v in rp["history"]]
            for aev, moves in D.run_history(st, v2x.UIDS.n, hist):
                print("event", aev)
                for m in moves or []:
                    fid = D.flow_id_of(m[0])
                    ok = (m[1], m[2]) in cfgs[fid].edges if fid in cfgs else None
                    print(f"   {fid}: {m[1]} -> {m[2]} ({m[5]}) in model: {ok}")
    elif kind == "v1":
        L.host()
        path = rp.get("path")
        if rp.get("source") is not None:
            print("program:\n" + rp["source"])
            flows = parse_colang_file("t.co", rp["source"], include_source_mapping=False, version="1.0")["flows"]
        else:
            print("file:", rp["file"])
            flows = F.load_v1_file(rp["file"])

        def show(els):
            for i, el in enumerate(els):
                print(f"  {i:3d} {json.dumps({k: v for k, v in el.items() if k != '_source_mapping'})}")

        def report(probs, fid, els, fc=None):
            print("expected: every offset inside the flow, only steps in the loaded flow; observed:")
            for p in probs:
                print("  ", p.sig + V1_PATH_SUFFIX[path if fc is not None else None], "-", p.what)
            if not probs:
                ok, cyc, bad = D.v1_bind(fid, els, flow_config=fc)
                print("   static: none; slide binding mismatches:", bad)

        for f in flows:
            if f["id"] != rp["flow"]:
                continue
            if path == "dynamic":
                print("flow body carried by a start_flow event:\n" + rp["body"])
                fc = L.load_dynamic(f["id"], rp["body"])
                print(f"flow `{fc.id}` as RuntimeV1_0._get_flow_configs hands it to the interpreter:")
                show(fc.elements)
                report(G.v1_check(fc.id, fc.elements, raw=True, steps=True)[0], fc.id, fc.elements, fc)
                continue
            print("parser output, leading meta element removed (model of the loader):")
            show(G.v1_runtime_elements(f["elements"]))
            if path is None and "path" not in rp:
                probs = G.v1_check(f["id"], f["elements"])[0]
                report(probs, f["id"], f["elements"])
                continue
            if rp.get("loader") == "runtime":
                fc = L.load_runtime(rp["source"])[f["id"]]
                print("as held by RuntimeV1_0(RailsConfig.from_content(...)).flow_configs:")
            else:
                fc = L.load_host(f)
                print("as loaded by RuntimeV1_0._load_flow_config:")
            show(fc.elements)
            print(f"FlowConfig: priority={fc.priority} is_subflow={fc.is_subflow} is_extension={fc.is_extension}")
            if path is None:
                # same form as the modelled list: offsets from the parser output, steps from the loaded flow
                probs = G.v1_check(f["id"], f["elements"])[0] + G.v1_step_problems(f["id"], fc.elements)
                report(probs, f["id"], f["elements"])
            else:
                report(G.v1_check(fc.id, fc.elements, raw=True, steps=True)[0], fc.id, fc.elements, fc)
    elif kind == "v1comb":
        L.host()
        print("base configuration (flows.co):\n" + rp["base"])
        print("updated configuration (flows.co):\n" + rp["updated"])
        sc = CB.Scratch()
        try:
            base, updated = sc.load(rp["base"]), sc.load(rp["updated"])
        finally:
            sc.close()
        comb = CB.combine(base, updated)

        def show(els):
            for i, el in enumerate(els):
                print(f"  {i:3d} {json.dumps({k: v for k, v in el.items() if k != '_source_mapping'})}")

        print("expected: every flow of `base + updated` (and every flow the runtime loader makes of them) has all its "
              "offsets inside the flow; observed:")
        for idx, f in enumerate(comb.flows):
            print(f"(base + updated).flows[{idx}], id `{f.get('id')}`, {len(f['elements'])} elements:")
            show(f["elements"])
            probs = G.v1_check(f.get("id"), f["elements"])[0]
            for p in probs:
                print("  ", p.sig + COMB_SUFFIX, "-", p.what)
            if not probs:
                print("   static: none; slide binding mismatches:", D.v1_bind(f.get("id"), f["elements"])[2])
        for fid, fc in CB.runtime_flow_configs(comb).items():
            print(f"runtime flow config `{fid}` ({len(fc.elements)} elements):")
            probs = G.v1_check(fid, fc.elements, raw=True, steps=True)[0]
            for p in probs:
                print("  ", p.sig + "@loaded" + COMB_SUFFIX, "-", p.what)
            if not probs:
                print("   static: none; slide binding mismatches:", D.v1_bind(fid, fc.elements, flow_config=fc)[2])
    else:
        print("unknown replay kind", kind)
    return 0
