"""C02 / C01, Colang 2.x with the rails LISTED IN config.yml (`rails.input.flows` / `rails.output.flows`: the loader generates
`flow input rails $input_text` / `flow output rails $output_text` from the lists).  Every pair of lists over the rail names
{ra, rb, rc} (input: <= 2 rails, output: 1..2 rails, the same rail may be configured on both sides), 2-turn conversations
continued through `state`, every effective verdict vector of the output rails: the LLM-generated bot message is checked by
exactly the configured output rails, in the configured order; a rejected message is not in the reply.

A rail flow takes no parameter (as the shipped ones); the stub action reads the checked text from the context
(`$bot_message` / `$user_message`, set by the guardrails library) and is logged with a global sequence number, so the
invocations after the generating LLM call are the output-side ones."""
from __future__ import annotations

import itertools
import warnings

from vf.props import railsworld as rw

NAMES = ("ra", "rb", "rc")


def rail(name):
    return f"""
flow {name}
  $ok = await VerifCtxRailAction(rail="{name}")
  if not $ok
    bot say "REFUSED-{name}"
    abort
"""


MAIN = """
flow main
  activate handling

flow handling
  global $user_message
  user said something
  $text = ..."Answer the user: {$user_message}"
  bot say $text
"""


def llm_fn(task, prompt, i):
    return f'"LLMTEXT-{rw.digest(prompt)}x"'


def configs(tier):
    ins = [()] + [(a,) for a in NAMES[:2]] + [("ra", "rb"), ("rb", "ra")]
    outs = [o for n in (1, 2) for o in itertools.permutations(NAMES, n)]
    if tier == "quick":
        outs = [o for o in outs if o in {("ra",), ("rc",), ("ra", "rb"), ("rb", "ra"), ("ra", "rc"), ("rc", "ra")}]
        ins = [i for i in ins if i in {(), ("ra",), ("ra", "rb")}]
    return [("yaml", i, o) for i in ins for o in outs]


def explore(task):
    from vf.engines.world import World
    _t, ins, outs = task
    res = {"worlds": 1, "turns": 0, "conversations": 0, "rejections": 0, "rewrites": 0, "rail_calls": 0, "yaml_configured_worlds": 1, "viol": []}
    info0 = {"engine": "E3-world", "prop": "C02", "version": "2.x-yaml", "in": list(ins), "out": list(outs)}
    colang = "import core\nimport guardrails\n" + "".join(rail(n) for n in NAMES) + MAIN
    yaml = 'colang_version: "2.x"\nrails:\n'
    if ins:
        yaml += "  input:\n    flows: [" + ", ".join(ins) + "]\n"
    yaml += "  output:\n    flows: [" + ", ".join(outs) + "]\n"
    try:
        with warnings.catch_warnings():
            warnings.simplefilter("ignore")
            w = World(colang, yaml)
    except Exception as e:
        res["viol"].append(("world-rejected:v2:yaml-configured-rails", repr(e), info0))
        return res
    tag = "v2:yaml-configured-rails" + (":rail-on-both-sides" if set(ins) & set(outs) else "")

    async def ctx_rail(rail: str, context=None):
        c = context or {}
        rec = {"i": len(w.action_log), "seq": w._next_seq(), "action": "verif_ctx_rail", "rail": rail,
               "text": c.get("bot_message"), "user": c.get("user_message")}
        w.action_log.append(rec)
        side = "out" if len(w.llm.calls) > w.__dict__["_mark"] else "in"     # after this turn's generating LLM call: output side
        return w.verdicts.get((rail, side), "A") == "A"

    w.rails.register_action(ctx_rail, name="VerifCtxRailAction")
    w.rails.register_action(w._dialog_action, name="VerifLookupAction")
    # effective verdict vectors of the output rails (positions after a reject are irrelevant)
    vecs = []
    for n in range(len(outs) + 1):
        vecs.append(tuple("A" * n + ("R" if n < len(outs) else "")))
    for seq in itertools.product(vecs, repeat=2):
        state = {}
        res["conversations"] += 1
        for t, oc in enumerate(seq, start=1):
            user_text = f"U{t}y{'-'.join(''.join(x) for x in seq)}q hello"
            verdicts = {(r, "in"): "A" for r in NAMES}
            for r, k in zip(outs, oc):
                verdicts[(r, "out")] = k
            w.__dict__["_mark"] = len(w.llm.calls)
            turn = rw.run_turn(w, [{"role": "user", "content": user_text}], verdicts, llm_fn, state=state)
            res["turns"] += 1
            info = dict(info0, verdicts=["".join(x) for x in seq], turn=t)

            def bad(sig, what):
                res["viol"].append((f"{sig}:{tag}", what, info))

            if turn.exc is not None:
                bad("generate-raised", repr(turn.exc))
                break
            gen = [c for c in turn.llm_calls if "LLMTEXT-" in str(c.get("answer", ""))]
            if len(gen) != 1:
                bad("harness:generation-count", f"{len(gen)} generating LLM calls")
                break
            llm_text = str(gen[0]["answer"]).strip().strip('"')
            out_calls = [(a["rail"], a["text"]) for a in turn.actions if a.get("action") == "verif_ctx_rail" and a["seq"] > gen[0]["seq"]
                         and not str(a["text"]).startswith("REFUSED-")]
            in_calls = [a["rail"] for a in turn.actions if a.get("action") == "verif_ctx_rail" and a["seq"] < gen[0]["seq"]]
            res["rail_calls"] += len(out_calls) + len(in_calls)
            if in_calls != list(ins):
                bad("input-rail-sequence", f"configured input rails {list(ins)}, invoked before the generation: {in_calls}")
                break
            expected, rejected_by = [], None
            for r, k in zip(outs, oc):
                expected.append((r, llm_text))
                if k == "R":
                    rejected_by = r
                    break
            if out_calls != expected:
                bad("output-rail-sequence", f"configured output rails {list(outs)}, verdicts {''.join(oc)}: LLM text {llm_text!r} was checked by {out_calls}, expected {expected}; reply {turn.text!r}")
                break
            if rejected_by:
                res["rejections"] += 1
                if llm_text in (turn.text or ""):
                    bad("rejected-text-in-reply", f"rail {rejected_by} rejected {llm_text!r} but the reply is {turn.text!r}")
                    break
                if turn.text != f"REFUSED-{rejected_by}":
                    bad("reply-is-not-the-refusal", f"rail {rejected_by} rejected; reply {turn.text!r}")
                    break
            elif turn.text != llm_text:
                bad("reply-is-not-the-checked-text", f"all output rails approved {llm_text!r}; reply {turn.text!r}")
                break
            state = turn.reply.state
    seen, uniq = set(), []
    for v in res["viol"]:
        if v[0] not in seen:
            seen.add(v[0])
            uniq.append(v)
    res["viol"] = uniq
    return res
