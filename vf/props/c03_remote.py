"""C03 - actions executed on a remote actions server (`actions_server_url`), Colang 1.0 and 2.x.

The runtimes talk to the server with `aiohttp.ClientSession().post(<url>/v1/actions/run, json=...)`.  Here the name
`aiohttp` of the two runtime modules is bound to a shim whose `ClientSession` is an in-process stand-in: a request is
answered by the world's own stub actions (so every invocation is logged and follows the verdict script) the way
`nemoguardrails/actions_server/actions_server.py` answers - `200 {"status": "success"|"failed", "result": ...}` - and,
at a faulted invocation, with one of the other answers a server / the network can give:

  raise        the remote action raises: the server's dispatcher contains it -> 200 {"status": "failed", "result": null}
  none         200 {"status": "success", "result": null}
  srv:500      HTTP 500, text/plain body (the request handler itself blew up / response validation failed)
  srv:404      HTTP 404 (wrong deployment behind the URL)
  srv:html     HTTP 200 with an HTML page (a proxy's error page): `resp.json()` -> aiohttp.ContentTypeError
  srv:badjson  HTTP 200, content type application/json, body is not JSON: `resp.json()` -> json.JSONDecodeError
  srv:connect  nothing listens: aiohttp.ClientConnectorError
  srv:timeout  no answer in time: asyncio.TimeoutError

The exception classes are the real aiohttp / json ones; `conformance()` binds the stand-in to the real client by
sending the same request to a real loopback server with the real `aiohttp.ClientSession`.
"""
from __future__ import annotations

import asyncio
import json

import aiohttp as _aiohttp
import yarl
from multidict import CIMultiDict, CIMultiDictProxy

SRV_KINDS = ("srv:500", "srv:404", "srv:html", "srv:badjson", "srv:connect", "srv:timeout")
REMOTE_KINDS = ("raise", "none") + SRV_KINDS
_WORLDS = {}          # port -> World
_PORT = [20000]


def answer_for(world, data):
    """(status, content_type, body) | exception instance - what the (virtual) server / network answers"""
    name, params = data["action_name"], data["action_parameters"]
    n0 = len(world.action_log)
    status, result = "success", None
    try:
        if name in ("verif_rail", "VerifRailAction"):
            result = world._rail_sync(**params)
        elif name in ("verif_lookup", "VerifLookupAction"):
            result = world._dialog_sync(**params)
        else:
            return 200, "application/json", json.dumps({"status": "failed", "result": None})
    except Exception:     # noqa - the server's dispatcher contains an exception of the action
        status, result = "failed", None
    rec = world.action_log[n0] if len(world.action_log) > n0 else {}
    kind = rec.get("fault") or ""
    if kind == "srv:500":
        return 500, "text/plain", "Internal Server Error"
    if kind == "srv:404":
        return 404, "application/json", json.dumps({"detail": "Not Found"})
    if kind == "srv:html":
        return 200, "text/html", "<html><body>502 Bad Gateway</body></html>"
    if kind == "srv:badjson":
        return 200, "application/json", "{\"status\": \"success\", \"result\": tru"
    if kind == "srv:connect":
        ck = _aiohttp.client_reqrep.ConnectionKey
        key = ck(*(["127.0.0.1", 9, False, True] + [None] * (len(ck._fields) - 4)))
        return _aiohttp.ClientConnectorError(key, OSError(111, "Connect call failed ('127.0.0.1', 9)"))
    if kind == "srv:timeout":
        return asyncio.TimeoutError()
    return 200, "application/json", json.dumps({"status": status, "result": result})


class _Response:
    def __init__(self, url, status, content_type, body):
        self.url, self.status, self.content_type, self._body = url, status, content_type, body

    async def text(self):
        return self._body

    async def json(self):
        if "json" not in self.content_type:
            info = _aiohttp.RequestInfo(yarl.URL(self.url), "POST", CIMultiDictProxy(CIMultiDict()), yarl.URL(self.url))
            raise _aiohttp.ContentTypeError(info, (), status=self.status,
                                            message="Attempt to decode JSON with unexpected mimetype: " + self.content_type,
                                            headers=CIMultiDictProxy(CIMultiDict({"Content-Type": self.content_type})))
        return json.loads(self._body)


class _Request:
    def __init__(self, url, data):
        self.url, self.data = url, data

    async def __aenter__(self):
        await asyncio.sleep(0)
        world = _WORLDS[yarl.URL(self.url).port]
        ans = answer_for(world, json.loads(json.dumps(self.data)))     # (the parameters travel as JSON)
        if isinstance(ans, BaseException):
            raise ans
        return _Response(self.url, *ans)

    async def __aexit__(self, *exc):
        return False


class StandInSession:
    def __init__(self, *a, **kw):
        pass

    async def __aenter__(self):
        return self

    async def __aexit__(self, *exc):
        return False

    def post(self, url, json=None, **kw):
        return _Request(str(url), json)


class _Shim:
    """the module `aiohttp` with another ClientSession"""
    ClientSession = StandInSession

    def __getattr__(self, name):
        return getattr(_aiohttp, name)


def install():
    import nemoguardrails.colang.v1_0.runtime.runtime as r1
    import nemoguardrails.colang.v2_x.runtime.runtime as r2
    for mod in (r1, r2):
        if not isinstance(mod.aiohttp, _Shim):
            mod.aiohttp = _Shim()


def serve(world_factory):
    """world_factory(extra_yaml) -> World; the world's non-system actions are executed `remotely`"""
    install()
    _PORT[0] += 1
    world = world_factory(f'actions_server_url: "http://127.0.0.1:{_PORT[0]}"\n')
    _WORLDS[_PORT[0]] = world
    return world


# ----------------------------------------------------------------------------- binding to the real client
async def _client(session_cls, url, data):
    """the client code of `_get_action_resp`, reduced to what it observes"""
    try:
        async with session_cls() as session:
            async with session.post(url, json=data) as resp:
                if resp.status != 200:
                    return ("status", resp.status)
                return ("json", await resp.json())
    except Exception as e:     # noqa
        return ("exception", type(e).__name__, isinstance(e, _aiohttp.ClientError))


def conformance():
    """-> (n_compared, [mismatch descriptions], note).  Every answer of the alphabet except the timeout (the real
    client waits 300 s) is served by a real aiohttp server on the loopback interface and fetched with the real
    ClientSession; the stand-in has to show the client the same status / JSON / exception class."""
    from aiohttp import web

    class W:      # a minimal world: one scripted invocation per request
        def __init__(self):
            self.action_log, self.kind = [], ""

        def _rail_sync(self, rail, text=None):
            rec = {"i": len(self.action_log), "rail": rail, "text": text}
            self.action_log.append(rec)
            if self.kind == "raise":
                rec["fault"] = "raise"
                raise RuntimeError("x")
            if self.kind:
                rec["fault"] = self.kind
                return None
            return True

    data = {"action_name": "verif_rail", "action_parameters": {"rail": "in1", "text": "hello"}}
    kinds = ("",) + tuple(k for k in REMOTE_KINDS if k not in ("srv:timeout",))

    async def main():
        real_world, fake_world = W(), W()

        async def handler(request):
            ans = answer_for(real_world, await request.json())
            return web.Response(status=ans[0], content_type=ans[1], text=ans[2])

        app = web.Application()
        app.router.add_post("/v1/actions/run", handler)
        runner = web.AppRunner(app)
        await runner.setup()
        site = web.TCPSite(runner, "127.0.0.1", 0)
        await site.start()
        port = site._server.sockets[0].getsockname()[1]
        fake_port = 19999
        _WORLDS[fake_port] = fake_world
        out = []
        try:
            for kind in kinds:
                real_world.kind = fake_world.kind = kind
                if kind == "srv:connect":
                    await runner.cleanup()          # nothing listens on that port any more
                real = await _client(_aiohttp.ClientSession, f"http://127.0.0.1:{port}/v1/actions/run", data)
                fake = await _client(StandInSession, f"http://127.0.0.1:{fake_port}/v1/actions/run", data)
                out.append((kind or "ok", real, fake))
        finally:
            _WORLDS.pop(fake_port, None)
            await runner.cleanup()
        return out

    loop = asyncio.new_event_loop()
    try:
        out = loop.run_until_complete(main())
    except OSError as e:
        return 0, [], f"no loopback socket available ({e!r}): stand-in not compared with the real client"
    finally:
        loop.close()
    bad = [f"{k}: real client saw {r}, stand-in shows {f}" for k, r, f in out if r != f]
    return len(out), bad, ""
