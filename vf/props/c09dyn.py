"""C09 family D - flows added, replaced or removed while instances are waiting; several conversations on one runtime.

World = one real `RuntimeV2_x` (its table of flows) + the `State` objects of up to two conversations it serves.
A transition is one real `RuntimeV2_x.process_events([event], state_of_conversation)` call (or the opening of the second
conversation, `process_events([], None)`).  The programs are controllers whose activated command flows perform the
dynamic-flow operations of the runtime on a *target* flow name on request:

    CmdAdd1 / CmdAdd2   `await AddFlowsAction(config=<definition 1 / definition 2 of the target name>)`
    CmdStart            `send StartFlow(flow_id=<target>)`
    CmdRemove           `await RemoveFlowsAction(flow_ids=[<target>])`
    EvA / EvB           the events the two definitions wait for

and the target is (per program) a name that only exists dynamically, a flow of the configuration that nobody started, one
that main activated, or one that a holder flow awaits.  ALL histories over this alphabet (x conversation, for two
conversations) up to the length bound are enumerated breadth first, every outcome of every random tie-break included,
states de-duplicated on a canonical dump of the whole world.  After EVERY call the C09 predicates (c09.problems) are
evaluated on the State of EVERY conversation of the world - the one that processed the event and the bystander - and an
exception escaping a `run_to_completion` inside the call is recorded (the programs have no faulty statement).

Copies of the world are taken with ONE deepcopy of (table of the runtime, states), so whatever the implementation shares
between the runtime and its conversations stays shared in the copy and nothing else becomes shared; a sample of the
nodes is re-built from scratch (fresh table, fresh conversations, same history) and must give the same dump.
"""
from __future__ import annotations

import asyncio
import copy
import hashlib
import os
from collections import deque

from vf.engines import v2x
from vf.engines.v2x import sm

# ----------------------------------------------------------------------------------------------------------- programs
_DEF1 = ["match EvA()", "send D1GotA()", "match EvA() or EvB()", "send D1Second()", "match EvB()", "send D1Done()"]
_DEF2 = ["send D2Started()", "match EvB()", "send D2GotB()", "match EvA()", "send D2Done()"]


def _flow(name, body):
    return f"flow {name}\n" + "".join(f"  {l}\n" for l in body)


def _lit(name, body):
    """Colang string literal holding the source of a flow."""
    return '"' + _flow(name, body).replace("\\", "\\\\").replace('"', '\\"').replace("\n", "\\n") + '"'


def _commands(target):
    return (
        '@loop("c_add1")\nflow cmd add1\n  match CmdAdd1()\n'
        f"  $src = {_lit(target, _DEF1)}\n  $r = await AddFlowsAction(config=$src)\n  send Added(n=len($r), which=1)\n\n"
        '@loop("c_add2")\nflow cmd add2\n  match CmdAdd2()\n'
        f"  $src = {_lit(target, _DEF2)}\n  $r = await AddFlowsAction(config=$src)\n  send Added(n=len($r), which=2)\n\n"
        # (a flow does not outlive the flow that asked for its start: the starter lives for ever)
        f'@loop("c_start")\nflow cmd start\n  while True\n    match CmdStart()\n    send StartFlow(flow_id="{target}")\n\n'
        f'@loop("c_rem")\nflow cmd remove\n  match CmdRemove()\n  await RemoveFlowsAction(flow_ids=["{target}"])\n  send Removed()\n\n'
    )


_ACTIVATE = "  activate cmd add1\n  activate cmd add2\n  activate cmd start\n  activate cmd remove\n"

PROGRAMS = {
    # the target name exists only through AddFlowsAction
    "dynamic-only": _commands("tgt") + "flow main\n" + _ACTIVATE + "  match Never()\n",
    # the target is a flow of the configuration; instances only on request
    "configured-idle": _commands("tgt") + _flow("tgt", _DEF1) + "\nflow main\n" + _ACTIVATE + "  match Never()\n",
    # ... activated by main: a waiting instance from the first call on
    "configured-activated": _commands("tgt") + _flow("tgt", _DEF1) + "\nflow main\n" + _ACTIVATE + "  activate tgt\n  match Never()\n",
    # ... awaited by a holder flow (parent / child link, the holder waits for the instance's end)
    "configured-awaited": _commands("tgt") + _flow("tgt", _DEF1)
    + "\nflow holder\n  await tgt\n  send HolderContinued()\n  match Never()\n\nflow main\n" + _ACTIVATE + "  start holder\n  match Never()\n",
}

EVENTS = ["CmdAdd1", "CmdAdd2", "CmdStart", "CmdRemove", "EvA", "EvB"]

_OP = {"CmdAdd1": "AddFlows", "CmdAdd2": "AddFlows", "CmdStart": "StartFlow", "CmdRemove": "RemoveFlows", "EvA": "event", "EvB": "event", "open": "open-conversation"}


# -------------------------------------------------------------------------------------------------------------- world
class World:
    __slots__ = ("table", "states", "uid_n", "hist", "depth")

    def __init__(self, table, states, uid_n, hist, depth):
        self.table, self.states, self.uid_n, self.hist, self.depth = table, states, uid_n, hist, depth


_RT = {}
_LOOP = [None]
_RAISED: list = []
_WRAPPED = [False]


def _loop():
    if _LOOP[0] is None or _LOOP[0].is_closed():
        _LOOP[0] = asyncio.new_event_loop()
    return _LOOP[0]


def _install_recorder():
    """run_to_completion as called by process_events, with a recorder of escaping exceptions (process_events itself
    turns them into ColangError events)."""
    if _WRAPPED[0]:
        return
    from nemoguardrails.colang.v2_x.runtime import runtime as rmod

    orig = rmod.run_to_completion

    def recorded(state, event):
        try:
            return orig(state, event)
        except Exception as e:  # noqa
            name = event["type"] if isinstance(event, dict) else getattr(event, "name", "?")
            _RAISED.append((name, type(e).__name__, str(e)[:160], len(state.internal_events)))
            raise

    rmod.run_to_completion = recorded
    _WRAPPED[0] = True


def runtime_for(prog):
    """The runtime of a program and a pristine copy of its table of flows."""
    if prog not in _RT:
        from nemoguardrails import RailsConfig
        from nemoguardrails.colang.v2_x.runtime.runtime import RuntimeV2_x

        v2x.UIDS.n = 0
        cfg = RailsConfig.from_content(colang_content=PROGRAMS[prog], yaml_content='colang_version: "2.x"\n')
        rt = RuntimeV2_x(cfg)
        _RT[prog] = (rt, copy.deepcopy(rt.flow_configs), v2x.UIDS.n)
    return _RT[prog]


def _copy_world(w: World):
    memo = {}
    for st in w.states:
        if st is not None and st.rails_config is not None:
            memo[id(st.rails_config)] = st.rails_config
    # the compiled statements (AST nodes) are shared between copies; the FlowConfig objects, their element LISTS and every
    # table are copied.  (A statement modified in place would show up as a disagreement with the from-scratch replay.)
    for tbl in [w.table] + [st.flow_configs for st in w.states if st is not None]:
        for fc in tbl.values():
            for el in fc.elements:
                memo[id(el)] = el
    table, states = copy.deepcopy((w.table, w.states), memo)
    return table, list(states)


def _call(rt, table, states, conv, event, vector, uid_n):
    """One real process_events call in the given world (mutates table / states).  Returns outputs, choice points, uid counter,
    exceptions that escaped run_to_completion."""
    rt.flow_configs = table
    v2x.UIDS.n = uid_n
    v2x.CHOICE.begin(vector)
    del _RAISED[:]
    if event == "open":
        out, st = _loop().run_until_complete(rt.process_events([], None, blocking=True))
    else:
        out, st = _loop().run_until_complete(rt.process_events([{"type": event}], states[conv], blocking=True))
    while len(states) <= conv:
        states.append(None)
    states[conv] = st
    return [e["type"] for e in out], v2x.CHOICE.points[:], v2x.UIDS.n, list(_RAISED)


def root_world(prog):
    rt, pristine, uid0 = runtime_for(prog)
    table = copy.deepcopy(pristine)
    states = []
    out, points, uid_n, raised = _call(rt, table, states, 0, "open", [], uid0)
    return World(table, states, uid_n, (), 0), out, raised


def _table_sig(tbl, ref):
    return tuple((k, len(v.elements), (v.source_code or "")[:0]) for k, v in tbl.items()), (tbl is ref)


def world_key(w: World):
    parts = [repr(tuple((k, len(v.elements)) for k, v in w.table.items()))]
    for st in w.states:
        if st is None:
            parts.append("-")
            continue
        shared = [st.flow_configs is w.table] + [st.flow_configs is o.flow_configs for o in w.states if o is not None]
        parts.append(repr((v2x.dump_state(st), tuple((k, len(v.elements)) for k, v in st.flow_configs.items()), shared)))
    return hashlib.sha1(v2x.rename_uids("\n".join(parts)).encode()).hexdigest()


def world_dump(w: World):
    return v2x.rename_uids(repr([None if st is None else v2x.dump_state(st) for st in w.states]
                                + [sorted(w.table)] + [sorted(st.flow_configs) for st in w.states if st is not None]))


def replay_world(prog, hist):
    """From scratch: fresh table, fresh conversations, the same calls."""
    w, _, _ = root_world(prog)
    rt = runtime_for(prog)[0]
    outs = []
    for conv, event, vec in hist:
        out, points, uid_n, raised = _call(rt, w.table, w.states, conv, event, list(vec), w.uid_n)
        assert tuple(k for k, _ in points) == tuple(vec), ("HARNESS-NONDETERMINISM: choice points diverged during replay", points, vec)
        w.uid_n = uid_n
        outs.append((out, raised))
    return w, outs


# ------------------------------------------------------------------------------------------------------------- oracle
def _live(st, target="tgt"):
    return any(fs.flow_id == target and sm.is_listening_flow(fs) for fs in st.flow_states.values())


def _situation(prev: World, conv, event, target="tgt"):
    """History class of a call, from the world BEFORE it: which operation, on a name that is / is not defined in the calling
    conversation, with / without a waiting instance of that name there."""
    if event == "open":
        return "open-conversation"
    st = prev.states[conv]
    op = _OP[event]
    if op == "event":
        return "event"
    return (f"{op}({'defined' if target in st.flow_configs else 'undefined'}-name,"
            f"{'waiting-instance' if _live(st, target) else 'no-instance'})")


def judge(prev: World, nxt: World, conv, event, raised):
    """-> list of (signature | None, text, stats of one checked state | None)."""
    from vf.props import c09

    sit = _situation(prev, conv, event) if prev is not None else "open-conversation"
    out = []
    for i, st in enumerate(nxt.states):
        if st is None:
            continue
        if i == conv:
            where = "calling-conversation"
        else:
            before = prev.states[i] if prev is not None and i < len(prev.states) else None
            where = "other-conversation(" + ("with-waiting-instance" if before is not None and _live(before) else "no-instance") + ")"
        try:
            probs, stats = c09.problems(st)
        except Exception as e:  # the from-scratch scan itself cannot be computed
            probs, stats = [("scan-impossible:" + type(e).__name__, f"the scan of the running flows raised {e!r}")], {"waiting_heads": 0, "forked": 0}
        if probs:
            sig, txt = probs[0]
            more = sorted({s for s, _ in probs[1:]} - {sig})
            out.append((f"dynamic-flows:{sit}:{where}:{sig}",
                        f"after {event} in conversation {conv}: [{where}] {txt}" + (f" (also: {', '.join(more)})" if more else ""), stats))
        else:
            out.append((None, None, stats))
    for name, cls, msg, pending in raised:
        out.append((f"dynamic-flows:{sit}:event-processing-raised:{cls}",
                    f"{event} in conversation {conv}: run_to_completion({name}) raised {cls}: {msg} ({pending} internal events left pending)", None))
    return out


# ------------------------------------------------------------------------------------------------------------ explore
def alphabet(w: World, nconv):
    evs = []
    for c, st in enumerate(w.states):
        if st is not None:
            evs += [(c, e) for e in EVENTS]
    if len([s for s in w.states if s is not None]) < nconv:
        evs.append((len(w.states), "open"))
    return evs


def explore(task):
    """task = ("dyn", program, number of conversations, depth, salt, first) - first: only histories that begin with the
    first-th symbol of the root's alphabet (the partition of the history tree that makes the family parallel)"""
    _, prog, nconv, depth, salt, first_sym = task
    _install_recorder()
    rt = runtime_for(prog)[0]
    counts = {"states": 0, "transitions": 0, "traces_validated_against_impl": 0, "c09_states_checked": 0,
              "c09_states_with_2plus_waiting_heads": 0, "c09_states_with_forked_heads": 0, "tie_break_choice_points": 0,
              "dyn_calls": 0, "dyn_calls_with_waiting_instance_of_target": 0, "dyn_calls_checked_in_other_conversation": 0,
              "dyn_nodes_not_expanded_after_violation": 0}
    situations = {}
    viol = {}
    root, out0, raised0 = root_world(prog)
    seen = {world_key(root)}
    counts["states"] += 1
    root_bad = False
    for sig, txt, stats in judge(None, root, 0, "open", raised0):
        if stats is not None:
            counts["c09_states_checked"] += 1
        if sig is not None:
            root_bad = True
            viol.setdefault(sig, {"signature": sig, "what": f"[program {prog}] {txt}",
                                  "replay": {"engine": "E1-c09dyn", "prop": "C09", "program": prog, "source": PROGRAMS[prog], "history": []}})
    frontier = deque([] if root_bad else [root])
    while frontier:
        node = frontier.popleft()
        if node.depth >= depth:
            continue
        evs = alphabet(node, nconv)
        if node.depth == 0:
            evs = [evs[first_sym]]
        if salt:
            evs = evs[salt % len(evs):] + evs[:salt % len(evs)]   # the order of expansion must not matter
        for conv, event in evs:
            stack = [[]]
            first = True
            while stack:
                vec = stack.pop()
                table, states = _copy_world(node)
                out, points, uid_n, raised = _call(rt, table, states, conv, event, vec, node.uid_n)
                taken = [k for k, _ in points]
                for i in range(len(vec), len(points)):
                    for alt in range(1, points[i][1]):
                        stack.append(taken[:i] + [alt])
                if first:
                    counts["tie_break_choice_points"] += sum(1 for _, wd in points if wd > 1)
                    first = False
                nxt = World(table, states, uid_n, node.hist + ((conv, event, tuple(taken)),), node.depth + 1)
                counts["transitions"] += 1
                counts["dyn_calls"] += 1
                sit = _situation(node, conv, event)
                situations[sit] = situations.get(sit, 0) + 1
                if "waiting-instance" in sit or any(o is not None and _live(o) for o in node.states):
                    counts["dyn_calls_with_waiting_instance_of_target"] += 1
                bad = False
                for sig, txt, stats in judge(node, nxt, conv, event, raised):
                    if stats is not None:
                        counts["c09_states_checked"] += 1
                        if stats["waiting_heads"] >= 2:
                            counts["c09_states_with_2plus_waiting_heads"] += 1
                        if stats["forked"]:
                            counts["c09_states_with_forked_heads"] += 1
                    if sig is None:
                        continue
                    bad = True
                    if sig not in viol:
                        viol[sig] = {"signature": sig, "what": f"[program {prog}] {txt}",
                                     "replay": {"engine": "E1-c09dyn", "prop": "C09", "program": prog, "source": PROGRAMS[prog],
                                                "history": [[c, e, list(v)] for c, e, v in nxt.hist], "outputs_of_last_call": out}}
                if len(states) > 1 and states[0] is not None and states[1] is not None:
                    counts["dyn_calls_checked_in_other_conversation"] += 1
                if bad:
                    # the world is broken from here on: what follows is not evidence about anything else
                    counts["dyn_nodes_not_expanded_after_violation"] += 1
                    continue
                key = world_key(nxt)
                if int(key[:6], 16) % 11 == 0:
                    ref, _ = replay_world(prog, nxt.hist)
                    if world_dump(ref) != world_dump(nxt):
                        raise RuntimeError("HARNESS-NONDETERMINISM: copied world and from-scratch replay disagree\n" + prog + "\n" + repr(nxt.hist))
                    counts["traces_validated_against_impl"] += 1
                if key in seen:
                    continue
                seen.add(key)
                counts["states"] += 1
                frontier.append(nxt)
    return {"counts": counts, "violations": list(viol.values()), "situations": situations,
            "sample": {"dynamic_flow_program": prog, "conversations": nconv, "depth": depth, "first_symbol": first_sym, "states": counts["states"],
                       "transitions": counts["transitions"], "situations": dict(sorted(situations.items()))}}


def tasks(tier):
    salt = int(os.environ.get("VERIF_SEED", "0") or 0)
    out = []
    for p in PROGRAMS:
        for first in range(len(EVENTS)):
            out.append(("dyn", p, 1, 4 if tier == "quick" else 6, salt, first))
        for first in range(len(EVENTS) + 1):
            out.append(("dyn", p, 2, 3 if tier == "quick" else 5, salt, first))
    return out


def replay(rp):
    from vf.props import c09

    _install_recorder()
    prog = rp["program"]
    print("program:\n" + PROGRAMS[prog])
    hist = [(c, e, tuple(v)) for c, e, v in rp["history"]]
    for k in range(1, len(hist) + 1):
        w, outs = replay_world(prog, hist[:k])
        c, e, _ = hist[k - 1]
        print(f"call {k}: conversation {c} event {e} -> outputs {outs[-1][0]} escaping exceptions {outs[-1][1]}")
        for i, st in enumerate(w.states):
            if st is None:
                continue
            try:
                probs, _ = c09.problems(st)
            except Exception as ex:  # noqa
                probs = [("scan-impossible", repr(ex))]
            print(f"   conversation {i}: expected no problems; observed: {probs or '(none)'}")
    return 0
