"""C10 - part S: a faulty expression at EVERY statement kind x every control-flow neighbourhood (helper module of c10.py).

The statement quantifies over "every statement position at which an erroneous expression is injected".  Parts F / G vary
the fault and the moment; this part varies the *statement form* that carries the expression (assignment, return, if /
elif / while condition, log, print, priority, send / action / flow arguments, list / dict / string-interpolation
sub-expressions, global assignment, ...) and the *neighbourhood* of the statement (last statement of the flow, directly
before return / abort / break / continue, behind a skipped abort, in a loop body, in an if / else branch, behind the
`start_new_flow_instance:` label, behind a `send` of the same flow, ...).

Every program: the victim waits for E1 and then reaches the faulty statement; unrelated flows - each in an interaction
loop of its own - placed BEFORE and BEHIND the victim in the flow hierarchy react to the same event (E1) and to other
events (E2); a flow matching ColangError and a flow matching FlowFailed(victim) observe the report / the failure.  All
histories over {E1, E2, X} up to the length bound go through the real `RuntimeV2_x.process_events`.

Oracles (per history): nothing escapes, every call stays within the step budget, every unrelated flow emits exactly its
marker for every event, a ColangError is observable in the step in which the faulty statement is evaluated (and in no
other step), the victim instance fails in that step (FlowFailed observable) and never runs the statements behind the
faulty one, the flow awaiting the victim does not continue.
"""
from __future__ import annotations

import itertools

from vf import seams
from vf.props import c10 as base
from vf.props import c10_more as more

ind = base.ind

BAD_EXPRS = {
    "div-zero": "1/0",
    "attribute-missing-on-the-received-event": "$q.payload.value",
    "unknown-function": "nofunc(1)",
}

# statement forms that carry an expression; {B} = the faulty expression
KINDS = {
    "assignment": ["$x = {B}"],
    "global-assignment": ["global $gx", "$gx = {B}"],
    "function-argument": ["$x = str({B})"],
    "dict-value": ['$x = {"k": {B}}'],
    "string-interpolation": ['$x = "v={{B}}"'],
    "return": ["return {B}"],
    "if-condition": ["if {B}", "  send Never1()"],
    "elif-condition": ["if False", "  send Never1()", "elif {B}", "  send Never2()"],
    "while-condition": ["while {B}", "  match Never()"],
    "log": ["log {B}"],
    "print": ["print {B}"],
    "priority": ["priority {B}"],
    "send-argument": ["send Ev(p={B})"],
    "start-action-argument": ["start ActAAction(p={B})"],
    "await-action-argument": ["await ActAAction(p={B})"],
    "start-flow-argument": ["start helper({B})"],
    "await-flow-argument": ["await helper({B})"],
    "assignment-from-awaited-flow": ["$r2 = await helper({B})"],
}

# neighbourhoods of the faulty statement; {S} = the statement lines (indented as the placeholder line is)
CONTEXTS = {
    "plain": ["{S}", "send VictimAfter()", "match Never()"],
    "last-statement": ["{S}"],
    "before-return": ["{S}", "return 1"],
    "before-abort": ["{S}", "abort"],
    "behind-skipped-abort": ["if False", "  abort", "{S}", "send VictimAfter()", "match Never()"],
    "behind-skipped-return": ["if False", "  return 1", "{S}", "send VictimAfter()", "match Never()"],
    "in-loop-before-break": ["while True", "  {S}", "  break", "send VictimAfter()", "match Never()"],
    "in-loop-before-continue": ["$i = 0", "while $i < 2", "  $i = $i + 1", "  {S}", "  continue", "send VictimAfter()", "match Never()"],
    "in-loop-behind-skipped-continue": ["while True", "  if False", "    continue", "  {S}", "  break", "send VictimAfter()", "match Never()"],
    "behind-loop-left-by-break": ["while True", "  break", "{S}", "send VictimAfter()", "match Never()"],
    "in-if-branch": ["if True", "  {S}", "send VictimAfter()", "match Never()"],
    "in-else-branch": ["if False", "  send Never3()", "else", "  {S}", "send VictimAfter()", "match Never()"],
    "behind-new-instance-label": ["start_new_flow_instance:", "{S}", "send VictimAfter()", "match Never()"],
    "behind-send-of-the-same-flow": ["send VictimBefore()", "{S}", "send VictimAfter()", "match Never()"],
    "behind-started-action": ["start ActBAction()", "{S}", "send VictimAfter()", "match Never()"],
}
VICTIM_STARTS = ["start victim", "activate victim", "await wrapper"]


def _body(kind, ctx, expr):
    stmt = [l.replace("{B}", BAD_EXPRS[expr]) for l in KINDS[kind]]
    out = []
    for l in CONTEXTS[ctx]:
        if l.strip() == "{S}":
            pad = l[: len(l) - len(l.lstrip())]
            out += [pad + s for s in stmt]
        else:
            out.append(l)
    return out


_BY = "".join(f'@loop("{lp}")\nflow {lp}{k}\n  match E{k}()\n  send {mark}{k}()\n\n'
              for lp, mark in (("bya", "ByA"), ("byb", "ByB")) for k in (1, 2))
_WATCH = ('@loop("watch")\nflow errwatch\n  match ColangError() as $e\n  send ErrSeen(kind=$e.type)\n\n'
          '@loop("fwatch")\nflow failwatch\n  match FlowFailed(flow_id="victim")\n  send VictimFailed()\n')


def s_program(kind, ctx, expr, vstart):
    victim = "flow victim\n" + ind(["match E1() as $q"] + _body(kind, ctx, expr))
    helper = "flow helper $a\n  match Never()\n"
    wrapper = "flow wrapper\n  $r = await victim\n  send WrapperAfter()\n  match Never()\n"
    launcher = "flow launcher\n  " + vstart + "\n  match Never()\n"
    # hierarchy: bya* before the victim, byb* behind it
    main = ("flow main\n  activate errwatch\n  activate failwatch\n  activate bya1\n  activate bya2\n  start launcher\n"
            "  activate byb1\n  activate byb2\n  match Never()\n")
    return "\n".join([victim, helper, wrapper, _BY, _WATCH, launcher, main])


def s_task(task):
    kind, ctx, expr, vstart, maxlen = task
    src = s_program(kind, ctx, expr, vstart)
    fam = "faulty-statement"
    tail = f"{kind}:{ctx}:{vstart.split()[0]}"
    res = {"programs": 1, "histories": 0, "events": 0, "fault_reached": 0, "bystander_reactions": 0, "victim_failures_observed": 0,
           "stopped_early": 0, "error_kinds": {}, "viol": []}
    info0 = {"engine": "C10-M", "prop": "C10", "source": src, "family": fam, "case": tail, "expr": BAD_EXPRS[expr]}
    what0 = f"victim `match E1() as $q` + {_body(kind, ctx, expr)} ({vstart})"
    try:
        rt = base._runtime(src)
    except Exception as e:
        res["viol"].append((f"harness:program-rejected:{fam}:{kind}:{ctx}", repr(e)[:300], info0))
        return res
    n_el, _n = more._n_elements(rt, src)
    budget = 50 * (n_el + 10)
    drive = more._Drive(rt, budget)
    try:
        try:
            out0 = drive.start()
        except BaseException as e:
            if isinstance(e, (KeyboardInterrupt, SystemExit)):
                raise
            res["viol"].append((f"harness:start-failed:{fam}:{tail}", repr(e)[:300], dict(info0, events=[])))
            return res
        t0 = [o["type"] for o in out0]
        if any(t in ("ErrSeen", "VictimFailed") or t.startswith("By") for t in t0):
            res["viol"].append((f"colang-error-without-fault:{fam}:{tail}", f"{what0}: outputs of the start {t0}", dict(info0, events=[])))
        alpha = ["E1", "E2", "X"]
        hists = [h for n in range(1, maxlen + 1) for h in itertools.product(alpha, repeat=n)]
        if seams.SEED % 2:
            hists.reverse()
        for hist in hists:
            events = [{"type": t} for t in hist]
            info = dict(info0, events=events)
            res["histories"] += 1
            res["events"] += len(events)
            try:
                outs, _errs, _st = drive.run(events)
            except (seams.StepBudgetExceeded, base.WallClockExceeded) as e:
                res["viol"].append((f"non-termination:{fam}:{tail}", f"{what0}, history {list(hist)}: one run_to_completion exceeded the step budget {budget}: {type(e).__name__}", info))
                if isinstance(e, base.WallClockExceeded):
                    res["stopped_early"] = 1
                    break
                continue
            except Exception as e:
                res["viol"].append((f"exception-escapes-process_events:{fam}:{tail}", f"{what0}, history {list(hist)}: {type(e).__name__}: {e}", info))
                continue
            types = [[o["type"] for o in step] for step in outs]
            alive = True       # is there a victim instance waiting for E1?
            ok = True
            for i, t in enumerate(hist):
                want = {"E1": ["ByA1", "ByB1"], "E2": ["ByA2", "ByB2"], "X": []}[t]
                got = sorted(x for x in types[i] if x.startswith("By"))
                if got != want:
                    res["viol"].append((f"bystander-disturbed:{fam}:{tail}",
                                        f"{what0}, history {list(hist)}: on event #{i + 1} {t} the unrelated flows emitted {got}, expected {want}; outputs {types}", info))
                    ok = False
                    break
                res["bystander_reactions"] += len(want)
                reached = alive and t == "E1"
                n_err = types[i].count("ErrSeen")
                if reached:
                    if n_err == 0:
                        res["viol"].append((f"colang-error-not-reported:{fam}:{tail}",
                                            f"{what0}, history {list(hist)}: the faulty statement is evaluated on event #{i + 1} but no ColangError was observable; outputs {types}", info))
                        ok = False
                        break
                    res["fault_reached"] += 1
                    for o in outs[i]:
                        if o["type"] == "ErrSeen":
                            k = f"{expr}:{o.get('kind')}"
                            res["error_kinds"][k] = res["error_kinds"].get(k, 0) + 1
                    if "VictimFailed" not in types[i]:
                        res["viol"].append((f"faulty-flow-did-not-fail:{fam}:{tail}",
                                            f"{what0}, history {list(hist)}: the faulty statement is evaluated on event #{i + 1} but no FlowFailed event of the victim "
                                            f"was observable (the instance neither failed nor finished); outputs {types}", info))
                        ok = False
                        break
                    res["victim_failures_observed"] += 1
                    if not vstart.startswith("activate") and ctx != "behind-new-instance-label":
                        alive = False   # (the label has started the next instance before the statement failed)
                elif n_err or "VictimFailed" in types[i]:
                    res["viol"].append((f"colang-error-without-fault:{fam}:{tail}",
                                        f"{what0}, history {list(hist)}: event #{i + 1} {t} does not reach the faulty statement, yet {types[i]} was emitted; outputs {types}", info))
                    ok = False
                    break
            if ok:
                flat = [x for step in types for x in step]
                if "VictimAfter" in flat or "WrapperAfter" in flat or "Never1" in flat or "Never2" in flat:
                    res["viol"].append((f"victim-continued-after-fault:{fam}:{tail}", f"{what0}, history {list(hist)}: outputs {types}", info))
    finally:
        drive.close()
    res["viol"] = more._uniq(res["viol"])
    return res


def s_tasks(tier):
    maxlen = 2 if tier == "quick" else 3
    ts = []
    for kind, ctx, expr, vstart in itertools.product(KINDS, CONTEXTS, BAD_EXPRS, VICTIM_STARTS):
        if (kind, ctx) == ("elif-condition", "in-else-branch"):
            continue  # (the parser rejects an if / elif nested in an else branch that is followed by a two-level dedent: DedentError)
        if tier == "quick":
            # quick: every kind x every neighbourhood for one expression and the activated victim (every E1 reaches the
            # statement again); the other start forms and expressions for every kind in the plain / last-statement
            # neighbourhoods (the thorough tier runs the full product)
            full = expr == "div-zero" and vstart == "activate victim"
            if not full:
                if expr == "div-zero" and ctx not in ("plain", "last-statement"):
                    continue
                if expr != "div-zero" and (ctx != "plain" or vstart != "activate victim"):
                    continue
        ts.append((kind, ctx, expr, vstart, maxlen))
    return ts


def run_kinds(rep, tier, par):
    agg = {"programs": 0, "histories": 0, "events": 0, "fault_reached": 0, "bystander_reactions": 0, "victim_failures_observed": 0, "stopped_early": 0}
    kinds = {}
    ts = s_tasks(tier)
    results = sorted(par.pmap(_indexed, list(enumerate(ts))), key=lambda x: x[0])
    for _i, r in results:
        for sig, what, info in r["viol"]:
            rep.violation(sig, what, info)
        for k in agg:
            agg[k] += r[k]
        for k, v in r["error_kinds"].items():
            kinds[k] = kinds.get(k, 0) + v
    for k, v in agg.items():
        rep.set("statement_kind_" + k, v)
    rep.set("statement_kind_kinds", len(KINDS))
    rep.set("statement_kind_neighbourhoods", len(CONTEXTS))
    rep.set("statement_kind_reported_error_types", dict(sorted(kinds.items())))
    if agg["stopped_early"]:
        rep.set("exhaustive", False)
        rep.set("cap_hit", f"part S: {agg['stopped_early']} program(s) ran into the 30 s wall-clock back-stop; their remaining histories were not run")
    rep.assumptions.append(
        "part S (statement kinds): the victim reaches the faulty statement on E1; unrelated flows in their own interaction loops before and "
        "behind the victim in the hierarchy; statement kinds: " + ", ".join(KINDS) + "; neighbourhoods: " + ", ".join(CONTEXTS))
    return agg


def _indexed(t):
    return t[0], s_task(t[1])
