"""C14 - Colang 1.0 dialog flows are followed like structured programs.

Bounded exhaustive co-simulation of the real Colang 1.0 runtime (Colang text -> real parser -> a real
RuntimeV1_0 object: _init_flow_configs, _compute_next_steps = compute_next_steps, _process_start_action,
generate_events) against a boring reference interpreter over the generator's own program tree.

  programs   every program  `define flow f1: user u0; $c = 0; <block>`  [+ `define subflow s1: <block>`
             [+ `define subflow s2: <block>`]] + a fixed second flow f2, where <block> ranges over ALL
             statement trees with n nodes (smallest first) of four grammars (GRAMMARS):
               full : user <own intent> | bot <own msg> | $c = 0 | $c = 1 | $c = $c + 1 |
                      $r = execute <own action>(p=$c) | do s1 | if <cond> [else] | while $c < k
                      cond in {$c == 0, $c == 1, $r == 1}, k in {1, 2}
               nest : (deeper sizes, offsets only depend on the shape) bot | user | $c = $c + 1 |
                      if $c == 1 [else] | while $c < 2
               ctl  : bot | user | $c = $c + 1 | stop | break | continue | if $c == 1 [else] | while $c < 2 |
                      when user <i> ... [else when user <j> ...]    (1-2 branches, non-empty bodies)
               nsub : bot | user | $c = 1 | do <subflow> | if $c == 0/1 [else];  f1 calls s1, s1 calls s2
                      (so a subflow may START with `do s2`, and s2 may start with a user step)
             filtered to ordinary structured programs: every variable read is definitely assigned, every
             loop iteration waits for the user or increments the counter (no other assignment to it)
             before it can `continue`, break/continue only inside a loop, nothing after stop/break/
             continue in their block, `do` only with a subflow, subflows used when defined.
             Every user / bot / execute statement has its own name, intents of different flows are disjoint.
             `when/else when` and `stop` are in docs/user_guides (syntax guide, rails examples); `break` and
             `continue` are keywords of the v1 parser that the docs do not describe - they are given their
             conventional loop meaning and live in the `ctl` groups only.
             Groups of their own (run first):
               layout : every program with a block statement of grammar `lay` (= nest with conditions $c == 0 /
                        $c == 1) and every `ctl` program with a `when`, sizes 2-3 [2-4], written with EVERY
                        assignment of an indentation step in {2, 4} to the block kinds that occur in it (flow
                        body, then body, else body, while body, first when body, else-when bodies; a block is
                        indented relative to the line that opens it) except 2 everywhere.  The syntax guide calls
                        the syntax "pythonic ... indentation is used as a syntactic element" and only RECOMMENDS
                        two spaces: the program, hence the reference, is the same for every layout.
               aug    : `$c += e` / `$c -= e` (parser shorthands the docs do not describe; conventional meaning:
                        e is evaluated, then added / subtracted) for e in AUG_RHS (a constant, a variable, one
                        operator of equal / higher / lower precedence) after $c = 0 | 1 | 2, followed by nothing /
                        a bot step / an if on the assigned value [else].  The reference evaluates e with Python.
               loop   : while $c < k for k in {3, 6, 12} over five bodies, alone and followed by a bot step,
                        followed to the end (k = 3: also left at any point).
               res    : every program of sizes 3-4 [3-5] over bot | user | $r = execute <own action>(p=$c) | $r = 1 |
                        if $r == 1 / if $r / if not $r [else] | while $r (body runs an action) that executes an action
                        and reads $r, with EVERY scripted result in RES_VALUES (None, falsy and truthy values of the
                        JSON types) at every execution, <= max_acts executions per history: the variable gets a
                        result when it already has a value (from the set, from the statement reached again in the
                        loop or in a second run of the flow, from another execute statement).
               dyn    : flows that are not in the configuration but arrive IN THE HISTORY: the event
                        start_flow(flow_id, flow_body) (what generate_flow_from_instructions returns; generate_events
                        hands a history ending in it to _process_start_flow) with every block of sizes 1-3 [1-4] over
                        user | bot | $c = 0 | $c = 1 | $c = $c + 1 | if $c == 0/1 [else] | while $c < 2 that is a program
                        of its own as body, next to every `lay` program of size 1 as configured flow f1.  The event is
                        offered at every user point at which no flow is being followed and none was left; from then
                        on the flow it carries is followed / left like a configured one (the reference treats the
                        event as that flow's start intent).  Demanded: both clauses - in particular the decision for
                        a history that contains the event is the same on the runtime that processed the event in
                        an earlier call and on a fresh runtime that is handed the same history.
               expr   : the EXPRESSIONS of conditions and assignments (vf/props/c14_expr.py): after `$s = "a"`, every
                        `if e` [else] for every truth-valued expression e with <= 2 [<= 3] operators over "a" | "b c" |
                        $s | + | `x if b else y` | == | in | $c == 0/1 | not | or | and (quick: plus every `x or y` /
                        `x and y` of two comparisons), every `$k = e` for every text-valued expression with 1-2 [1-3]
                        operators (the value of $k is read from the context the host sees), `while e and $c < 2` /
                        `while $c < 2 and e` for the one-operator conditions, and `if e` over the fields of an action
                        result that is a JSON object (`$r.k == "a"`, `"a" in $r.l`, `len($r.l) == 2`, `$r.d.z == $s`,
                        ..., and every or / and of two of them).  The reference value of an expression is Python's
                        value of the same text.
               cont   : STATEMENTS WRITTEN OVER TWO LINES.  The line reader of the parser joins a line that ends with
                        ` or` or with a backslash with the next line; the statement is where its first line is.  Every
                        `lay` program of sizes 2-3 [2-4] with a block statement, written (a) with every condition as
                        `<cond> or $c == 7` cut after the ` or`, (b) with every condition and every `$c = $c + 1` cut before
                        its last word, the first line ending with a backslash; the second line indented by 0 / 2 / 4
                        relative to the first (CONT_HANGS: like the statement, like its body, hanging).  Same program,
                        same reference, whatever the layout; a program the parser rejects is a violation, too.
               undo   : A TURN TAKEN BACK.  Every `undo` program (user | bot | $c = $c + 1 | $r = execute a(p=$c) |
                        if $c == 0/1 [else] | while $c < 2) of sizes 2-3 [2-4] that runs an action; every user turn is
                        opened by the UtteranceUserActionFinished event of a conversation with a host (followed by the
                        UserIntent the driver chose); at every execution the action returns 1 or FAILS (the stub
                        raises; <= max_fail failures per history): the real _process_start_action then appends the
                        internal-error bot step and a hide_prev_turn event, which by the library's own definition
                        (compute_next_steps: "remove everything after the last UtteranceUserActionFinished") takes the
                        turn back.  The conversation so far is then the history without that turn: the reference drops
                        the turn (variables included) and goes on from where the flow stood before it; the
                        conversation is continued in every way of the driver.  The context the HOST sees is not
                        compared once a turn was hidden (it is computed over all events, hidden ones included).
               expr-dollar : string literals in which a `$` is followed by a name ("$s", "b $s", "in $usd"; $s is a
                        variable of the program, $usd is not): assigned (`$k = L`, `L + $s`, `$s + L`, `L if $c == 0 else
                        "a"`: the value the host sees), measured / searched / compared with the same characters written as
                        two literals (`len(L) == n`, `"$" in L`, `$s in L`, `L == "b $" + "s"`), compared with a field of
                        an action result that holds those characters.  A string literal is a constant (the docs know
                        `$name` substitution in bot message texts only; the evaluator has no such notion either).
               api    : the conversation held through the public API, one LLMRails.generate_async call per user
                        turn, carried in the returned state object or in the message list (vf/props/c14_state.py:
                        world, programs, histories, oracle and signatures are described there).
  driver     plays RuntimeV1_0.generate_events by hand with the runtime's own methods: _compute_next_steps
             (history), append the decided events; after a StartInternalSystemAction the real
             _process_start_action with a registered stub action (returns the scripted result, records the
             argument it was called with) for EVERY scripted result in {0,1} (only 1 when no condition reads
             $r); no decision -> Listen -> user point, where the history branches over {intents the flow
             waits for, start intent of f1, start intent of f2, an unknown intent, intents a left flow was
             waiting for}.  BFS over all such histories with <= max_user user turns, <= max_dev turns that
             are not the expected continuation and <= max_zero actions returning 0 (bounds per program
             group: see plan(); a history in which a left flow becomes involved is followed to the end of
             that turn only).  Every turn in which an action ran is also produced in one go by the real
             generate_events on the used runtime and must equal the events collected step by step.
  oracle     reference(history) = structured-program semantics (sequence, if/else, while, break, continue,
             assignment, when = wait for one of the branch intents, stop = `bot stop` and the flow is over,
             subflow call = inlined block, one global context dict).  Demanded (strict):
               * history follows a flow (from its start intent) -> decided step == that flow's next
                 statement (bot / action start / nothing = wait), the context visible to the host
                 (compute_context over history + decided events) has the reference values of $c, $r, and
                 `execute a(p=$c)` calls the action with the reference value of $c;
               * an intent that starts another (not already left) flow -> that flow's first statement(s);
               * an intent no flow knows -> nothing is decided (no step of the abandoned flow);
             NOT demanded (docs are silent): anything that involves a flow that was left earlier (resume or
             not).  Such histories are still evaluated for the second clause only.
  2nd clause every history is evaluated on the long-lived runtime used for all earlier calls of the program's
             BFS (decisions, action executions, whole turns) and on a runtime built from a pristine copy of an
             independent second parse: identical decisions, identical events and action arguments from
             _process_start_action; the first histories are evaluated once more on the used runtime after
             all other calls.
             State of the instance: after EVERY call on the used runtime (decision, action execution, whole
             turn) its state (flow configs with their element dicts, the parsed flows of its config, its plain
             attributes, module-level data objects of the v1 runtime modules) is compared with the state before
             the call.  No call changes it => by induction any number of calls in any order decides like the
             first one.  A decision call that does change it (first PUMP_NODES such histories of a program, BFS
             order) is repeated on the used runtime until the state recurs (every further repetition is then
             one already seen) or PUMP_MAX repetitions; every repetition must decide like the first call (which
             was compared with the fresh runtime and the reference).  The first history of the programs of
             `ctl` size 2 and `loop` k=3 is repeated PUMP_MAX times without such a reason as well.
  classes    signature = kind : path of the statement the flow stood at -> path of the expected statement :
             constructs the reference executed in between : how the decision differs.  Three input classes
             have a signature of their own:
               INSTANT_SIG  some flow ran from its start intent to its end within that one event earlier in
                            the history (fixed in the library; must stay silent)
               NESTED_SIG   a subflow called a subflow before doing anything else (`do s2` is the first
                            statement it executes)
               WHEN_SIG     a `when` block directly followed by another `when` block was entered
               ELSE_DEDENT_SIG  an if/else whose else body is indented less than its then body was executed
               AUG_SIG      `$v += e` / `$v -= e` with an operator in e was executed
               RES_SIG      the last event is the result of `$v = execute a` for a variable that already had a value
               DYN_SIG      the history contains a start_flow event (`:unknown-to-another-instance` = used and fresh
                            runtime decide differently for it)
               EXPR_SIG     expr:<if|while|set>:<outermost operator of the expression evaluated last>
               CONT_SIG     a statement written over two lines was executed (`:rejected-by-the-parser`: the program
                            text is not accepted at all)
               UNDO_SIG     the history contains a turn taken back by a failed action
               DOLLAR_SIG   dollar-name-inside-string-literal:<set|if|while ...>: an expression with a string literal
                            in which `$` is followed by a name was evaluated
             (the last six: `:step` = the decided step differs in whatever way, `:context`, `:exception`)
             group `api`: api:<carrier>:<since when the followed flow is followed>:<step|exception>
  replay     program text + script of user intents / action results; histories are rebuilt with plain calls.
             For a used-vs-fresh difference all earlier calls on the used runtime (decision, action execution,
             whole turn) are stored and repeated first, in order.
"""
from __future__ import annotations

import functools
import itertools
import os
import pickle
import signal
import time
from collections import deque

from vf.props import c14_expr, c14_state

PROP = "C14"

VARS = ("c", "r")
UNKNOWN_INTENT = "zz"
TERMINAL = ("T", "BR", "CT")  # nothing may follow these in their block (it would be dead code)

GRAMMARS = {
    # leaves: U user, B bot, S set, I increment, X execute, D do <subflow>, T stop, BR break, CT continue
    "full": {
        "leaves": (("U",), ("B",), ("S", "c", 0), ("S", "c", 1), ("I", "c"), ("X",), ("D",)),
        "conds": (("c", 0), ("c", 1), ("r", 1)), "wk": (1, 2), "when": 0,
    },
    "nest": {
        "leaves": (("B",), ("U",), ("I", "c")),
        "conds": (("c", 1),), "wk": (2,), "when": 0,
    },
    # the block statements of `nest` with both outcomes of a condition right after `$c = 0` (layout groups)
    "lay": {
        "leaves": (("B",), ("U",), ("I", "c")),
        "conds": (("c", 0), ("c", 1)), "wk": (2,), "when": 0,
    },
    # control statements: when / else when, stop, break, continue
    "ctl": {
        "leaves": (("B",), ("U",), ("I", "c"), ("T",), ("BR",), ("CT",)),
        "conds": (("c", 1),), "wk": (2,), "when": 2,
    },
    # nested subflow calls: f1 calls s1, s1 calls s2
    "nsub": {
        "leaves": (("B",), ("U",), ("S", "c", 1), ("D",)),
        "conds": (("c", 0), ("c", 1)), "wk": (), "when": 0,
    },
    # action results: the variable an action result is assigned to is assigned more than once (a constant first,
    # the statement reached again in a loop or in a second run of the flow) and read by conditions of three forms
    "res": {
        "leaves": (("B",), ("U",), ("X",), ("S", "r", 1)),
        "conds": (("r", 1), ("r", "truthy"), ("r", "falsy")), "wk": (), "wr": True, "when": 0,
    },
    # a turn taken back: the action of an `execute` fails (the runtime answers with an internal error and appends
    # hide_prev_turn), then the conversation goes on
    "undo": {
        "leaves": (("U",), ("B",), ("I", "c"), ("X",)),
        "conds": (("c", 0), ("c", 1)), "wk": (2,), "when": 0,
    },
    # bodies of flows that arrive in the history (start_flow event) instead of the configuration
    "dyn": {
        "leaves": (("U",), ("B",), ("S", "c", 0), ("S", "c", 1), ("I", "c")),
        "conds": (("c", 0), ("c", 1)), "wk": (2,), "when": 0,
    },
}

# what a scripted action returns in the `res` groups (index 0 is the value every group uses): None, the falsy and
# the truthy values of the JSON types
RES_VALUES = {"quick": (1, None, 0, "", {"id": 7}), "thorough": (1, None, 0, "", {"id": 7}, [], False, {}, "x", ["a"])}
DYN_FLOW = "d1"

F2_VARIANTS = {
    "simple": (("U",), ("B",)),
    "two-turn-set": (("U",), ("S", "c", 1), ("B",), ("U",), ("B",)),
}
CALLS = {"f1": "s1", "s1": "s2", "s2": None, "f2": None, "d1": None}  # which subflow a `do` in this flow calls


# ------------------------------------------------------------------ generator (SmallCheck style)
@functools.lru_cache(None)
def blocks(n, g, do, wh, loop):
    """all blocks (tuples of statements) with exactly n statement nodes over grammar g
    (do: `do` allowed, wh: `while` allowed, loop: lexically inside a while body)"""
    if n == 0:
        return ((),)
    out = []
    for first in range(1, n + 1):
        for st in stmts(first, g, do, wh, loop):
            if st[0] in TERMINAL and first < n:
                continue
            for rest in blocks(n - first, g, do, wh, loop):
                out.append((st,) + rest)
    return tuple(out)


def _compositions(n, parts, least):
    if parts == 1:
        if n >= least:
            yield (n,)
        return
    for a in range(least, n - least * (parts - 1) + 1):
        for rest in _compositions(n - a, parts - 1, least):
            yield (a,) + rest


@functools.lru_cache(None)
def stmts(n, g, do, wh, loop):
    G = GRAMMARS[g]
    out = []
    if n == 1:
        for lf in G["leaves"]:
            if lf[0] == "D" and not do:
                continue
            if lf[0] in ("BR", "CT") and not loop:
                continue
            out.append(lf)
        return tuple(out)
    for a in range(1, n):  # if: 1 + then(a >= 1) + else(b >= 0)
        b = n - 1 - a
        for cond in G["conds"]:
            for th in blocks(a, g, do, wh, loop):
                for el in blocks(b, g, do, wh, loop):
                    out.append(("IF", cond, th, el if b else None))
    if wh:
        for k in G["wk"]:
            for body in blocks(n - 1, g, do, wh, True):
                out.append(("WH", ("c", k), body))
        if G.get("wr"):  # while $r: as long as the last result is truthy
            for body in blocks(n - 1, g, do, wh, True):
                out.append(("WH", ("r", "truthy"), body))
    for nb in range(1, G["when"] + 1):  # when / else when: every branch = its `user` head + a non-empty body
        for sizes in _compositions(n, nb, 2):
            for bodies in itertools.product(*[blocks(sz - 1, g, do, wh, loop) for sz in sizes]):
                out.append(("WN", tuple(bodies)))
    return tuple(out)


def has(block, kind, top_only=False, into_loops=True):
    for st in block:
        if st[0] == kind:
            return True
        if not top_only:
            if st[0] == "IF" and (has(st[2], kind, False, into_loops) or (st[3] and has(st[3], kind, False, into_loops))):
                return True
            if st[0] == "WH" and into_loops and has(st[2], kind, False, into_loops):
                return True
            if st[0] == "WN" and any(has(b, kind, False, into_loops) for b in st[1]):
                return True
    return False


def reads_r(block):
    for st in block or ():
        if st[0] == "IF":
            if st[1][0] == "r" or reads_r(st[2]) or reads_r(st[3]):
                return True
        elif st[0] == "WH" and (st[1][0] == "r" or reads_r(st[2])):
            return True
        elif st[0] == "WN" and any(reads_r(b[1] if isinstance(b, list) else b) for b in st[1]):
            return True
    return False


def _sets_counter(block, subs, target):
    """does the block (or a subflow it calls) assign a constant to the counter"""
    if has(block, "S"):
        return True
    if target and subs.get(target) is not None and has(block, "D"):
        return _sets_counter(subs[target], subs, CALLS[target])
    return False


def _loop_terminates(body, subs, target, var="c"):
    """every iteration waits for the user or makes progress on the counter before it can `continue`
    (a loop on the result variable: every iteration runs an action, whose scripted result decides)"""
    if var == "r":
        return any(st[0] == "X" for st in body) and not has(body, "CT") and not has(body, "S")
    first_ok = None
    no_set = not _sets_counter(body, subs, target)
    for i, st in enumerate(body):
        if st[0] in ("U", "WN") or (st[0] == "I" and no_set):
            first_ok = i
            break
    if first_ok is None:
        return False
    for i, st in enumerate(body):
        if has((st,), "CT", False, False) and i <= first_ok:
            return False
    return True


def well_formed(block, defined, subs, target):
    """definite assignment + loop termination.  Returns the set of definitely assigned variables
    after the block, or None when the block is not an ordinary terminating structured program.
    subs: subflow name -> block, target: the subflow a `do` in this block calls"""
    d = set(defined)
    for st in block:
        k = st[0]
        if k == "S":
            d.add(st[1])
        elif k == "I":
            if st[1] not in d:
                return None
        elif k == "X":
            if "c" not in d:  # the action is called with p=$c
                return None
            d.add("r")
        elif k == "D":
            if not target or subs.get(target) is None:
                return None
            d2 = well_formed(subs[target], d, subs, CALLS[target])
            if d2 is None:
                return None
            d = d2
        elif k == "IF":
            if st[1][0] not in d:
                return None
            a = well_formed(st[2], d, subs, target)
            if a is None:
                return None
            if st[3]:
                b = well_formed(st[3], d, subs, target)
                if b is None:
                    return None
                d = a & b
        elif k == "WH":
            if st[1][0] not in d:
                return None
            if not _loop_terminates(st[2], subs, target, st[1][0]):
                return None
            if well_formed(st[2], d, subs, target) is None:
                return None
        elif k == "WN":
            res = None
            for body in st[1]:
                a = well_formed(body, d, subs, target)
                if a is None:
                    return None
                res = a if res is None else res & a
            d = res
    return d


def programs(g, total, sub_sizes=(), sub2_sizes=()):
    """all well-formed programs (main, (s1[, s2])) of grammar g whose sizes add up to `total`.
    Without subflow sizes: programs without subflows.  With sub2_sizes: s1 must call s2."""
    out = []
    has_do = any(lf[0] == "D" for lf in GRAMMARS[g]["leaves"])
    if not sub2_sizes:
        for b in blocks(total, g, False, True, False):
            if well_formed(b, {"c"}, {}, None) is not None:
                out.append((b, ()))
    if not has_do:
        return out
    if not sub2_sizes:
        for ns in sub_sizes:
            nm = total - ns
            if nm < 1:
                continue
            for sub in blocks(ns, g, False, False, False):
                for b in blocks(nm, g, True, True, False):
                    if has(b, "D") and well_formed(b, {"c"}, {"s1": sub}, "s1") is not None:
                        out.append((b, (sub,)))
        return out
    for n1 in sub_sizes:
        for n2 in sub2_sizes:
            nm = total - n1 - n2
            if nm < 1:
                continue
            for s2 in blocks(n2, g, False, False, False):
                for s1 in blocks(n1, g, True, False, False):
                    if not has(s1, "D"):
                        continue
                    for b in blocks(nm, g, True, True, False):
                        if has(b, "D") and well_formed(b, {"c"}, {"s1": s1, "s2": s2}, "s1") is not None:
                            out.append((b, (s1, s2)))
    return out


# ------------------------------------------------------------------ layout variants, augmented assignments
def _has_else(block):
    for st in block or ():
        if st[0] == "IF" and (st[3] or _has_else(st[2])):
            return True
        if st[0] == "IF" and _has_else(st[3]):
            return True
        if st[0] == "WH" and _has_else(st[2]):
            return True
        if st[0] == "WN" and any(_has_else(b) for b in st[1]):
            return True
    return False


def _max_when_branches(block):
    m = 0
    for st in block or ():
        if st[0] == "IF":
            m = max(m, _max_when_branches(st[2]), _max_when_branches(st[3]))
        elif st[0] == "WH":
            m = max(m, _max_when_branches(st[2]))
        elif st[0] == "WN":
            m = max(m, len(st[1]), *[_max_when_branches(b) for b in st[1]])
    return m


def layouts(main, subs=()):
    """every assignment of an indentation step in {2, 4} to the block kinds that occur in the program
    (flow body, then body, else body, while body, first when body, else-when bodies), except 2 everywhere
    (that is the text of the other groups).  A block is indented relative to the line that opens it."""
    bl = (main,) + tuple(subs)
    kinds = ["flow"]
    if any(has(b, "IF") for b in bl):
        kinds.append("then")
    if any(_has_else(b) for b in bl):
        kinds.append("else")
    if any(has(b, "WH") for b in bl):
        kinds.append("while")
    nb = max(_max_when_branches(b) for b in bl)
    if nb >= 1:
        kinds.append("when")
    if nb >= 2:
        kinds.append("elsewhen")
    out = []
    for steps in itertools.product((2, 4), repeat=len(kinds)):
        if any(x != 2 for x in steps):
            out.append(tuple(zip(kinds, steps)))
    return out


def layout_programs(g, sizes, compound_only=True):
    """(main, subs, layout) for every program of grammar g (no subflows) with a block statement x every layout"""
    out = []
    for n in sizes:
        for main, subs in programs(g, n):
            if compound_only and not any(has(main, k) for k in ("IF", "WH", "WN")):
                continue
            for lay in layouts(main, subs):
                out.append((main, subs, lay))
    return out


# right-hand sides of `$c += e` / `$c -= e`: one constant / variable, and expressions with one operator
# (same, higher and lower precedence than the + / - of the assignment)
AUG_RHS = ("1", "$c", "2 - 1", "1 + 1", "$c - 1", "$c + 1", "2 * 2", "1 if $c == 0 else 3")


def loop_programs(ks):
    """loops that go round more often than the `while $c < 1|2` of the grammars: while $c < k over the bodies
    {count only; count, bot; user, count; bot, user, count; count, if $c == 1 bot}, alone and followed by a bot step"""
    out = []
    for k in ks:
        for body in ((("I", "c"),), (("I", "c"), ("B",)), (("U",), ("I", "c")), (("B",), ("U",), ("I", "c")),
                     (("I", "c"), ("IF", ("c", 1), (("B",),), None))):
            for tail in ((), (("B",),)):
                out.append(((("WH", ("c", k), body),) + tail, ()))
    return out


def res_programs(sizes):
    """every program of grammar `res` of these sizes in which a condition reads the result variable"""
    return [p for n in sizes for p in programs("res", n) if reads_r(p[0]) and has(p[0], "X")]


def dyn_programs(main_sizes, body_sizes):
    """(main, (), None, body): every `lay` program as the configured flow f1 x every block of grammar `dyn` that is a
    program of its own (reads no variable it has not assigned) as the body of a start_flow event"""
    bodies = [b for n in body_sizes for b in blocks(n, "dyn", False, True, False)
              if well_formed(b, set(), {}, None) is not None]
    return [(main, subs, None, b) for n in main_sizes for main, subs in programs("lay", n) for b in bodies]


def _or_conds(block):
    """the same block with every condition written `<cond> or $c == 7` (an expression condition: the reference
    evaluates that text)"""
    out = []
    for st in block:
        if st[0] == "IF":
            out.append(("IF", ("$", f"{cond_text(st[1])} or $c == {CONT_NEVER}"), _or_conds(st[2]),
                        _or_conds(st[3]) if st[3] else None))
        elif st[0] == "WH":
            out.append(("WH", ("$", f"{cond_text(st[1], True)} or $c == {CONT_NEVER}"), _or_conds(st[2])))
        else:
            out.append(st)
    return tuple(out)


def _block_depth(block):
    """how deep block statements are nested in each other"""
    d = 0
    for st in block or ():
        if st[0] == "IF":
            d = max(d, 1 + max(_block_depth(st[2]), _block_depth(st[3])))
        elif st[0] == "WH":
            d = max(d, 1 + _block_depth(st[2]))
    return d


CONT_HANGS = (0, 2, 4)  # indentation of the second line relative to the first: none, like a body, hanging


def cont_programs(sizes, nested_sizes=()):
    """(main, subs, layout): every `lay` program of these sizes with a block statement (nested_sizes: with a block
    statement inside a block statement) x {every condition `<cond> or $c == 7`, cut after the ` or`; every condition
    and every `$c = $c + 1` cut before its last word, first line ends with a backslash} x CONT_HANGS"""
    out = []
    for n in tuple(sizes) + tuple(nested_sizes):
        for main, subs in programs("lay", n):
            if _block_depth(main) < (1 if n in sizes else 2):
                continue
            for style in (CONT_OR, CONT_BACKSLASH):
                m = _or_conds(main) if style == CONT_OR else main
                for hang in CONT_HANGS:
                    out.append((m, subs, (("cont_style", style), ("cont_hang", hang))))
    return out


def undo_programs(sizes):
    """every program of grammar `undo` of these sizes that runs an action"""
    return [p for n in sizes for p in programs("undo", n) if has(p[0], "X")]


def aug_programs():
    """f1: user u0; $c = 0; [$c = 1 | $c = 2;] $c <op>= <rhs>; <post>   with post in {nothing, bot,
    if $c == <the value the assignment gives> bot [else bot]} - all combinations"""
    out = []
    for c0 in (0, 1, 2):
        pre = () if c0 == 0 else (("S", "c", c0),)
        for op in ("+=", "-="):
            for rhs in AUG_RHS:
                val = aug_value(rhs, {"c": c0})
                v = c0 + val if op == "+=" else c0 - val
                a = ("A", "c", op, rhs)
                for post in ((), (("B",),), (("IF", ("c", v), (("B",),), None),),
                             (("IF", ("c", v), (("B",),), (("B",),)),), (("IF", ("c", v), (("B",),), None), ("B",))):
                    out.append((pre + (a,) + post, ()))
    return out


# ------------------------------------------------------------------ labelling + printing
NAMES = {
    "f1": {"u": "u", "m": "m", "a": "act"},
    "s1": {"u": "su", "m": "sm", "a": "sact"},
    "s2": {"u": "tu", "m": "tm", "a": "tact"},
    "f2": {"u": "j", "m": "o", "a": "oact"},
    "d1": {"u": "du", "m": "dm", "a": "dact"},
}


def label(main, subs, f2, layout=None, dyn=None):
    """give every user/bot/execute statement its own name and every statement the path of the
    constructs around it.  Result is plain lists (json round-trips).
    layout: indentation step per block kind (see to_colang), kept in the program as P["layout"]"""

    def lab(block, path, fid, cnt):
        pfx = NAMES[fid]
        out = []
        for st in block:
            k = st[0]
            if k == "U":
                out.append(["U", f"{pfx['u']}{cnt['u']}", path])
                cnt["u"] += 1
            elif k == "B":
                cnt["m"] += 1
                out.append(["B", f"{pfx['m']}{cnt['m']}", path])
            elif k == "X":
                cnt["a"] += 1
                out.append(["X", f"{pfx['a']}{cnt['a']}", "r", "c", path])
            elif k == "S":
                out.append(["S", st[1], st[2], path])
            elif k == "I":
                out.append(["I", st[1], path])
            elif k == "A":
                out.append(["A", st[1], st[2], st[3], path])
            elif k == "E":
                out.append(["E", st[1], st[2], path])
            elif k == "D":
                out.append(["D", CALLS[fid], path])
            elif k in TERMINAL:
                out.append([k, path])
            elif k == "IF":
                out.append(["IF", list(st[1]), lab(st[2], path + ">IF.then", fid, cnt),
                            lab(st[3], path + ">IF.else", fid, cnt) if st[3] else None, path])
            elif k == "WH":
                out.append(["WH", list(st[1]), lab(st[2], path + ">WH", fid, cnt), path])
            elif k == "WN":
                brs = []
                for body in st[1]:
                    name = f"{pfx['u']}{cnt['u']}"
                    cnt["u"] += 1
                    brs.append([name, lab(body, path + ">WN", fid, cnt)])
                out.append(["WN", brs, path])
        return out

    P = {"flows": {}, "subs": {}}
    P["flows"]["f1"] = lab((("U",), ("S", "c", 0)) + tuple(main), "f1", "f1", {"u": 0, "m": 0, "a": 0})
    for name, sub in zip(("s1", "s2"), subs):
        P["subs"][name] = lab(sub, name, name, {"u": 1, "m": 0, "a": 0})
    P["flows"]["f2"] = lab(f2, "f2", "f2", {"u": 0, "m": 0, "a": 0})
    if dyn is not None:
        # a flow that is NOT in the configuration: it arrives in the history, as the body of a start_flow event.
        # For the reference it is one more flow whose start "intent" du0 stands for that event.
        P["flows"][DYN_FLOW] = lab((("U",),) + tuple(dyn), DYN_FLOW, DYN_FLOW, {"u": 0, "m": 0, "a": 0})
        lines = []
        _emit(P["flows"][DYN_FLOW][1:], 0, lines, None)
        P["dyn"] = {"flow": DYN_FLOW, "start": P["flows"][DYN_FLOW][0][1], "body": "\n".join(lines)}
    if layout:
        P["layout"] = {k: int(v) for k, v in dict(layout).items()}
    return P


STEP_KINDS = ("flow", "then", "else", "while", "when", "elsewhen")
# group `cont`: how a statement is continued on the next line (layout keys cont_style, cont_hang)
CONT_OR, CONT_BACKSLASH = 1, 2
CONT_NEVER = 7  # `<cond> or $c == 7` is a condition with an ` or` in it (the reference evaluates that very text)


def cond_text(cond, loop=False):
    """Colang text of a condition (var, k): `$var == k` (if) / `$var < k` (while); k = "truthy" / "falsy":
    the variable itself / its negation"""
    var, k = cond
    if var == "$":  # group `expr`: the text of the expression itself
        return k
    if k == "truthy":
        return f"${var}"
    if k == "falsy":
        return f"not ${var}"
    return f"${var} < {k}" if loop else f"${var} == {k}"


def cond_value(cond, ctx, loop=False):
    """the same condition over the reference context (Python's truth value / comparison)"""
    var, k = cond
    if var == "$":  # Python's truth value of Python's value of the same text
        return bool(c14_expr.expr_value(k, ctx))
    if k == "truthy":
        return bool(ctx.get(var))
    if k == "falsy":
        return not ctx.get(var)
    return ctx[var] < k if loop else ctx.get(var) == k


def _step(lay, kind):
    """indentation step (spaces) of a block of that kind relative to the line that opens it"""
    return int((lay or {}).get(kind, 2))


def _continued(lay, st):
    """is this statement written over two lines in that layout (group `cont`)"""
    style = int((lay or {}).get("cont_style", 0))
    if style == CONT_OR:
        return st[0] in ("IF", "WH") and st[1][0] == "$" and " or " in st[1][1]
    if style == CONT_BACKSLASH:
        return st[0] in ("IF", "WH", "I")
    return False


def _put(lines, lay, st, col, text):
    """append the text of a one-line statement; in a layout of group `cont` a statement that can be continued is
    written over two lines: cut after its first ` or` (the line reader goes on to the next line after a trailing
    ` or`) or before its last word (first line ends with a backslash), the second line indented by cont_hang
    relative to the first"""
    pad = " " * col
    if not _continued(lay, st):
        lines.append(pad + text)
        return
    hang = " " * (col + int(lay.get("cont_hang", 0)))
    if int(lay["cont_style"]) == CONT_OR:
        at = text.index(" or ") + 3
        lines.append(pad + text[:at])
        lines.append(hang + text[at + 1:])
    else:
        at = text.rindex(" ")
        lines.append(pad + text[:at] + " \\")
        lines.append(hang + text[at + 1:])


def _emit(block, col, lines, lay=None):
    pad = " " * col
    for st in block:
        k = st[0]
        if k == "U":
            lines.append(f"{pad}user {st[1]}")
        elif k == "B":
            lines.append(f"{pad}bot {st[1]}")
        elif k == "X":
            lines.append(f"{pad}${st[2]} = execute {st[1]}(p=${st[3]})")
        elif k == "S":
            lines.append(f"{pad}${st[1]} = {st[2]}")
        elif k == "I":
            _put(lines, lay, st, col, f"${st[1]} = ${st[1]} + 1")
        elif k == "A":
            lines.append(f"{pad}${st[1]} {st[2]} {st[3]}")
        elif k == "E":
            lines.append(f"{pad}${st[1]} = {st[2]}")
        elif k == "D":
            lines.append(f"{pad}do {st[1]}")
        elif k == "T":
            lines.append(f"{pad}stop")
        elif k == "BR":
            lines.append(f"{pad}break")
        elif k == "CT":
            lines.append(f"{pad}continue")
        elif k == "IF":
            _put(lines, lay, st, col, f"if {cond_text(st[1])}")
            _emit(st[2], col + _step(lay, "then"), lines, lay)
            if st[3]:
                lines.append(f"{pad}else")
                _emit(st[3], col + _step(lay, "else"), lines, lay)
        elif k == "WH":
            _put(lines, lay, st, col, f"while {cond_text(st[1], True)}")
            _emit(st[2], col + _step(lay, "while"), lines, lay)
        elif k == "WN":
            for bi, (name, body) in enumerate(st[1]):
                lines.append(f"{pad}{'when' if bi == 0 else 'else when'} user {name}")
                _emit(body, col + _step(lay, "when" if bi == 0 else "elsewhen"), lines, lay)


def to_colang(P, order=("f1", "s1", "s2", "f2")):
    """the Colang text of the program.  P["layout"] (optional): indentation step per block kind
    (STEP_KINDS; 2 spaces everywhere when absent) - layout only, the program is the same"""
    lay = P.get("layout")
    chunks = []
    for name in order:  # (a flow of P that is not in `order` - the start_flow flow d1 - is not in the text)
        lines = []
        if name in ("s1", "s2"):
            if P["subs"].get(name) is None:
                continue
            lines.append(f"define subflow {name}")
            _emit(P["subs"][name], _step(lay, "flow"), lines, lay)
        else:
            lines.append(f"define flow {name}")
            _emit(P["flows"][name], _step(lay, "flow"), lines, lay)
        chunks.append("\n".join(lines))
    return "\n\n".join(chunks) + "\n"


def prog_size(P):
    def sz(b):
        n = 0
        for st in b or ():
            if st[0] == "IF":
                n += 1 + sz(st[2]) + sz(st[3])
            elif st[0] == "WH":
                n += 1 + sz(st[2])
            elif st[0] == "WN":
                n += sum(1 + sz(body) for _, body in st[1])
            else:
                n += 1
        return n

    return (sz(P["flows"]["f1"]) - 2 + sum(sz(b) for b in P["subs"].values())
            + (sz(P["flows"][DYN_FLOW]) - 1 if DYN_FLOW in P["flows"] else 0))


# ------------------------------------------------------------------ reference interpreter
class RefFuel(Exception):
    pass


def aug_value(rhs, ctx):
    """value of the right-hand side text of an augmented assignment: Python's expression semantics
    with every `$name` replaced by the (parenthesised) reference value of that variable"""
    import re

    return eval(re.sub(r"\$(\w+)", lambda m: f"({ctx[m.group(1)]!r})", rhs), {"__builtins__": {}}, {})


def aug_compound(rhs):
    """the right-hand side contains an operator (it is more than one constant / variable)"""
    return " " in rhs.strip()


class _Break(Exception):
    pass


class _Continue(Exception):
    pass


class _StopFlow(Exception):
    pass


class _Cell:
    """features of the current advance (a mutable cell: the generators keep a reference to it)"""
    __slots__ = ("s", "x")

    def __init__(self):
        self.s = set()
        self.x = []  # group `expr`: (statement kind, outermost operator) of the expressions evaluated, in order

    def add(self, x):
        self.s.add(x)

    def note_expr(self, kind, text):
        self.x.append(f"{kind}:{c14_expr.top_operator(text)}")
        self.s.add("expr-" + kind)
        self.note_literals(kind, text)

    def note_literals(self, kind, text):
        if c14_expr.has_dollar_literal(text):
            self.s.add("dollar-literal-in-" + kind)


def _loop_cond(cond, ctx, feats):
    if cond[0] == "$":
        feats.note_expr("while", cond[1])
    return cond_value(cond, ctx, True)


def _exec(block, ctx, P, feats, fuel, frame):
    """ordinary structured-program semantics; yields at user / when / bot / execute / stop statements.
    frame: {"entry": True until this (sub)flow activation has yielded once} - only used to name the
    input class 'subflow called by a subflow that has not done anything yet'."""
    prev = None
    for st in block:
        fuel[0] -= 1
        if fuel[0] < 0:
            raise RefFuel()
        k = st[0]
        if k == "WN" and prev == "WN":
            feats.add("adjacent-when")
        prev = k
        if k == "U":
            frame["entry"] = False
            yield ("user", st[1], st[-1])
        elif k == "WN":
            frame["entry"] = False
            names = tuple(name for name, _ in st[1])
            got = yield ("user", names, st[-1])
            bi = names.index(got)
            feats.add("when-first" if bi == 0 else "when-else")
            yield from _exec(st[1][bi][1], ctx, P, feats, fuel, frame)
            if bi < len(names) - 1:
                feats.add("skip-else-when")
        elif k == "B":
            frame["entry"] = False
            yield ("bot", st[1], st[-1])
        elif k == "T":
            frame["entry"] = False
            yield ("bot", "stop", st[-1])
            raise _StopFlow()
        elif k == "X":
            frame["entry"] = False
            res = yield ("exec", st[1], st[-1], st[2], ctx.get(st[3]))
            if st[2] in ctx:
                feats.add("exec-result-overwrites")
                if ctx[st[2]] and not res:
                    feats.add("falsy-result-over-truthy-value")
            ctx[st[2]] = res
            feats.add("exec-result")
        elif k == "S":
            ctx[st[1]] = st[2]
            feats.add("set")
        elif k == "I":
            ctx[st[1]] = ctx[st[1]] + 1
            feats.add("inc")
            if _continued(P.get("layout"), st):
                feats.add("continued-statement")
        elif k == "A":
            # `$v += e` / `$v -= e`: e is evaluated first (Python's own reading of the expression text),
            # then added to / subtracted from the variable
            val = aug_value(st[3], ctx)
            ctx[st[1]] = ctx[st[1]] + val if st[2] == "+=" else ctx[st[1]] - val
            feats.add("aug-assign")
            if aug_compound(st[3]):
                feats.add("aug-compound-rhs")
        elif k == "E":
            # `$v = e`: e is evaluated (Python's reading of the expression text), then assigned
            ctx[st[1]] = c14_expr.expr_value(st[2], ctx)
            if not (st[2].startswith('"') and st[2].count('"') == 2):
                feats.note_expr("set", st[2])  # (one literal: an ordinary set)
            else:
                feats.add("set")
                feats.note_literals("set", st[2])
        elif k == "BR":
            raise _Break()
        elif k == "CT":
            raise _Continue()
        elif k == "IF":
            var, const = st[1]
            if var == "$":
                feats.note_expr("if", const)
            if _continued(P.get("layout"), st):
                feats.add("continued-statement")
            if st[3] and _step(P.get("layout"), "else") < _step(P.get("layout"), "then"):
                feats.add("else-body-dedented")
            if cond_value(st[1], ctx):
                feats.add("if-then")
                yield from _exec(st[2], ctx, P, feats, fuel, frame)
                if st[3]:
                    feats.add("skip-else")
            elif st[3]:
                feats.add("if-else")
                yield from _exec(st[3], ctx, P, feats, fuel, frame)
            else:
                feats.add("if-skip")
        elif k == "WH":
            var, kk = st[1]
            broke = False
            if _continued(P.get("layout"), st):
                feats.add("continued-statement")
            while _loop_cond(st[1], ctx, feats):
                fuel[0] -= 1
                if fuel[0] < 0:
                    raise RefFuel()
                feats.add("while-iter")
                try:
                    yield from _exec(st[2], ctx, P, feats, fuel, frame)
                except _Break:
                    feats.add("break")
                    broke = True
                    break
                except _Continue:
                    feats.add("continue")
                    continue
                feats.add("while-back")
            if not broke:
                feats.add("while-exit")
        elif k == "D":
            feats.add("sub-call")
            if frame.get("sub") and frame["entry"]:
                feats.add("nested-call-at-subflow-entry")
            inner = {"entry": True, "sub": True}
            yield from _exec(P["subs"][st[1]], ctx, P, feats, fuel, inner)
            if not inner["entry"]:
                frame["entry"] = False
            feats.add("sub-return")


def _intent_table(P):
    """intent -> (owner flow, is start intent)"""
    tab = {}

    def walk(block, owner, first):
        for i, st in enumerate(block or ()):
            if st[0] == "U":
                tab[st[1]] = (owner, first and i == 0)
            elif st[0] == "IF":
                walk(st[2], owner, False)
                walk(st[3], owner, False)
            elif st[0] == "WH":
                walk(st[2], owner, False)
            elif st[0] == "WN":
                for name, body in st[1]:
                    tab[name] = (owner, False)
                    walk(body, owner, False)

    for fid, b in P["flows"].items():
        walk(b, fid, True)
    for sid, b in P["subs"].items():
        walk(b, sid, False)
    return tab


def _waits_for(pend, intent):
    return pend[0] == "user" and (intent == pend[1] if isinstance(pend[1], str) else intent in pend[1])


def _as_list(x):
    return [x] if isinstance(x, str) else list(x)


def ref_run(P, ahist, tab=None):
    """Replay the abstract history [("user", i) | ("bot", m) | ("done", action, result)] from scratch;
    returns what the structured-program reading says after the last event."""
    ctx = {}
    cum = set()
    cell = _Cell()
    tab = tab or _intent_table(P)
    cur = None
    susp = {}
    status = "strict"
    leave = None
    from_path = "-"
    fuel = [4000]
    instant = None  # first flow one of whose episodes ended within its own start event

    def advance(val):
        nonlocal cur
        try:
            cur["pend"] = cur["gen"].send(val)
        except StopIteration:
            cell.add("flow-end")
            cur = None
        except _StopFlow:
            cell.add("stopped")
            cur = None

    after_instant = None
    # a failed action takes its turn back (hide_prev_turn): the conversation so far is the history without that turn
    hidden = 0
    just_hidden = bool(ahist) and ahist[-1][0] == "done" and ahist[-1][2] == FAIL
    if any(e[0] == "done" and e[2] == FAIL for e in ahist):
        kept = []
        for e in ahist:
            if e[0] == "done" and e[2] == FAIL:
                while kept and kept[-1][0] != "user":
                    kept.pop()
                if kept:
                    kept.pop()
                hidden += 1
            else:
                kept.append(e)
        ahist = tuple(kept)
    for ev in ahist:
        cell.s = set()
        cell.x = []
        leave = None
        after_instant = instant
        if status == "unspec":
            continue
        from_path = cur["pend"][2] if cur else "-"
        if ev[0] == "user":
            i = ev[1]
            if cur and _waits_for(cur["pend"], i):
                advance(i)
            else:
                if cur:
                    susp[cur["flow"]] = cur["pend"][1]
                    cell.add("left-flow")
                    cur = None
                own = tab.get(i)
                if own is None:
                    leave = "unknown-intent"
                elif own[1] and own[0] not in susp:
                    leave = "start:" + own[0]
                    if own[0] == DYN_FLOW:
                        cell.add("flow-from-start_flow-event")
                    gen = _exec(P["flows"][own[0]], ctx, P, cell, fuel, {"entry": True})
                    cur = {"flow": own[0], "gen": gen, "pend": next(gen)}
                    advance(i)
                    if cur is None and instant is None and "stopped" not in cell.s:
                        instant = own[0]
                else:
                    status = "unspec"
        elif ev[0] == "bot":
            if not (cur and cur["pend"][0] == "bot" and cur["pend"][1] == ev[1]):
                raise AssertionError(f"driver/reference out of step at {ev} in {ahist}")
            advance(None)
        elif ev[0] == "done":
            if not (cur and cur["pend"][0] == "exec" and cur["pend"][1] == ev[1]):
                raise AssertionError(f"driver/reference out of step at {ev} in {ahist}")
            advance(ev[2])
        cum |= cell.s
    if hidden:
        cum.add("turn-taken-back")
        if just_hidden:
            cell.s = {"turn-taken-back"}
            from_path = "-"
    pend = cur["pend"] if cur else None
    expect = None
    param = None
    if pend is None:
        to_path = "end"
    elif pend[0] == "bot":
        expect = ("bot", pend[1])
        to_path = pend[2]
    elif pend[0] == "exec":
        expect = ("exec", pend[1], pend[3])
        param = pend[4]
        to_path = pend[2]
    else:
        to_path = "wait@" + pend[2]
    return {
        "status": status,
        "expect": expect,
        "param": param,
        "ctx": dict(ctx),
        "last": set(cell.s),
        "cum": cum,
        "leave": leave,
        "pending_user": _as_list(pend[1]) if pend and pend[0] == "user" else [],
        "cur_flow": cur["flow"] if cur else None,
        "susp": {k: _as_list(v) for k, v in susp.items()},
        "from": from_path,
        "to": to_path,
        "after_instant": after_instant,
        "hidden": hidden,
        "expr": cell.x[-1] if cell.x else None,  # the expression evaluated last before the checked decision
    }


# ------------------------------------------------------------------ the real implementation
_LIB = {}
YAML = "models: []\n"
DROP_KEYS = ("uid", "event_created_at", "source_uid", "action_uid", "action_started_at", "action_finished_at",
             "action_updated_at")
STUB = {"result": 1, "script": None, "calls": []}  # what the stub action returns / was called with
FAIL = "<the action raises>"  # scripted "result": the action fails (group `undo`)


class ImplHang(BaseException):
    pass


async def _stub_action(p=None):
    STUB["calls"].append(p)
    res = STUB["script"].popleft() if STUB["script"] else STUB["result"]
    if res == FAIL:
        raise RuntimeError("backend down")
    return res


def lib():
    if not _LIB:
        from nemoguardrails import RailsConfig
        from nemoguardrails.actions.action_dispatcher import ActionDispatcher
        from nemoguardrails.colang.v1_0.runtime import flows as F
        from nemoguardrails.colang.v1_0.runtime.runtime import RuntimeV1_0
        from nemoguardrails.utils import new_event_dict

        import logging

        # (the dispatcher logs the traceback of a failing action - group `undo` - on stderr)
        logging.getLogger("nemoguardrails.actions.action_dispatcher").setLevel(logging.CRITICAL)
        disp = ActionDispatcher(load_all_actions=False)
        for pfx in NAMES.values():
            for n in range(1, 12):
                disp.register_action(_stub_action, f"{pfx['a']}{n}")
        _LIB.update(RailsConfig=RailsConfig, F=F, Runtime=RuntimeV1_0, new_event_dict=new_event_dict,
                    dispatcher=disp, data_globals=_data_globals())
    return _LIB


_PLAIN = (int, float, str, bytes, bool, type(None), list, dict, set, frozenset, tuple)


def _data_globals():
    """(module, name) of every module-level data object (numbers, containers) of the Colang 1.0 runtime
    modules the decision function runs through: part of the state earlier calls could leave behind"""
    import importlib

    out = []
    for mn in ("sliding", "flows", "eval", "utils", "runtime"):
        try:
            m = importlib.import_module("nemoguardrails.colang.v1_0.runtime." + mn)
        except Exception:  # noqa
            continue
        for name, val in sorted(vars(m).items()):
            if name.startswith("__") or not isinstance(val, _PLAIN) or isinstance(val, (str, bytes)):
                continue
            try:
                pickle.dumps(val, pickle.HIGHEST_PROTOCOL)
            except Exception:  # noqa
                continue
            out.append((m, name))
    return out


def make_runtime(cfg, flows=None):
    """a real RuntimeV1_0 object without the expensive constructor (action loading, prompt renderer):
    the attributes generate_events / _compute_next_steps / _process_start_action use are set by hand,
    the flow configs are built by the runtime's own _init_flow_configs / _load_flow_config"""
    rt = object.__new__(_LIB["Runtime"])
    rt.config = cfg
    rt.verbose = False
    rt.action_dispatcher = _LIB["dispatcher"]
    rt.registered_action_params = {}
    rt.llm_task_manager = None
    rt.watchers = []
    rt.max_events = 500
    if flows is None:
        rt._init_flow_configs()
    else:
        rt.flow_configs = {}
        for f in flows:
            rt._load_flow_config(f)
    return rt


def _run(coro):
    """the runtime's coroutines never suspend here (stub actions, no LLM): run them by hand"""
    try:
        coro.send(None)
    except StopIteration as e:
        return e.value
    coro.close()
    raise RuntimeError("a runtime coroutine suspended")


def _alarm(signum, frame):
    raise ImplHang()


def guarded(fn):
    """one call into the real implementation (guarded by a 1 s CPU-time timer that keeps firing: a wrong
    jump offset can make slide() spin forever, and one alarm may be swallowed, e.g. inside a __del__)"""
    signal.signal(signal.SIGVTALRM, _alarm)
    try:
        try:
            signal.setitimer(signal.ITIMER_VIRTUAL, 1.0, 0.1)
            return ("ok", fn())
        finally:
            signal.setitimer(signal.ITIMER_VIRTUAL, 0)
    except ImplHang:
        return ("exc", "no result within 1 s of CPU time (endless slide)")
    except Exception as e:  # noqa
        return ("exc", f"{type(e).__name__}: {e}"[:300])


def norm(res):
    if res[0] != "ok":
        return res
    return ("ok", [{k: v for k, v in e.items() if k not in DROP_KEYS} for e in res[1]])


def decode(steps):
    """-> (context updates, step, shape problem)"""
    cu = {}
    step = None
    bad = None
    for idx, e in enumerate(steps):
        t = e.get("type")
        if t == "ContextUpdate" and step is None:
            cu.update(e["data"])
        elif t == "BotIntent" and step is None:
            step = ("bot", e["intent"])
        elif t == "StartInternalSystemAction" and step is None:
            step = ("exec", e["action_name"], e.get("action_result_key"))
        else:
            bad = f"unexpected event #{idx} {t}"
    return cu, step, bad


def show_step(s):
    if s is None:
        return "nothing (wait for the user)"
    if s[0] == "bot":
        return "stop" if s[1] == "stop" else f"bot {s[1]}"
    return f"${s[2]} = execute {s[1]}"


def kind_of(got, expect):
    if got == expect:
        return "same"
    if got is None:
        return "none"
    if expect is None:
        return "spurious-" + got[0]
    return "wrong-" + got[0]


class World:
    """one program: source, two independent parses, the long-lived (used) runtime object"""

    def __init__(self, P, order=("f1", "s1", "s2", "f2"), results=None):
        L = lib()
        self.P = P
        self.dyn = P.get("dyn")
        self.src = to_colang(P, order)
        self.cfg_used = L["RailsConfig"].from_content(colang_content=self.src, yaml_content=YAML)
        self.cfg_fresh = L["RailsConfig"].from_content(colang_content=self.src, yaml_content=YAML)
        self.parse_deterministic = self.cfg_used.flows == self.cfg_fresh.flows
        self.pristine = pickle.dumps(self.cfg_fresh.flows, pickle.HIGHEST_PROTOCOL)
        self.rt_used = make_runtime(self.cfg_used)
        self.plog = []
        self.tab = _intent_table(P)
        self.vars = tuple(P.get("vars") or VARS)  # the context variables whose values are compared
        blocks_ = list(P["flows"].values()) + list(P["subs"].values())
        self.results = (0, 1) if any(reads_r(b) for b in blocks_) else (1,)
        if results is not None:
            self.results = tuple(results)
        self.calls = 0
        self.trace = []  # (script, k) of every decision call made on the used runtime, in order
        self.state_checks = 0   # calls on the used runtime after which its state was compared
        self.state_changes = 0  # ... and differed from the state before the call
        self.changed = False    # did the last call on the used runtime change its state
        self.sd = self.state_bytes()

    def state_bytes(self):
        """everything a call can leave behind on the used instance: its flow configs (FlowConfig objects with
        their element dicts), the parsed flows of its config (the element dicts are shared), its plain
        attributes, and the module-level data objects of the runtime modules.  Equal bytes => equal state
        (the converse need not hold; a difference only triggers the repetition check)."""
        rt = self.rt_used
        attrs = sorted((k, v) for k, v in vars(rt).items() if k != "flow_configs" and isinstance(v, _PLAIN))
        globs = [(m.__name__, n, getattr(m, n, None)) for m, n in _LIB["data_globals"]]
        try:
            return pickle.dumps((rt.flow_configs, self.cfg_used.flows, attrs, globs), pickle.HIGHEST_PROTOCOL)
        except Exception as e:  # noqa  (something unpicklable was attached: that is a change, too)
            return f"unpicklable:{type(e).__name__}:{self.calls}".encode()

    def _after_used_call(self):
        self.state_checks += 1
        sd = self.state_bytes()
        self.changed = sd != self.sd
        if self.changed:
            self.state_changes += 1
            self.sd = sd

    def fresh(self):
        return make_runtime(self.cfg_fresh, pickle.loads(self.pristine))

    @staticmethod
    def decide(rt, hist, plog):
        """the decision call RuntimeV1_0.generate_events makes for a history: _process_start_flow when the last
        event is a start_flow event (it registers the flow, then calls _compute_next_steps), _compute_next_steps
        otherwise"""
        if hist and hist[-1]["type"] == "start_flow":
            return _run(rt._process_start_flow(hist, processing_log=plog))
        return _run(rt._compute_next_steps(hist, processing_log=plog))

    def eval_used(self, hist, nid=None):
        self.calls += 1
        if nid is not None:
            self.trace.append(["d", nid[0], nid[1]])
        del self.plog[:]
        try:
            return guarded(lambda: self.decide(self.rt_used, hist, self.plog))
        finally:
            self._after_used_call()

    def eval_fresh(self, hist, rt=None):
        self.calls += 1
        rt = rt or self.fresh()
        return guarded(lambda: self.decide(rt, hist, []))

    # --- what RuntimeV1_0.generate_events does around the decision function
    def user_events(self, intent, first):
        ev = [] if first else [_LIB["new_event_dict"]("Listen")]
        if self.P.get("utter"):
            # the event that opens a user turn in a conversation with the host (hide_prev_turn goes back to it)
            # (a plain dict, as LLMRails builds it from a user message)
            ev.append({"type": "UtteranceUserActionFinished", "final_transcript": intent})
        if self.dyn and intent == self.dyn["start"]:
            # not a user turn: the event that brings a flow into the conversation
            ev.append(_LIB["new_event_dict"]("start_flow", flow_id=self.dyn["flow"], flow_body=self.dyn["body"]))
        else:
            ev.append(_LIB["new_event_dict"]("UserIntent", intent=intent))
        return ev

    def action(self, rt, hist, result):
        """the real _process_start_action for the stub action returning `result`
        -> (("ok", events) | ("exc", text), argument the action was called with)"""
        STUB["result"] = result
        STUB["script"] = None
        del STUB["calls"][:]
        self.calls += 1
        res = guarded(lambda: _run(rt._process_start_action(hist)))
        if rt is self.rt_used:
            self._after_used_call()
        return res, (STUB["calls"][-1] if STUB["calls"] else "<not called>")

    def whole_turn(self, hist_at_user, results):
        """RuntimeV1_0.generate_events on the used runtime for one user turn"""
        STUB["script"] = deque(results)
        del STUB["calls"][:]
        self.calls += 1
        try:
            return guarded(lambda: _run(self.rt_used.generate_events(hist_at_user, processing_log=[])))
        finally:
            STUB["script"] = None
            self._after_used_call()

    def visible_context(self, hist):
        c = _LIB["F"].compute_context(hist)
        return {v: c.get(v) for v in self.vars}


def node_id(ahist, k):
    return ([list(e) for e in ahist if e[0] in ("user", "done")], k)


def check_node(W, ahist, hist, r, k=0):
    """evaluate one history on the used and on a fresh instance and compare with the reference.
    -> (steps or None, [violation (kind, signature, text)], decoded step)"""
    ru = W.eval_used(hist, node_id(ahist, k))
    rf = W.eval_fresh(hist)
    viol = []
    nu, nf = norm(ru), norm(rf)
    feats = "+".join(sorted(r["last"])) or "-"
    dyn_hist = "flow-from-start_flow-event" in r["cum"]
    if dyn_hist and nu != nf:
        return None, [(
            "dependence", DYN_SIG + ":unknown-to-another-instance",
            f"the history contains the start_flow event that defines flow {DYN_FLOW}; the runtime that processed that "
            f"event as the last event of an earlier call decides {_show_res(nu)}, a fresh runtime given the SAME history "
            f"decides {_show_res(nf)}{_field_diff(nu, nf)}")], None
    if r.get("after_instant"):
        return _check_after_instant(W, ahist, hist, r, ru, rf)
    where = f"{_short(r['from'])}->{_short(r['to'])}" if r["status"] == "strict" else "left-flow-involved"
    cls = None  # input classes with a signature of their own
    dollar = sorted(f[len("dollar-literal-in-"):] for f in r["cum"] if f.startswith("dollar-literal-in-"))
    if "continued-statement" in r["cum"]:
        cls = CONT_SIG
    elif dollar:
        cls = DOLLAR_SIG + ":" + "+".join(dollar)
    elif r.get("hidden"):
        cls = UNDO_SIG
    elif "adjacent-when" in r["cum"]:
        cls = WHEN_SIG
    elif "nested-call-at-subflow-entry" in r["last"]:
        cls = NESTED_SIG
    elif "else-body-dedented" in r["cum"]:
        cls = ELSE_DEDENT_SIG
    elif "aug-compound-rhs" in r["cum"]:
        cls = AUG_SIG
    elif dyn_hist:
        cls = DYN_SIG
    elif "exec-result-overwrites" in r["last"]:
        cls = RES_SIG
    if cls is None and r.get("expr"):
        cls = EXPR_SIG + ":" + r["expr"]
    if nu != nf:
        du = decode(ru[1])[1] if ru[0] == "ok" else ("exception",)
        df = decode(rf[1])[1] if rf[0] == "ok" else ("exception",)
        viol.append((
            "dependence",
            f"earlier-calls-matter:{where}:{feats}",
            f"the SAME history gives {_show_res(nu)} on the runtime used for the earlier calls but "
            f"{_show_res(nf)} on a freshly parsed copy{_field_diff(nu, nf)}",
        ))
        return None, viol, None
    if ru[0] != "ok":
        if r["status"] == "strict":
            viol.append(("exception", f"{cls}:exception" if cls else f"exception:{where}:{feats}",
                         f"expected {show_step(r['expect'])}, compute_next_steps raised {ru[1]}"))
        return None, viol, None
    steps = ru[1]
    cu, step, bad = decode(steps)
    if r["status"] != "strict":
        return steps, viol, step
    if bad:
        viol.append(("shape", f"shape:{where}:{feats}", f"decision is not [ContextUpdate,] step: {bad}"))
        return None, viol, step
    if step != r["expect"]:
        k = kind_of(step, r["expect"])
        if cls in (ELSE_DEDENT_SIG, AUG_SIG, RES_SIG, CONT_SIG, UNDO_SIG) or (
                cls and cls.startswith((EXPR_SIG + ":", DOLLAR_SIG + ":"))):
            sig = f"{cls}:step"  # whichever way the decided step differs (nothing / another one / one too many)
        elif cls:
            sig = f"{cls}:{'spurious-step' if k.startswith('spurious') else k}"
        elif r["leave"] and r["leave"] == "unknown-intent":
            sig = f"unknown-intent:{k}:{_short(r['from'])}"
        else:
            sig = f"step:{where}:{feats}:{k}"
        viol.append(("step", sig, f"expected {show_step(r['expect'])}, decided {show_step(step)}"))
        return None, viol, step
    vis = W.visible_context(hist + steps)
    want = {v: r["ctx"].get(v) for v in W.vars}
    if r.get("hidden"):
        # not demanded: the context the host sees is computed over all events, those of a hidden turn included
        # (the flows are replayed without them: what they read shows in the steps decided from here on)
        want = vis
    if vis != want:
        diff = [v for v in W.vars if vis[v] != want[v]]
        viol.append(("context", f"{cls}:context" if cls else f"context:${'+$'.join(diff)}:{where}:{feats}",
                     f"step {show_step(step)} as expected, but the context after it is {vis}, "
                     f"structured-program value {want}"))
        return None, viol, step
    return steps, viol, step


INSTANT_SIG = "after-an-episode-that-ended-within-its-start-event"
# input class: a subflow whose first executed statement is `do <another subflow>` (nothing of it has
# been decided or waited for yet)
NESTED_SIG = "nested-subflow-call-at-subflow-entry"
# input class: a `when` block directly followed by another `when` block (not `else when`) was entered
WHEN_SIG = "when-block-directly-after-when-block"
# input class: an if/else whose else body is indented LESS than its then body (both more than the `if` / `else`
# lines themselves) was executed
ELSE_DEDENT_SIG = "else-body-indented-less-than-then-body"
# input class: `$v += e` / `$v -= e` whose right-hand side e contains an operator was executed
AUG_SIG = "augmented-assignment-with-operator-in-right-hand-side"
# input class: the last event is the result of `$v = execute a` for a variable that already had a value (from a set,
# from an earlier execution of the same or another statement)
RES_SIG = "action-result-assigned-to-variable-that-has-a-value"
# input class: the history contains a start_flow event (flow id + flow body): the flow it defines is followed
DYN_SIG = "flow-defined-by-start_flow-event"
# input class: the statement executed last before the checked decision is an `if` / `while` / `$v = e` of group `expr`;
# the signature continues with that statement kind and the outermost operator of its expression
EXPR_SIG = "expr"
# input class: a statement written over two lines (trailing ` or` / backslash) was executed
CONT_SIG = "statement-continued-on-the-next-line"
# input class: the history contains a turn that was taken back (an action failed: hide_prev_turn)
UNDO_SIG = "after-a-turn-taken-back-by-a-failed-action"
# input class: an expression with a string literal in which a `$` is followed by a name was evaluated (continues
# with the statement kinds: set / if / while)
DOLLAR_SIG = "dollar-name-inside-string-literal"
# a generated program the parser / the runtime constructor rejects
REJECT_SIG = "program-rejected"
# how often one decision call is repeated on the used runtime when it changes the state of that runtime
PUMP_MAX = {"quick": 1500, "thorough": 6000}
PUMP_NODES = 3  # per program: the first histories (BFS order) whose call changed the state


def _check_after_instant(W, ahist, hist, r, ru, rf):
    """same checks, one signature: the input class is 'some flow ran from its start intent to its
    end without any bot/action/wait step earlier in this history'"""
    nu, nf = norm(ru), norm(rf)
    if nu != nf:
        return None, [("dependence", INSTANT_SIG, f"used configs give {_show_res(nu)}, fresh copy {_show_res(nf)}")], None
    if ru[0] != "ok":
        if r["status"] == "strict":
            return None, [("exception", INSTANT_SIG, f"expected {show_step(r['expect'])}, raised {ru[1]}")], None
        return None, [], None
    steps = ru[1]
    cu, step, bad = decode(steps)
    if r["status"] != "strict":
        return steps, [], step
    if bad or step != r["expect"]:
        return None, [("step", INSTANT_SIG, f"expected {show_step(r['expect'])}, decided {bad or show_step(step)}")], step
    vis = W.visible_context(hist + steps)
    want = {v: r["ctx"].get(v) for v in W.vars}
    if vis != want:
        return None, [("context", INSTANT_SIG, f"step {show_step(step)} as expected, but the context after it is "
                       f"{vis}, structured-program value {want}")], step
    return steps, [], step


def _short(path):
    """keep the flow name / innermost constructs of a statement path (at most three components)"""
    if path in ("-", "end"):
        return path
    pre = ""
    if path.startswith("wait@"):
        pre, path = "wait@", path[5:]
    parts = path.split(">")
    return pre + ">".join(parts[-3:]) if len(parts) > 3 else pre + path


def _field_diff(nu, nf):
    """which event fields differ when the summaries look the same"""
    if nu[0] != "ok" or nf[0] != "ok" or len(nu[1]) != len(nf[1]):
        return ""
    out = []
    for a, b in zip(nu[1], nf[1]):
        for key in sorted(set(a) | set(b)):
            if a.get(key) != b.get(key):
                out.append(f"{a.get('type')}.{key}: used {a.get(key)!r} / fresh {b.get(key)!r}")
    return (" [" + "; ".join(out) + "]") if out else ""


def _show_res(n):
    if n[0] != "ok":
        return f"exception {n[1]}"
    cu, step, bad = decode(n[1])
    return f"[{'ContextUpdate ' + str(cu) + ', ' if cu else ''}{show_step(step)}]"


NONTRIVIAL = ("if-then", "if-else", "if-skip", "skip-else", "while-iter", "while-back", "while-exit",
              "sub-call", "sub-return", "when-first", "when-else", "skip-else-when", "break", "continue", "stopped")


def explore(task):
    """BFS over all histories of one program within the bounds"""
    idx, main, subs, f2name, opts = task
    if opts.get("family") == "api":
        return c14_state.explore_api(task)
    max_user, max_dev, seed = opts["max_user"], opts["max_dev"], opts.get("seed", 0)
    P = label(main, subs, F2_VARIANTS[f2name], opts.get("layout"), opts.get("dyn"))
    if opts.get("vars"):
        P["vars"] = list(opts["vars"])
    if opts.get("utter"):
        P["utter"] = True
    order = ("f1", "s1", "s2", "f2") if seed % 2 == 0 else ("f2", "s2", "s1", "f1")
    try:
        W = World(P, order, opts.get("results"))
    except Exception as e:  # noqa  (a program of the quantified domain that cannot even be loaded)
        return _rejected(idx, P, order, opts, e)
    max_acts = opts.get("max_acts")
    max_fail = opts.get("max_fail", 0)
    counts = {
        "programs": 1, "states": 0, "transitions": 0, "traces_validated_against_impl": 0,
        "strict_decisions_checked": 0, "left_flow_histories_second_clause_only": 0,
        "nontrivial_histories": 0, "user_points": 0, "action_points": 0,
        "decisions_bot": 0, "decisions_action": 0, "decisions_wait": 0,
        "leave_other_flow_checked": 0, "leave_unknown_intent_checked": 0,
        "actions_executed_used_and_fresh": 0, "action_arguments_checked": 0,
        "turns_compared_with_generate_events": 0,
        "reevaluated_after_all_calls": 0, "reference_states": 0, "max_history_len": 0,
        "parse_nondeterministic_programs": 0 if W.parse_deterministic else 1,
        "flow_configs_changed_by_use": 0, "violating_histories": 0,
        "instance_state_compared_after_used_call": 0, "instance_state_changing_calls": 0,
        "repeated_histories": 0, "repetition_calls": 0, "repetition_chains_closed": 0,
        "repetition_chains_cut_at_bound": 0, "repetition_chains_differs": 0, "repetition_chains_blind_completed": 0,
        "result_assigned_over_earlier_value_checked": 0, "falsy_result_over_truthy_value_checked": 0,
        "histories_with_start_flow_event": 0, "start_flow_turns_compared_with_generate_events": 0,
        "programs_rejected": 0, "decisions_after_a_continued_statement_checked": 0,
        "decisions_after_a_turn_taken_back_checked": 0, "actions_failed": 0,
        "decisions_after_a_literal_with_dollar_name_checked": 0,
    }
    changers = []  # the first histories whose decision call changed the state of the used runtime
    feat_counts = {}
    viols = {}
    sample = None
    refstates = set()
    first_nodes = []
    unk = UNKNOWN_INTENT
    W.trace = []

    def add_viol(kind, sig, text, ahist, hist_len, k=0, extra=None):
        counts["violating_histories"] += 1
        v = viols.get(sig)
        script = [list(e) for e in ahist if e[0] in ("user", "done")]
        if v is None or (len(script), hist_len) < v["size"][1:3]:
            n = v["n"] if v else 0
            viols[sig] = {
                "signature": sig, "n": n + 1,
                "size": (prog_size(P), len(script), hist_len, len(W.src)),
                "what": f"program `{_oneline(W.src)}`" + (
                    f" + event start_flow(flow_id={W.dyn['flow']}, flow_body=`{_oneline(W.dyn['body'])}`)" if W.dyn else "")
                + f" script {_show_script(script, W.dyn)}: {text}",
                "replay": dict({"source": W.src, "program": P, "order": list(order), "script": script, "k": k,
                                "kind": kind, "detail": text}, **(extra or {})),
                "_trace_len": len(W.trace) - 1,
            }
        else:
            v["n"] += 1

    # node = (abstract history, concrete history, reference result, user turns, unexpected turns used,
    #         depth, terminal (a left flow is involved: finish this turn only), actions that returned 0,
    #         k = decision rounds since the last user / action-result event,
    #         index in the history of the UserIntent that opened the current turn)
    q = deque()
    r0 = ref_run(P, (), W.tab)

    def push_user_children(ahist, hist, r, n_user, dev, depth, zeros):
        cands = []
        for i in r["pending_user"] + ["u0", "j0", unk] + sorted(x for v in r["susp"].values() for x in v):
            if i not in cands:
                cands.append(i)
        if W.dyn and r["cur_flow"] is None and not r["susp"]:
            # no flow is being followed and none was left: a start_flow event may arrive (the flow it carries is
            # then followed from its start like a configured one)
            cands.append(W.dyn["start"])
        if seed:
            cands = cands[seed % len(cands):] + cands[:seed % len(cands)]
        for i in cands:
            ah2 = ahist + (("user", i),)
            r2 = ref_run(P, ah2, W.tab)
            if r2["status"] == "unspec":
                cost, terminal = 0, True
            elif i in r["pending_user"]:
                cost, terminal = 0, False
            elif (i == "u0" or (W.dyn and i == W.dyn["start"])) and r["cur_flow"] is None and not r["susp"]:
                cost, terminal = 0, False
            else:
                cost, terminal = 1, False
            if dev + cost > max_dev:
                continue
            h2 = hist + W.user_events(i, not hist)
            q.append((ah2, h2, r2, n_user + 1, dev + cost, depth + 1, terminal, zeros, 0, len(h2)))

    push_user_children((), [], r0, 0, 0, 0, 0)
    while q:
        ahist, hist, r, n_user, dev, depth, terminal, zeros, k, turn_at = q.popleft()
        counts["states"] += 1
        counts["traces_validated_against_impl"] += 1
        counts["max_history_len"] = max(counts["max_history_len"], len(hist))
        steps, vs, step = check_node(W, ahist, hist, r, k)
        if W.changed and steps is not None and not vs and len(changers) < PUMP_NODES:
            changers.append((ahist, hist, k, norm(("ok", steps)),
                             f"{_short(r['from'])}->{_short(r['to'])}" if r["status"] == "strict" else "left-flow-involved",
                             "+".join(sorted(r["last"])) or "-"))
        if len(first_nodes) < 6:
            first_nodes.append((ahist, hist, norm(("ok", steps)) if steps is not None else None, k))
        for kind, sig, text in vs:
            add_viol(kind, sig, text, ahist, len(hist), k)
        strict = r["status"] == "strict"
        if strict:
            counts["strict_decisions_checked"] += 1
            if r["cum"] & set(NONTRIVIAL):
                counts["nontrivial_histories"] += 1
            for f in r["last"]:
                feat_counts[f] = feat_counts.get(f, 0) + 1
            if "exec-result-overwrites" in r["last"]:
                counts["result_assigned_over_earlier_value_checked"] += 1
            if "falsy-result-over-truthy-value" in r["last"]:
                counts["falsy_result_over_truthy_value_checked"] += 1
            if "flow-from-start_flow-event" in r["cum"]:
                counts["histories_with_start_flow_event"] += 1
            if "continued-statement" in r["cum"]:
                counts["decisions_after_a_continued_statement_checked"] += 1
            if r.get("hidden"):
                counts["decisions_after_a_turn_taken_back_checked"] += 1
            if any(f.startswith("dollar-literal-in-") for f in r["cum"]):
                counts["decisions_after_a_literal_with_dollar_name_checked"] += 1
            if r["leave"] == "unknown-intent":
                counts["leave_unknown_intent_checked"] += 1
            elif r["leave"] and "left-flow" in r["last"]:
                counts["leave_other_flow_checked"] += 1
            refstates.add((r["cur_flow"], r["to"], tuple(sorted((a, repr(b)) for a, b in r["ctx"].items())),
                           tuple(sorted((a, tuple(b)) for a, b in r["susp"].items()))))
        else:
            counts["left_flow_histories_second_clause_only"] += 1
        if steps is None or depth >= opts["max_depth"]:
            continue
        if step is None:
            counts["decisions_wait"] += 1
        elif step[0] == "bot":
            counts["decisions_bot"] += 1
        else:
            counts["decisions_action"] += 1
        if sample is None and strict and len(r["cum"] & set(NONTRIVIAL)) >= 2 and step is not None:
            sample = {"program": W.src, "history": [_ev_brief(e) for e in hist],
                      "decided": [_ev_brief(e) for e in steps], "reference_expected": show_step(r["expect"]),
                      "constructs_exercised": sorted(r["cum"])}
        if not steps:
            # Listen -> user point.  A turn in which actions ran is also produced in one go by the real
            # generate_events on the used runtime and compared with the events collected step by step.
            counts["user_points"] += 1
            turn_results = []
            for e in reversed(ahist):
                if e[0] == "user":
                    break
                if e[0] == "done":
                    turn_results.append(e[2])
            sf_turn = hist[turn_at - 1]["type"] == "start_flow"
            if turn_results or sf_turn:
                counts["turns_compared_with_generate_events"] += 1
                counts["start_flow_turns_compared_with_generate_events"] += int(sf_turn)
                turn_script = node_id(ahist, 0)[0]
                while turn_script and turn_script[-1][0] != "user":
                    turn_script.pop()
                W.trace.append(["t", turn_script, list(reversed(turn_results))])
                whole = W.whole_turn(hist[:turn_at], list(reversed(turn_results)))
                stepwise = norm(("ok", hist[turn_at:] + [_LIB["new_event_dict"]("Listen")]))
                if norm(whole) != stepwise:
                    add_viol("turn", "generate_events-differs-from-stepwise-calls",
                             f"generate_events on the used runtime produced {_brief_res(whole)} for this turn, the "
                             f"step-by-step calls {[_ev_brief(e) for e in stepwise[1]]}", ahist, len(hist), k,
                             {"turn": [turn_script, list(reversed(turn_results))]})
                    continue
            if terminal or not strict or n_user >= max_user:
                continue
            push_user_children(ahist, hist, r, n_user, dev, depth, zeros)
            continue
        h2 = hist + steps
        if steps[-1]["type"] == "StartInternalSystemAction":
            counts["action_points"] += 1
            n_acts = sum(1 for e in ahist if e[0] == "done")
            for res in W.results:
                if isinstance(res, int) and res == 0 and zeros >= opts["max_zero"]:
                    continue
                if max_acts is not None and n_acts >= max_acts:
                    continue
                if res == FAIL and sum(1 for e in ahist if e[0] == "done" and e[2] == FAIL) >= max_fail:
                    continue
                ah2 = ahist + (("done", step[1], res),)
                W.trace.append(["a"] + list(node_id(ahist, k)) + [res])
                au, arg_u = W.action(W.rt_used, h2, res)
                af, arg_f = W.action(W.fresh(), h2, res)
                counts["actions_executed_used_and_fresh"] += 1
                counts["actions_failed"] += int(res == FAIL)
                if norm(au) != norm(af) or arg_u != arg_f:
                    add_viol("action-dependence", f"earlier-calls-matter:action-execution:{_short(r['to'])}",
                             f"_process_start_action for the SAME history: used runtime called the action with p={arg_u!r} "
                             f"and appended {_brief_res(au)}, a fresh runtime called it with p={arg_f!r} and appended "
                             f"{_brief_res(af)}", ah2, len(h2), k)
                    continue
                if au[0] != "ok":
                    if strict:
                        add_viol("exception", f"exception:action-execution:{_short(r['to'])}",
                                 f"_process_start_action raised {au[1]}", ah2, len(h2), k)
                    continue
                if strict:
                    counts["action_arguments_checked"] += 1
                    if arg_u != r["param"]:
                        # after a turn that was taken back the argument comes from the context over ALL events (those of the
                        # hidden turn included), the flow is replayed without them: a class of its own
                        add_viol("action-argument", f"action-argument:{UNDO_SIG}" if r.get("hidden") else f"action-argument:{_short(r['to'])}",
                                 f"`execute {step[1]}(p=$c)` was called with p={arg_u!r}, $c is {r['param']!r}"
                                 + (" (the flow is replayed without the hidden turn, the argument is read from the context over all events)" if r.get("hidden") else ""),
                                 ah2, len(h2), k)
                        continue
                q.append((ah2, h2 + au[1], ref_run(P, ah2, W.tab) if strict else r,
                          n_user, dev, depth + 1, terminal, zeros + (isinstance(res, int) and res == 0), 0, turn_at))
        elif step is not None:
            ah2 = ahist + (("bot", step[1]),)
            q.append((ah2, h2, ref_run(P, ah2, W.tab) if strict else r, n_user, dev, depth + 1, terminal, zeros,
                      k + 1, turn_at))
        else:
            # only a ContextUpdate was decided: the runtime calls the decision function again
            q.append((ahist, h2, ref_run(P, ahist, W.tab) if strict else r, n_user, dev, depth + 1, terminal, zeros,
                      k + 1, turn_at))
    # a call that leaves the used runtime in another state than it found it: the same call again and again,
    # until the state of the runtime recurs (then every further repetition is one already seen) or the bound
    todo = [c + (True,) for c in changers]
    for ahist, hist, before, k in first_nodes[:opts.get("repeat_blind", 0)]:
        # the same repetitions without any visible reason (state that is kept out of sight): no early end
        if before is not None and not any(c[1] is hist for c in changers):
            rr = ref_run(P, ahist, W.tab)
            todo.append((ahist, hist, k, before,
                         f"{_short(rr['from'])}->{_short(rr['to'])}" if rr["status"] == "strict" else "left-flow-involved",
                         "+".join(sorted(rr["last"])) or "-", False))
    for ahist, hist, k, before, where, feats, by_state in todo:
        counts["repeated_histories"] += 1
        seen = {W.sd}
        nid = node_id(ahist, k)
        n, verdict = 0, "cut_at_bound"
        while n < opts.get("pump_max", 0):
            n += 1
            again = norm(W.eval_used(hist))
            counts["repetition_calls"] += 1
            if again != before:
                verdict = "differs"
                W.trace.append(["r", nid[0], nid[1], n - 1])
                W.trace.append(["d", nid[0], nid[1]])
                add_viol("dependence", f"earlier-calls-matter:same-call-repeated:{where}:{feats}",
                         f"the history gave {_show_res(before)} when it was first evaluated (like a fresh runtime); "
                         + ("every evaluation changes the state of the runtime object, and " if by_state else "")
                         + f"repetition {n} of the same call on the used runtime gives {_show_res(again)}",
                         ahist, len(hist), k, {"repetitions": n})
                break
            if by_state and (not W.changed or W.sd in seen):
                verdict = "closed"
                break
            if by_state:
                seen.add(W.sd)
        if verdict != "differs":
            W.trace.append(["r", nid[0], nid[1], n])
        if verdict == "cut_at_bound" and not by_state:
            verdict = "blind_completed"
        counts["repetition_chains_" + verdict] += 1
        if verdict == "differs":
            break
    # the first histories once more on the used runtime, after every other call was made
    for ahist, hist, before, k in first_nodes:
        if before is None:
            continue
        counts["reevaluated_after_all_calls"] += 1
        again = norm(W.eval_used(hist, node_id(ahist, k)))
        if again != before:
            add_viol("dependence", "earlier-calls-matter:re-evaluation-after-longer-histories",
                     f"history evaluated first gave {_show_res(before)}, the same history after all other calls "
                     f"of this program gives {_show_res(again)}", ahist, len(hist), k)
    if _strip_private(W.cfg_used.flows) != _strip_private(pickle.loads(W.pristine)):
        counts["flow_configs_changed_by_use"] = 1
    counts["transitions"] = W.calls
    counts["instance_state_compared_after_used_call"] = W.state_checks
    counts["instance_state_changing_calls"] = W.state_changes
    counts["reference_states"] = len(refstates)
    for v in viols.values():
        n = v.pop("_trace_len")
        if v["replay"]["kind"] in ("dependence", "action-dependence", "turn"):
            v["replay"]["earlier_calls_on_used_configs"] = W.trace[:max(n, 0)]
    return {"idx": idx, "counts": counts, "features": feat_counts, "violations": list(viols.values()),
            "sample": sample, "size": prog_size(P), "grammar": opts["grammar"]}


def _rejected(idx, P, order, opts, exc):
    """result of explore() for a program that could not be loaded"""
    src = to_colang(P, order)
    cont = "cont_style" in (P.get("layout") or {})
    sig = (CONT_SIG if cont else REJECT_SIG + ":" + str(opts["grammar"]).split(":")[0]) + ":rejected-by-the-parser"
    text = f"the program is not accepted: {type(exc).__name__}: {exc}"[:400]
    counts = {"programs": 1, "states": 0, "transitions": 0, "traces_validated_against_impl": 0,
              "programs_rejected": 1, "violating_histories": 1}
    v = {"signature": sig, "n": 1, "size": (prog_size(P), 0, 0, len(src)),
         "what": f"program `{_oneline(src)}`: {text}",
         "replay": {"source": src, "program": P, "order": list(order), "script": [], "k": 0, "kind": "rejected",
                    "detail": text}}
    return {"idx": idx, "counts": counts, "features": {}, "violations": [v], "sample": None, "size": prog_size(P),
            "grammar": opts["grammar"]}


def _brief_res(res):
    if res[0] != "ok":
        return f"exception {res[1]}"
    return str([_ev_brief(e) for e in res[1]])


def _strip_private(flows):
    return [{"id": f.get("id"), "elements": f.get("elements")} for f in flows]


def _oneline(src):
    return src.strip().replace("\n\n", " || ").replace("\n", "; ")


def _show_script(script, dyn=None):
    def one(e):
        if e[0] == "user":
            return f"start_flow {dyn['flow']}" if dyn and e[1] == dyn["start"] else f"user {e[1]}"
        return f"{e[1]} returns {e[2]!r}"

    return "[" + ", ".join(one(e) for e in script) + "]"


def _ev_brief(e):
    t = e["type"]
    if t in ("UserIntent", "BotIntent"):
        return f"{t}({e['intent']})"
    if t == "ContextUpdate":
        return f"ContextUpdate({e['data']})"
    if t == "StartInternalSystemAction":
        return f"StartInternalSystemAction({e['action_name']} -> ${e['action_result_key']})"
    if t == "InternalSystemActionFinished":
        return f"InternalSystemActionFinished({e['action_name']} = {e['return_value']})"
    return t


# ------------------------------------------------------------------ tiers
def plan(tier):
    """[(grammar, size, [(main, subflows)], f2 variant, bounds)] smallest first"""
    small = {"max_user": 3, "max_dev": 1, "max_zero": 1}
    big = {"max_user": 4, "max_dev": 2, "max_zero": 2}
    out = []
    X = c14_expr
    # (first, so that a time cap on a loaded machine does not cut them)
    # statements continued on the next line: trailing ` or` / backslash, second line indented in three ways
    cont = {"max_user": 3, "max_dev": 0, "max_zero": 1, "prio": True}
    out.append(("cont", "2-3" if tier == "quick" else "2-4", cont_programs((2, 3) if tier == "quick" else (2, 3, 4)),
                "simple", cont))
    # a turn taken back: an action fails (internal error + hide_prev_turn), then the conversation goes on
    undo = {"max_zero": 99, "results": [1, FAIL], "utter": True, "prio": True}
    if tier == "quick":
        out.append(("undo", "2", undo_programs((2,)), "simple", dict(undo, max_user=4, max_dev=1, max_fail=1)))
        out.append(("undo", "3", undo_programs((3,)), "simple", dict(undo, max_user=4, max_dev=0, max_fail=1)))
    else:
        out.append(("undo", "2-3", undo_programs((2, 3)), "simple", dict(undo, max_user=5, max_dev=1, max_fail=2)))
        out.append(("undo", "4", undo_programs((4,)), "simple", dict(undo, max_user=4, max_dev=0, max_fail=1)))
    # string literals with `$name` in them: assigned, concatenated, measured, compared with an action result
    dl = {"max_user": 1 if tier == "quick" else 2, "max_dev": 1, "max_zero": 99, "vars": ["c", "s", "k"], "prio": True}
    out.append(("expr-dollar-set", "literals x 4 forms", X.set_programs(X.dollar_set_exprs()), "simple", dl))
    out.append(("expr-dollar-if", "literals x 4 conditions", X.cond_programs(X.dollar_conds()), "simple", dl))
    out.append(("expr-dollar-field", "5 conditions", X.cond_programs(X.dollar_result_conds(), attr=True), "simple",
                dict(dl, vars=["c", "s", "r"], results=[X.D_RESULT])))
    # the conversation held through LLMRails.generate_async, one call per user turn (vf/props/c14_state.py); first:
    # these programs take longest
    for carrier in c14_state.CARRIERS:
        out.append(("api-" + carrier, "1-2" if tier == "quick" else "1-3",
                    c14_state.state_programs((1, 2) if tier == "quick" else (1, 2, 3)), "two-turn-set",
                    {"family": "api", "carrier": carrier, "max_user": 4 if tier == "quick" else 5, "max_dev": 1}))
    # expressions: every condition / right-hand side with <= n operators (see vf/props/c14_expr.py)
    ex = {"max_user": 1 if tier == "quick" else 2, "max_dev": 1, "max_zero": 99, "vars": ["c", "s", "k"]}
    nb = (1, 2) if tier == "quick" else (1, 2, 3)
    conds = [c for n in nb for c in X.b_exprs(n)]
    if tier == "quick":  # of the conditions with three operators: every `x or y` / `x and y` of two comparisons
        conds += [c for c in X.b_exprs(3) if c[1] in (X.P_OR, X.P_AND)]
    out.append(("expr-if", "ops<=2 + or/and of two" if tier == "quick" else "ops<=3", X.cond_programs(conds), "simple", ex))
    out.append(("expr-set", "ops 1-2" if tier == "quick" else "ops 1-3",
                X.set_programs([e for n in nb for e in X.s_exprs(n)]), "simple", ex))
    out.append(("expr-while", "ops 1 (+ and $c < 2)", X.while_programs(X.b_exprs(1)), "simple", ex))
    out.append(("expr-field", "atoms + or/and of two", X.cond_programs(X.r_exprs(), attr=True), "simple",
                dict(ex, vars=["c", "s", "r"], results=[X.R_VALUE])))
    # groups of their own (first, so that a time cap never cuts them): the same programs in other text layouts,
    # augmented assignments
    one = {"max_user": 3, "max_dev": 1, "max_zero": 1}
    out.append(("layout-lay", "2-3" if tier == "quick" else "2-4",
                layout_programs("lay", (2, 3) if tier == "quick" else (2, 3, 4)), "simple", one))
    out.append(("layout-ctl", "2-3" if tier == "quick" else "2-4",
                [p for p in layout_programs("ctl", (2, 3) if tier == "quick" else (2, 3, 4)) if has(p[0], "WN")],
                "simple", one))
    out.append(("aug", "2-5", aug_programs(), "simple", one))
    # action results of every JSON type assigned to a variable that already has a value
    rv = list(RES_VALUES[tier])
    out.append(("res", "3", res_programs((3,)), "simple",
                {"max_user": 3, "max_dev": 1, "max_zero": 99, "max_acts": 3, "results": rv}))
    out.append(("res", "4", res_programs((4,)), "simple",
                {"max_user": 3, "max_dev": 0, "max_zero": 99, "max_acts": 2 if tier == "quick" else 3, "results": rv[:6]}))
    if tier != "quick":
        out.append(("res", "5", res_programs((5,)), "simple",
                    {"max_user": 3, "max_dev": 0, "max_zero": 99, "max_acts": 2, "results": rv[:5]}))
    # flows that arrive in the history (start_flow event) instead of the configuration
    out.append(("dyn", "1+1-3" if tier == "quick" else "1+1-4",
                dyn_programs((1,), (1, 2, 3)) if tier == "quick" else dyn_programs((1,), (1, 2, 3, 4)), "simple",
                {"max_user": 3 if tier == "quick" else 4, "max_dev": 1, "max_zero": 1}))
    for k in (3, 6, 12):
        out.append(("loop", f"k={k}", loop_programs((k,)), "simple",
                    {"max_user": k + 3, "max_dev": 1 if k == 3 else 0, "max_zero": 1, "repeat_blind": 1 if k == 3 else 0}))
    if tier == "quick":
        for n in (1, 2, 3):
            out.append(("full", n, programs("full", n, (1, 2)), "simple", small))
            out.append(("full", n, programs("full", n, (1, 2)), "two-turn-set", small))
        for n in (3, 4, 5):
            out.append(("nsub", n, programs("nsub", n, (1, 2, 3), (1, 2)), "simple", small))
        for n in (1, 2, 3, 4):
            out.append(("ctl", n, programs("ctl", n), "simple", dict(small, repeat_blind=1) if n == 2 else small))
        out.append(("full", 4, programs("full", 4, (1, 2)), "simple", small))
    else:
        for n in (1, 2, 3):
            out.append(("full", n, programs("full", n, (1, 2)), "simple", big))
            out.append(("full", n, programs("full", n, (1, 2)), "two-turn-set", big))
        for n in (3, 4, 5, 6):
            out.append(("nsub", n, programs("nsub", n, (1, 2, 3), (1, 2)), "simple", big))
        for n in (1, 2, 3, 4, 5):
            out.append(("ctl", n, programs("ctl", n), "simple", dict(big, repeat_blind=2) if n <= 3 else big))
        out.append(("full", 4, programs("full", 4, (1, 2)), "simple", big))
        out.append(("nest", 5, programs("nest", 5), "simple", big))
        out.append(("nest", 6, programs("nest", 6), "simple", big))
        out.append(("ctl", 6, programs("ctl", 6), "simple", small))
        out.append(("full", 5, programs("full", 5, (1, 2)), "simple", small))
    return out


def run(rep, tier):
    from vf import par

    lib()
    import vf.engines.world  # noqa  (group `api`: imported before the workers are forked)
    seed = rep.seed
    groups = plan(tier)
    ts = []
    totals = {}
    bounds = {}
    for g, n, progs, f2, bnd in groups:
        key = f"{g}:size={n}:f2={f2}"
        totals[key] = len(progs)
        bounds[key] = bnd
        for pr in progs:
            main, subs = pr[0], pr[1]
            ts.append((len(ts), main, subs, f2, dict(bnd, max_depth=60, seed=seed, grammar=key,
                                                     layout=pr[2] if len(pr) > 2 else None,
                                                     dyn=pr[3] if len(pr) > 3 else None,
                                                     pump_max=PUMP_MAX[tier])))
    # a program of group `api` takes as long as a few hundred of the others: one per chunk of the pool, not eight
    CH = 8
    slow = [t for t in ts if t[4].get("family") == "api"]
    rest = [t for t in ts if t[4].get("family") != "api" and not t[4].get("prio")]
    # the groups that go first are not held up by a slow program in their chunk (whole chunks of their own)
    ts = [t for t in ts if t[4].get("prio")]
    pad = -len(ts) % CH
    ts, rest = ts + rest[:pad], rest[pad:]
    for j, t in enumerate(slow):
        ts += [t] + rest[(CH - 1) * j:(CH - 1) * (j + 1)]
    ts += rest[(CH - 1) * len(slow):]
    budget = 50 if tier == "quick" else 17 * 60
    deadline = time.time() + budget
    done = {}
    by_sig = {}
    feats = {}
    n_done = 0
    for res in par.pmap(explore, ts, chunksize=CH, deadline=deadline):
        n_done += 1
        done[res["grammar"]] = done.get(res["grammar"], 0) + 1
        rep.merge_counts(res["counts"])
        for k, v in res["features"].items():
            feats[k] = feats.get(k, 0) + v
        if res["sample"] and res["size"] >= 3:
            rep.sample(res["sample"])
        for v in res["violations"]:
            cur = by_sig.get(v["signature"])
            if cur is None:
                by_sig[v["signature"]] = v
            elif (v["size"], v["what"]) < (cur["size"], cur["what"]):
                v["n"] += cur["n"]
                by_sig[v["signature"]] = v
            else:
                cur["n"] += v["n"]
    new = 0
    for sig in sorted(by_sig, key=lambda s: (by_sig[s]["size"], s)):
        v = by_sig[sig]
        if rep.violation(sig, v["what"] + f"  [{v['n']} histories show this class]", v["replay"]):
            new += 1
    rep.set("programs_planned", len(ts))
    rep.set("programs_by_group", {k: {"planned": totals[k], "explored": done.get(k, 0)} for k in totals})
    rep.set("constructs_exercised_in_checked_decisions", feats)
    rep.set("distinct_nontrivial", rep.cov.get("nontrivial_histories", 0))
    rep.set("rule", "a history is non-trivial when the reference run took an if branch, skipped an else, "
                    "iterated / re-checked / left a while loop or called / returned from a subflow before the checked decision; "
                    "group api: also when the flow that decides the reply has been followed since two or more calls")
    rep.set("violation_classes", {s: {"histories": v["n"], "smallest": v["what"]} for s, v in sorted(by_sig.items())})
    rep.set("violation_classes_found", len(by_sig))
    rep.set("violation_classes_not_in_known_findings", new)
    rep.set("bounds", {"action_results_res_groups (a group may use a prefix, see per_group)": [repr(v) for v in RES_VALUES[tier]],
                       "repetitions_of_a_call_that_changes_the_instance_state": PUMP_MAX[tier],
                       "histories_repeated_per_program": PUMP_NODES,
                       "indentation_steps": [2, 4], "augmented_assignment_right_hand_sides": list(AUG_RHS),
                       "expression_atoms": list(c14_expr.S_ATOMS) + list(c14_expr.C_ATOMS),
                       "expression_value_of_$s": c14_expr.S_VALUE, "expression_action_result": c14_expr.R_VALUE,
                       "expression_conditions_over_result_fields": [t for t, _ in c14_expr.r_atoms()],
                       "continuation_line_indentation_relative_to_first_line": list(CONT_HANGS),
                       "string_literals_with_dollar_name": list(c14_expr.D_LITS),
                       "action_result_of_expr_dollar_field": c14_expr.D_RESULT,
                       "api_carriers": list(c14_state.CARRIERS),
                       "per_group (max user turns / max unexpected turns / max actions returning 0 per history)": bounds,
                       "action_results": [0, 1], "grammars": GRAMMARS})
    rep.set("exhaustive", n_done == len(ts))
    if n_done < len(ts):
        full_groups = [k for k in totals if done.get(k, 0) == totals[k]]
        rep.set("cap_hit", f"time budget {budget}s: {n_done}/{len(ts)} programs explored; groups fully covered: {full_groups}")
    rep.assumptions += [
        "programs: all statement trees within the size bounds of the two grammars in the module docstring, "
        "restricted to well-formed terminating structured programs; names are canonical (one per statement)",
        "histories: what RuntimeV1_0.generate_events builds for the user's flows alone (no LLM system flows): "
        "UserIntent, events decided by _compute_next_steps, the events _process_start_action appends for a stub "
        "action (results 0 and 1), Listen; turns with actions are cross-checked against generate_events itself",
        "the runtime object is a real RuntimeV1_0 whose expensive constructor is skipped (attributes set by hand, "
        "flow configs from its own _init_flow_configs)",
        "`break` / `continue` are not described in the Colang 1.0 docs; they get their conventional meaning (ctl groups)",
        "demanded only while the conversation follows a flow from its start intent, starts another flow that was not "
        "left before, or contains an intent no flow knows; histories that involve a flow left earlier are only "
        "checked for identical decisions on the used and the fresh instance",
        "fresh instance = runtime whose flow configs are built from a pristine copy of an independent second parse",
        "VERIF_SEED only changes the order of the flow definitions in the text and the order of user choices",
        "layout groups: indentation steps 2 and 4 per block kind, blocks indented relative to their opening line; "
        "the docs recommend (not require) two spaces and call the syntax pythonic, so every such text is the same program",
        "`+=` / `-=` are parser shorthands the docs do not describe; conventional meaning (right-hand side first), "
        "right-hand sides from AUG_RHS, evaluated by Python in the reference",
        "res groups: the stub action returns every value of RES_VALUES (None, 0, False, '', [], {} and truthy "
        "counterparts; quick: a subset, see bounds) at every execution; conditions `$r == 1`, `$r`, `not $r`, `while $r` "
        "are read with Python's truth value / comparison",
        "dyn group: a start_flow event (flow id + body text) is part of the event history (the v1 runtime produces "
        "and consumes it: generate_flow_from_instructions, generate_events); it is offered only while no flow is "
        "followed or left, the flow it defines is then a flow like the configured ones",
        "expr groups: expressions are written with the parentheses Python's precedence needs and no others; their "
        "reference value is Python's value of the same text (`$name` = reference value of the variable, a JSON object "
        "read by attribute = its key; no key is the name of a dict method); list / dict literals are not part of the "
        "v1 expression language (the evaluator rejects them), so lists and objects come from an action result",
        "api groups: a real LLMRails with a scripted LLM (names the user's intent of the turn, answers the library's "
        "fallback flow with a fixed step) and a registered fake embedding engine; one generate_async call per user turn; "
        "the conversation is carried in the state object the previous call returned (first call {'events': []}) or in "
        "the growing message list; judged: the bot steps of the user's flows in each reply; a history ends after a turn "
        "in which the reference decides no bot step (the fallback flow's LLM step is not modelled); turns involving a "
        "flow left earlier are not run",
        "cont group: a line ending in ` or` or a backslash is joined with the next line by the parser's line reader "
        "(nemoguardrails/colang/v1_0/lang/utils.py:get_numbered_lines); the indentation of the second line (0 / 2 / 4 "
        "relative to the first) is layout only; the reference evaluates the condition text `<cond> or $c == 7` as written",
        "undo group: user turns are opened by UtteranceUserActionFinished + UserIntent (the events generate_user_intent "
        "leaves between them are not in the history: no flow of the program matches them); a failing action = the "
        "registered stub raises; the turn it takes back is dropped by the reference together with its assignments; "
        "the host-visible context (compute_context over ALL events) is not compared after a hidden turn",
        "expr-dollar groups: a double-quoted string literal is a constant, whatever its characters (Python's value of "
        "the same text); the reference replaces `$name` by the variable only outside string literals",
        "state of the used instance = pickle of (runtime.flow_configs, config.flows, plain attributes of the runtime "
        "object, module-level numbers/containers of nemoguardrails.colang.v1_0.runtime.{sliding,flows,eval,utils,runtime}); "
        "state kept elsewhere (closures, function attributes) is only met by the blind repetitions",
    ]


# ------------------------------------------------------------------ replay
def build_history(W, script, k):
    """the history of node (script, k): all script entries consumed, then k further decision rounds.
    Decisions and action events are taken from FRESH runtimes: building a history never touches the
    used one."""
    hist, pos, waiting, since = [], 0, True, 0
    # a program whose histories carry a flow (start_flow event): ONE builder runtime sees the history grow, as the
    # runtime of the search did (it is still not the used one)
    builder = W.fresh() if W.dyn else None
    while True:
        if waiting or hist[-1]["type"] == "StartInternalSystemAction":
            if pos == len(script):
                return hist if since == k else None
            e = script[pos]
            pos += 1
            since = 0
            if e[0] == "user":
                hist = hist + W.user_events(e[1], not hist)
                waiting = False
            else:
                res, _ = W.action(W.fresh(), hist, e[2])
                if res[0] != "ok":
                    return None
                hist = hist + res[1]
            continue
        if pos == len(script) and since == k:
            return hist
        res = W.eval_fresh(hist, builder)
        if res[0] != "ok":
            return None
        since += 1
        if res[1]:
            hist = hist + res[1]
        else:
            waiting = True


def repeat_earlier_calls(W, earlier):
    """make the calls a search made on the used runtime before the reported one, in the same order"""
    for t in earlier:
        sc = [tuple(e) for e in t[1]]
        if t[0] == "d":
            h = build_history(W, sc, t[2])
            if h is not None:
                W.eval_used(h)
        elif t[0] == "a":
            h = build_history(W, sc, t[2])
            d = W.eval_fresh(h) if h is not None else ("exc",)
            if d[0] == "ok" and d[1] and d[1][-1]["type"] == "StartInternalSystemAction":
                W.action(W.rt_used, h + d[1], t[3])
        elif t[0] == "t":
            h = build_history(W, sc, 0)
            if h is not None:
                W.whole_turn(h, t[2])
        elif t[0] == "r":
            h = build_history(W, sc, t[2])
            if h is not None:
                for _ in range(t[3]):
                    W.eval_used(h)


def replay(rp):
    if rp.get("family") == "api":
        return c14_state.replay(rp)
    lib()
    P = rp["program"]
    if rp.get("kind") == "rejected":
        print(rp["source"])
        try:
            World(P, tuple(rp.get("order") or ("f1", "s1", "s2", "f2")))
            print("expected: the program is accepted; observed: accepted")
        except Exception as e:  # noqa
            print(f"expected: the program is accepted; observed: {type(e).__name__}: {e}"[:600])
        print("recorded:", rp.get("detail"))
        return 0
    W = World(P, tuple(rp.get("order") or ("f1", "s1", "s2", "f2")))
    print(W.src)
    if W.dyn:
        print(f"(`user {W.dyn['start']}` in the script below stands for the event start_flow(flow_id={W.dyn['flow']!r}, "
              f"flow_body={W.dyn['body']!r}))")
    script = [tuple(e) for e in rp["script"]]
    kind = rp.get("kind")
    if kind in ("dependence", "action-dependence", "turn"):
        earlier = rp.get("earlier_calls_on_used_configs") or []
        print(f"repeating the {len(earlier)} earlier calls of the search (decisions, action executions, whole turns) "
              f"on the used runtime ...")
        repeat_earlier_calls(W, earlier)
        if kind == "action-dependence":
            h = build_history(W, script[:-1], rp.get("k", 0))
            steps = W.eval_fresh(h)[1]
            h = h + steps
            print("history:", [_ev_brief(e) for e in h])
            au, arg_u = W.action(W.rt_used, h, script[-1][2])
            af, arg_f = W.action(W.fresh(), h, script[-1][2])
            print(f"  _process_start_action on the used runtime : action called with p={arg_u!r}, appended {_brief_res(au)}")
            print(f"  _process_start_action on a fresh runtime  : action called with p={arg_f!r}, appended {_brief_res(af)}")
        elif kind == "turn":
            h = build_history(W, [tuple(e) for e in rp["turn"][0]], 0)
            print("history at the start of the turn:", [_ev_brief(e) for e in h])
            print("  generate_events on the used runtime :", _brief_res(W.whole_turn(h, rp["turn"][1])))
            full = build_history(W, script, rp.get("k", 0))
            print("  step-by-step (fresh runtimes)       :", [_ev_brief(e) for e in full[len(h):]] + ["Listen"])
        else:
            h = build_history(W, script, rp.get("k", 0))
            print("history:", [_ev_brief(e) for e in h])
            nu, nf = norm(W.eval_used(h)), norm(W.eval_fresh(h))
            print("  decided on the used runtime  :", _show_res(nu))
            print("  decided on a fresh runtime   :", _show_res(nf), _field_diff(nu, nf))
        print("recorded:", rp.get("detail"))
        return 0
    ahist, hist = (), []
    pos = 0
    waiting = True
    for _ in range(80):
        if waiting:
            if pos >= len(script):
                break
            i = script[pos][1]
            pos += 1
            hist = hist + W.user_events(i, not hist)
            ahist = ahist + (("user", i),)
            waiting = False
            print(f"user says: {i}")
        r = ref_run(P, ahist, W.tab)
        ru, rf = W.eval_used(hist), W.eval_fresh(hist)
        if r["status"] == "strict":
            exp = f"{show_step(r['expect'])}, context { {v: r['ctx'].get(v) for v in W.vars} }"
        else:
            exp = "(nothing demanded: a flow that was left earlier is involved)"
        print(f"  history of {len(hist)} events, last {_ev_brief(hist[-1])}")
        print(f"      expected: {exp}")
        print(f"      decided : {_show_res(norm(ru))}" + ("" if norm(ru) == norm(rf) else f"   BUT on a fresh runtime: {_show_res(norm(rf))}"))
        if ru[0] != "ok":
            break
        steps = ru[1]
        cu, step, bad = decode(steps)
        if r["status"] == "strict":
            vis = W.visible_context(hist + steps)
            if step != r["expect"] or bad:
                print("      ^^^ step differs")
                break
            if vis != {v: r["ctx"].get(v) for v in W.vars}:
                print(f"      ^^^ context visible to the host after this decision: {vis}")
                break
        if not steps:
            waiting = True
            continue
        hist = hist + steps
        if steps[-1]["type"] == "StartInternalSystemAction":
            res = script[pos][2] if pos < len(script) and script[pos][0] == "done" else 1
            pos += 1
            au, arg = W.action(W.rt_used, hist, res)
            print(f"  action {step[1]} called with p={arg!r} (expected p={r['param']!r}), returns {res}; "
                  f"runtime appends {_brief_res(au)}")
            if au[0] != "ok":
                break
            hist = hist + au[1]
            ahist = ahist + (("done", step[1], res),)
        elif step is not None:
            ahist = ahist + (("bot", step[1]),)
    print("recorded:", rp.get("detail"))
    return 0
