"""C14 - Colang 1.0 dialog flows are followed like structured programs.

Bounded exhaustive co-simulation of the real decision function
`nemoguardrails.colang.v1_0.runtime.flows.compute_next_steps` (Colang text -> real parser ->
real FlowConfigs) against a boring reference interpreter over the generator's own program tree.

  programs   every program  `define flow f1: user u0; $c = 0; <block>`  [+ `define subflow s1: <block>`]
             + a fixed second flow f2, where <block> ranges over ALL statement trees with <= n nodes
             (smallest first) of
               FULL grammar  : user <fresh intent> | bot <fresh msg> | $c = 0 | $c = 1 | $c = $c + 1 |
                               $r = execute <fresh action> | do s1 | if <cond> [else] | while $c < k
                               cond in {$c == 0, $c == 1, $r == 1}, k in {1, 2}
               NEST grammar  : (deeper sizes, offsets only depend on the shape) bot | user | $c = $c + 1 |
                               if $c == 1 [else] | while $c < 2
             filtered to ordinary structured programs: every variable read is definitely assigned, every
             loop body has a top-level user step or a top-level increment with no other assignment to the
             counter (so the loop terminates), `do` only with a subflow, subflow used when defined.
             Every user / bot / execute statement has its own name, intents of different flows are disjoint.
  driver     plays RuntimeV1_0.generate_events by hand: call compute_next_steps(history, ...), append the
             decided events; after a StartInternalSystemAction append what _process_start_action appends
             (ContextUpdate when the value changes, InternalSystemActionFinished) for EVERY scripted result
             in {0,1} (only 1 when no condition reads $r); no decision -> Listen -> user point, where the
             history branches over {intent the flow waits for, start intent of f1, start intent of f2,
             an unknown intent, intent a left flow was waiting for}.  BFS over all such histories with
             <= max_user user turns, <= max_dev turns that are not the expected continuation and
             <= max_zero actions returning 0 (bounds per program group: see plan(); a history in which a
             left flow becomes involved is followed to the end of that turn only).
  oracle     reference(history) = structured-program semantics (sequence, if/else, while, assignment,
             subflow call = inlined block, one global context dict).  Demanded (strict):
               * history follows a flow (from its start intent) -> decided step == that flow's next
                 statement (bot / action start / nothing = wait), and the context visible to the host
                 (compute_context over history + decided events) has the reference values of $c, $r;
               * an intent that starts another (not already left) flow -> that flow's first statement(s);
               * an intent no flow knows -> nothing is decided (no step of the abandoned flow);
             NOT demanded (docs are silent): anything that involves a flow that was left earlier (resume or
             not).  Such histories are still evaluated for the second clause only.
  2nd clause every history is evaluated on the long-lived flow_configs used for all earlier calls of the
             program's BFS and on a pristine copy of an independent second parse: identical decisions; the
             first histories are evaluated once more on the used configs after all other calls.
  classes    signature = kind : path of the statement the flow stood at -> path of the expected statement :
             constructs the reference executed in between : how the decision differs.  One input class has a
             signature of its own (INSTANT_SIG): histories in which some flow ran from its start intent to
             its end within that one event (only assignments / conditions after `user ...`) - the runtime
             keeps such a flow instance alive with a negative head, every later decision may be affected.
  replay     program text + script of user intents / action results; histories are rebuilt with plain calls.
             For a used-vs-fresh difference the (script, round) ids of all earlier calls on the used configs
             are stored and repeated first.
"""
from __future__ import annotations

import functools
import os
import pickle
import signal
import time
from collections import deque

PROP = "C14"

VARS = ("c", "r")
UNKNOWN_INTENT = "zz"

GRAMMARS = {
    # name: (leaves, conds, while bounds)
    "full": (
        (("U",), ("B",), ("S", "c", 0), ("S", "c", 1), ("I", "c"), ("X",), ("D",)),
        (("c", 0), ("c", 1), ("r", 1)),
        (1, 2),
    ),
    "nest": (
        (("B",), ("U",), ("I", "c")),
        (("c", 1),),
        (2,),
    ),
}

F2_VARIANTS = {
    "simple": (("U",), ("B",)),
    "two-turn-set": (("U",), ("S", "c", 1), ("B",), ("U",), ("B",)),
}


# ------------------------------------------------------------------ generator (SmallCheck style)
@functools.lru_cache(None)
def blocks(n, g, allow_do, allow_while):
    """all blocks (tuples of statements) with exactly n statement nodes over grammar g"""
    if n == 0:
        return ((),)
    out = []
    for first in range(1, n + 1):
        for st in stmts(first, g, allow_do, allow_while):
            for rest in blocks(n - first, g, allow_do, allow_while):
                out.append((st,) + rest)
    return tuple(out)


@functools.lru_cache(None)
def stmts(n, g, allow_do, allow_while):
    leaves, conds, wk = GRAMMARS[g]
    out = []
    if n == 1:
        for lf in leaves:
            if lf[0] == "D" and not allow_do:
                continue
            out.append(lf)
        return tuple(out)
    for a in range(1, n):  # if: 1 + then(a >= 1) + else(b >= 0)
        b = n - 1 - a
        for cond in conds:
            for th in blocks(a, g, allow_do, allow_while):
                for el in blocks(b, g, allow_do, allow_while):
                    out.append(("IF", cond, th, el if b else None))
    if allow_while:
        for k in wk:
            for body in blocks(n - 1, g, allow_do, allow_while):
                out.append(("WH", ("c", k), body))
    return tuple(out)


def has(block, kind, top_only=False):
    for st in block:
        if st[0] == kind:
            return True
        if not top_only:
            if st[0] == "IF" and (has(st[2], kind) or (st[3] and has(st[3], kind))):
                return True
            if st[0] == "WH" and has(st[2], kind):
                return True
    return False


def reads_r(block):
    for st in block:
        if st[0] == "IF":
            if st[1][0] == "r" or reads_r(st[2]) or (st[3] and reads_r(st[3])):
                return True
        elif st[0] == "WH" and reads_r(st[2]):
            return True
    return False


def well_formed(block, defined, sub):
    """definite assignment + loop termination.  Returns the set of definitely assigned variables
    after the block, or None when the block is not an ordinary terminating structured program."""
    d = set(defined)
    for st in block:
        k = st[0]
        if k == "S":
            d.add(st[1])
        elif k == "I":
            if st[1] not in d:
                return None
        elif k == "X":
            d.add("r")
        elif k == "D":
            if sub is None:
                return None
            d2 = well_formed(sub, d, None)
            if d2 is None:
                return None
            d = d2
        elif k == "IF":
            if st[1][0] not in d:
                return None
            a = well_formed(st[2], d, sub)
            if a is None:
                return None
            if st[3]:
                b = well_formed(st[3], d, sub)
                if b is None:
                    return None
                d = a & b
        elif k == "WH":
            if st[1][0] not in d:
                return None
            body = st[2]
            top_u = has(body, "U", True)
            top_i = has(body, "I", True)
            any_s = has(body, "S") or (has(body, "D") and sub is not None and has(sub, "S"))
            if not (top_u or (top_i and not any_s)):
                return None
            if well_formed(body, d, sub) is None:
                return None
    return d


def programs(g, total, sub_sizes, with_while_in_sub=False):
    """all well-formed programs of grammar g with main size + subflow size == total"""
    out = []
    for b in blocks(total, g, False, True):
        if well_formed(b, {"c"}, None) is not None:
            out.append((b, None))
    if any(lf[0] == "D" for lf in GRAMMARS[g][0]):
        for ns in sub_sizes:
            nm = total - ns
            if nm < 1:
                continue
            for sub in blocks(ns, g, False, with_while_in_sub):
                for b in blocks(nm, g, True, True):
                    if not has(b, "D"):
                        continue
                    if well_formed(b, {"c"}, sub) is not None:
                        out.append((b, sub))
    return out


# ------------------------------------------------------------------ labelling + printing
def label(main, sub, f2):
    """give every user/bot/execute statement its own name and every statement the path of the
    constructs around it.  Result is plain lists (json round-trips)."""

    def lab(block, path, pfx, cnt):
        out = []
        for st in block:
            k = st[0]
            if k == "U":
                out.append(["U", f"{pfx['u']}{cnt['u']}", path])
                cnt["u"] += 1
            elif k == "B":
                cnt["m"] += 1
                out.append(["B", f"{pfx['m']}{cnt['m']}", path])
            elif k == "X":
                cnt["a"] += 1
                out.append(["X", f"{pfx['a']}{cnt['a']}", "r", path])
            elif k == "S":
                out.append(["S", st[1], st[2], path])
            elif k == "I":
                out.append(["I", st[1], path])
            elif k == "D":
                out.append(["D", "s1", path])
            elif k == "IF":
                out.append(["IF", list(st[1]), lab(st[2], path + ">IF.then", pfx, cnt),
                            lab(st[3], path + ">IF.else", pfx, cnt) if st[3] else None, path])
            elif k == "WH":
                out.append(["WH", list(st[1]), lab(st[2], path + ">WH", pfx, cnt), path])
        return out

    P = {"flows": {}, "sub": None}
    P["flows"]["f1"] = lab((("U",), ("S", "c", 0)) + tuple(main), "f1", {"u": "u", "m": "m", "a": "act"},
                           {"u": 0, "m": 0, "a": 0})
    if sub is not None:
        P["sub"] = lab(sub, "s1", {"u": "su", "m": "sm", "a": "sact"}, {"u": 1, "m": 0, "a": 0})
    P["flows"]["f2"] = lab(f2, "f2", {"u": "j", "m": "o", "a": "oact"}, {"u": 0, "m": 0, "a": 0})
    return P


def _emit(block, ind, lines):
    pad = "  " * ind
    for st in block:
        k = st[0]
        if k == "U":
            lines.append(f"{pad}user {st[1]}")
        elif k == "B":
            lines.append(f"{pad}bot {st[1]}")
        elif k == "X":
            lines.append(f"{pad}${st[2]} = execute {st[1]}")
        elif k == "S":
            lines.append(f"{pad}${st[1]} = {st[2]}")
        elif k == "I":
            lines.append(f"{pad}${st[1]} = ${st[1]} + 1")
        elif k == "D":
            lines.append(f"{pad}do {st[1]}")
        elif k == "IF":
            lines.append(f"{pad}if ${st[1][0]} == {st[1][1]}")
            _emit(st[2], ind + 1, lines)
            if st[3]:
                lines.append(f"{pad}else")
                _emit(st[3], ind + 1, lines)
        elif k == "WH":
            lines.append(f"{pad}while ${st[1][0]} < {st[1][1]}")
            _emit(st[2], ind + 1, lines)


def to_colang(P, order=("f1", "s1", "f2")):
    chunks = []
    for name in order:
        lines = []
        if name == "s1":
            if P["sub"] is None:
                continue
            lines.append("define subflow s1")
            _emit(P["sub"], 1, lines)
        else:
            lines.append(f"define flow {name}")
            _emit(P["flows"][name], 1, lines)
        chunks.append("\n".join(lines))
    return "\n\n".join(chunks) + "\n"


def prog_size(P):
    def sz(b):
        n = 0
        for st in b or ():
            n += 1
            if st[0] == "IF":
                n += sz(st[2]) + sz(st[3])
            elif st[0] == "WH":
                n += sz(st[2])
        return n

    return sz(P["flows"]["f1"]) - 2 + sz(P["sub"])


# ------------------------------------------------------------------ reference interpreter
class RefFuel(Exception):
    pass


def _exec(block, ctx, P, feats, fuel):
    """ordinary structured-program semantics; yields at user / bot / execute statements"""
    for st in block:
        fuel[0] -= 1
        if fuel[0] < 0:
            raise RefFuel()
        k = st[0]
        if k == "U":
            yield ("user", st[1], st[-1])
        elif k == "B":
            yield ("bot", st[1], st[-1])
        elif k == "X":
            res = yield ("exec", st[1], st[-1], st[2])
            ctx[st[2]] = res
            feats.add("exec-result")
        elif k == "S":
            ctx[st[1]] = st[2]
            feats.add("set")
        elif k == "I":
            ctx[st[1]] = ctx[st[1]] + 1
            feats.add("inc")
        elif k == "IF":
            var, const = st[1]
            if ctx.get(var) == const:
                feats.add("if-then")
                yield from _exec(st[2], ctx, P, feats, fuel)
                if st[3]:
                    feats.add("skip-else")
            elif st[3]:
                feats.add("if-else")
                yield from _exec(st[3], ctx, P, feats, fuel)
            else:
                feats.add("if-skip")
        elif k == "WH":
            var, kk = st[1]
            while ctx[var] < kk:
                fuel[0] -= 1
                if fuel[0] < 0:
                    raise RefFuel()
                feats.add("while-iter")
                yield from _exec(st[2], ctx, P, feats, fuel)
                feats.add("while-back")
            feats.add("while-exit")
        elif k == "D":
            feats.add("sub-call")
            yield from _exec(P["sub"], ctx, P, feats, fuel)
            feats.add("sub-return")


def _intent_table(P):
    """intent -> (owner flow, is start intent)"""
    tab = {}

    def walk(block, owner, first):
        for i, st in enumerate(block or ()):
            if st[0] == "U":
                tab[st[1]] = (owner, first and i == 0)
            elif st[0] == "IF":
                walk(st[2], owner, False)
                walk(st[3], owner, False)
            elif st[0] == "WH":
                walk(st[2], owner, False)

    for fid, b in P["flows"].items():
        walk(b, fid, True)
    walk(P["sub"], "s1", False)
    return tab


class _Cell:
    __slots__ = ("s",)

    def __init__(self):
        self.s = set()

    def add(self, x):
        self.s.add(x)


def ref_run(P, ahist, tab=None):
    """Replay the abstract history [("user", i) | ("bot", m) | ("done", action, result)] from scratch;
    returns what the structured-program reading says after the last event."""
    ctx = {}
    cum = set()
    cell = _Cell()
    tab = tab or _intent_table(P)
    cur = None
    susp = {}
    status = "strict"
    leave = None
    from_path = "-"
    fuel = [4000]
    instant = None  # first flow one of whose episodes ended within its own start event

    def advance(val):
        nonlocal cur
        try:
            cur["pend"] = cur["gen"].send(val)
        except StopIteration:
            cell.add("flow-end")
            cur = None

    after_instant = None
    for ev in ahist:
        cell.s = set()
        leave = None
        after_instant = instant
        if status == "unspec":
            continue
        from_path = cur["pend"][2] if cur else "-"
        if ev[0] == "user":
            i = ev[1]
            if cur and cur["pend"][0] == "user" and cur["pend"][1] == i:
                advance(None)
            else:
                if cur:
                    susp[cur["flow"]] = cur["pend"][1]
                    cell.add("left-flow")
                    cur = None
                own = tab.get(i)
                if own is None:
                    leave = "unknown-intent"
                elif own[1] and own[0] not in susp:
                    leave = "start:" + own[0]
                    gen = _exec(P["flows"][own[0]], ctx, P, cell, fuel)
                    cur = {"flow": own[0], "gen": gen, "pend": next(gen)}
                    advance(None)
                    if cur is None and instant is None:
                        instant = own[0]
                else:
                    status = "unspec"
        elif ev[0] == "bot":
            if not (cur and cur["pend"][0] == "bot" and cur["pend"][1] == ev[1]):
                raise AssertionError(f"driver/reference out of step at {ev} in {ahist}")
            advance(None)
        elif ev[0] == "done":
            if not (cur and cur["pend"][0] == "exec" and cur["pend"][1] == ev[1]):
                raise AssertionError(f"driver/reference out of step at {ev} in {ahist}")
            advance(ev[2])
        cum |= cell.s
    pend = cur["pend"] if cur else None
    expect = None
    if pend is None:
        to_path = "end"
    elif pend[0] == "bot":
        expect = ("bot", pend[1])
        to_path = pend[2]
    elif pend[0] == "exec":
        expect = ("exec", pend[1], pend[3])
        to_path = pend[2]
    else:
        to_path = "wait@" + pend[2]
    return {
        "status": status,
        "expect": expect,
        "ctx": dict(ctx),
        "last": set(cell.s),
        "cum": cum,
        "leave": leave,
        "pending_user": pend[1] if pend and pend[0] == "user" else None,
        "cur_flow": cur["flow"] if cur else None,
        "susp": dict(susp),
        "from": from_path,
        "to": to_path,
        "after_instant": after_instant,
    }


# ------------------------------------------------------------------ the real implementation
_LIB = {}
YAML = "models: []\n"
DROP_KEYS = ("uid", "event_created_at", "source_uid", "action_uid")


class ImplHang(BaseException):
    pass


def lib():
    if not _LIB:
        from nemoguardrails import RailsConfig
        from nemoguardrails.colang.v1_0.runtime import flows as F
        from nemoguardrails.colang.v1_0.runtime.runtime import RuntimeV1_0
        from nemoguardrails.utils import new_event_dict

        _LIB.update(RailsConfig=RailsConfig, F=F, Runtime=RuntimeV1_0, new_event_dict=new_event_dict)
    return _LIB


class _Host:
    """stands in for the runtime object in RuntimeV1_0._load_flow_config (which only touches
    self.flow_configs) - LLMRails itself is not needed to build the flow configs"""


def flow_configs_of(flows):
    h = _Host()
    h.flow_configs = {}
    for f in flows:
        _LIB["Runtime"]._load_flow_config(h, f)
    return h.flow_configs


def _alarm(signum, frame):
    raise ImplHang()


def decide(hist, cfgs, rcfg, plog):
    """one call of the real decision function (guarded by a 1 s CPU-time timer that keeps firing: a wrong
    jump offset can make slide() spin forever, and one alarm may be swallowed, e.g. inside a __del__)"""
    signal.signal(signal.SIGVTALRM, _alarm)
    try:
        try:
            signal.setitimer(signal.ITIMER_VIRTUAL, 1.0, 0.1)
            return ("ok", _LIB["F"].compute_next_steps(hist, cfgs, rcfg, plog))
        finally:
            signal.setitimer(signal.ITIMER_VIRTUAL, 0)
    except ImplHang:
        return ("exc", "no result within 1 s of CPU time (endless slide)")
    except Exception as e:  # noqa
        return ("exc", f"{type(e).__name__}: {e}"[:300])


def norm(res):
    if res[0] != "ok":
        return res
    return ("ok", [{k: v for k, v in e.items() if k not in DROP_KEYS} for e in res[1]])


def decode(steps):
    """-> (context updates, step, shape problem)"""
    cu = {}
    step = None
    bad = None
    for idx, e in enumerate(steps):
        t = e.get("type")
        if t == "ContextUpdate" and step is None:
            cu.update(e["data"])
        elif t == "BotIntent" and step is None:
            step = ("bot", e["intent"])
        elif t == "StartInternalSystemAction" and step is None:
            step = ("exec", e["action_name"], e.get("action_result_key"))
        else:
            bad = f"unexpected event #{idx} {t}"
    return cu, step, bad


def show_step(s):
    if s is None:
        return "nothing (wait for the user)"
    if s[0] == "bot":
        return f"bot {s[1]}"
    return f"${s[2]} = execute {s[1]}"


def kind_of(got, expect):
    if got == expect:
        return "same"
    if got is None:
        return "none"
    if expect is None:
        return "spurious-" + got[0]
    return "wrong-" + got[0]


class World:
    """one program: source, two independent parses, the long-lived (used) flow configs"""

    def __init__(self, P, order=("f1", "s1", "f2")):
        L = lib()
        self.P = P
        self.src = to_colang(P, order)
        self.cfg_used = L["RailsConfig"].from_content(colang_content=self.src, yaml_content=YAML)
        self.cfg_fresh = L["RailsConfig"].from_content(colang_content=self.src, yaml_content=YAML)
        self.parse_deterministic = self.cfg_used.flows == self.cfg_fresh.flows
        self.pristine = pickle.dumps(self.cfg_fresh.flows, pickle.HIGHEST_PROTOCOL)
        self.used = flow_configs_of(self.cfg_used.flows)
        self.plog = []
        self.tab = _intent_table(P)
        self.results = (0, 1) if (reads_r(P["flows"]["f1"]) or reads_r(P["sub"] or ())
                                  or reads_r(P["flows"]["f2"])) else (1,)
        self.calls = 0
        self.trace = []  # (script, k) of every call made on the used configs, in order

    def fresh(self):
        return flow_configs_of(pickle.loads(self.pristine))

    def eval_used(self, hist, nid=None):
        self.calls += 1
        self.trace.append(nid)
        del self.plog[:]
        return decide(hist, self.used, self.cfg_used, self.plog)

    def eval_fresh(self, hist):
        self.calls += 1
        return decide(hist, self.fresh(), self.cfg_fresh, [])

    # --- what RuntimeV1_0 appends around the decision function
    def user_events(self, intent, first):
        ev = [] if first else [_LIB["new_event_dict"]("Listen")]
        ev.append(_LIB["new_event_dict"]("UserIntent", intent=intent))
        return ev

    def action_events(self, hist, result):
        """_process_start_action for a stub action returning `result`"""
        F = _LIB["F"]
        start = hist[-1]
        key = start["action_result_key"]
        out = []
        if key:
            context = F.compute_context(hist)
            if context.get(key) != result:
                out.append(_LIB["new_event_dict"]("ContextUpdate", data={key: result}))
        out.append(_LIB["new_event_dict"](
            "InternalSystemActionFinished",
            action_uid=start["action_uid"],
            action_name=start["action_name"],
            action_params=start["action_params"],
            action_result_key=key,
            status="success",
            is_success=True,
            failure_reason="success",
            return_value=result,
            events=[],
            is_system_action=False,
        ))
        return out

    def visible_context(self, hist):
        c = _LIB["F"].compute_context(hist)
        return {v: c.get(v) for v in VARS}


def node_id(ahist, k):
    return ([list(e) for e in ahist if e[0] in ("user", "done")], k)


def check_node(W, ahist, hist, r, k=0):
    """evaluate one history on the used and on a fresh instance and compare with the reference.
    -> (steps or None, [violation (kind, signature, text)], decoded step)"""
    ru = W.eval_used(hist, node_id(ahist, k))
    rf = W.eval_fresh(hist)
    viol = []
    nu, nf = norm(ru), norm(rf)
    feats = "+".join(sorted(r["last"])) or "-"
    if r.get("after_instant"):
        return _check_after_instant(W, ahist, hist, r, ru, rf)
    where = f"{_short(r['from'])}->{_short(r['to'])}" if r["status"] == "strict" else "left-flow-involved"
    if nu != nf:
        du = decode(ru[1])[1] if ru[0] == "ok" else ("exception",)
        df = decode(rf[1])[1] if rf[0] == "ok" else ("exception",)
        viol.append((
            "dependence",
            f"earlier-calls-matter:{where}:{feats}",
            f"the SAME history gives {_show_res(nu)} on the flow configs used for the earlier calls but "
            f"{_show_res(nf)} on a freshly parsed copy",
        ))
        return None, viol, None
    if ru[0] != "ok":
        if r["status"] == "strict":
            viol.append(("exception", f"exception:{where}:{feats}",
                         f"expected {show_step(r['expect'])}, compute_next_steps raised {ru[1]}"))
        return None, viol, None
    steps = ru[1]
    cu, step, bad = decode(steps)
    if r["status"] != "strict":
        return steps, viol, step
    if bad:
        viol.append(("shape", f"shape:{where}:{feats}", f"decision is not [ContextUpdate,] step: {bad}"))
        return None, viol, step
    if step != r["expect"]:
        k = kind_of(step, r["expect"])
        if r["leave"] and r["leave"] == "unknown-intent":
            sig = f"unknown-intent:{k}:{_short(r['from'])}"
        else:
            sig = f"step:{where}:{feats}:{k}"
        viol.append(("step", sig, f"expected {show_step(r['expect'])}, decided {show_step(step)}"))
        return None, viol, step
    vis = W.visible_context(hist + steps)
    want = {v: r["ctx"].get(v) for v in VARS}
    if vis != want:
        diff = [v for v in VARS if vis[v] != want[v]]
        viol.append(("context", f"context:${'+$'.join(diff)}:{where}:{feats}",
                     f"step {show_step(step)} as expected, but the context after it is {vis}, "
                     f"structured-program value {want}"))
        return None, viol, step
    return steps, viol, step


INSTANT_SIG = "after-an-episode-that-ended-within-its-start-event"


def _check_after_instant(W, ahist, hist, r, ru, rf):
    """same checks, one signature: the input class is 'some flow ran from its start intent to its
    end without any bot/action/wait step earlier in this history'"""
    nu, nf = norm(ru), norm(rf)
    if nu != nf:
        return None, [("dependence", INSTANT_SIG, f"used configs give {_show_res(nu)}, fresh copy {_show_res(nf)}")], None
    if ru[0] != "ok":
        if r["status"] == "strict":
            return None, [("exception", INSTANT_SIG, f"expected {show_step(r['expect'])}, raised {ru[1]}")], None
        return None, [], None
    steps = ru[1]
    cu, step, bad = decode(steps)
    if r["status"] != "strict":
        return steps, [], step
    if bad or step != r["expect"]:
        return None, [("step", INSTANT_SIG, f"expected {show_step(r['expect'])}, decided {bad or show_step(step)}")], step
    vis = W.visible_context(hist + steps)
    want = {v: r["ctx"].get(v) for v in VARS}
    if vis != want:
        return None, [("context", INSTANT_SIG, f"step {show_step(step)} as expected, but the context after it is "
                       f"{vis}, structured-program value {want}")], step
    return steps, [], step


def _short(path):
    """keep the flow name / innermost constructs of a statement path (at most three components)"""
    if path in ("-", "end"):
        return path
    pre = ""
    if path.startswith("wait@"):
        pre, path = "wait@", path[5:]
    parts = path.split(">")
    return pre + ">".join(parts[-3:]) if len(parts) > 3 else pre + path


def _show_res(n):
    if n[0] != "ok":
        return f"exception {n[1]}"
    cu, step, bad = decode(n[1])
    return f"[{'ContextUpdate ' + str(cu) + ', ' if cu else ''}{show_step(step)}]"


NONTRIVIAL = ("if-then", "if-else", "if-skip", "skip-else", "while-iter", "while-back", "while-exit",
              "sub-call", "sub-return")


def explore(task):
    """BFS over all histories of one program within the bounds"""
    idx, main, sub, f2name, opts = task
    max_user, max_dev, seed = opts["max_user"], opts["max_dev"], opts.get("seed", 0)
    P = label(main, sub, F2_VARIANTS[f2name])
    order = ("f1", "s1", "f2") if seed % 2 == 0 else ("f2", "s1", "f1")
    W = World(P, order)
    counts = {
        "programs": 1, "states": 0, "transitions": 0, "traces_validated_against_impl": 0,
        "strict_decisions_checked": 0, "left_flow_histories_second_clause_only": 0,
        "nontrivial_histories": 0, "user_points": 0, "action_points": 0,
        "decisions_bot": 0, "decisions_action": 0, "decisions_wait": 0,
        "leave_other_flow_checked": 0, "leave_unknown_intent_checked": 0,
        "reevaluated_after_all_calls": 0, "reference_states": 0, "max_history_len": 0,
        "parse_nondeterministic_programs": 0 if W.parse_deterministic else 1,
        "flow_configs_changed_by_use": 0, "violating_histories": 0,
    }
    feat_counts = {}
    viols = {}
    sample = None
    refstates = set()
    first_nodes = []
    unk = UNKNOWN_INTENT
    W.trace = []

    def add_viol(kind, sig, text, ahist, hist_len, k=0):
        counts["violating_histories"] += 1
        v = viols.get(sig)
        script = [list(e) for e in ahist if e[0] in ("user", "done")]
        if v is None or (len(script), hist_len) < v["size"][1:3]:
            n = v["n"] if v else 0
            viols[sig] = {
                "signature": sig, "n": n + 1,
                "size": (prog_size(P), len(script), hist_len, len(W.src)),
                "what": f"program `{_oneline(W.src)}` script {_show_script(script)}: {text}",
                "replay": {"source": W.src, "program": P, "order": list(order), "script": script, "k": k,
                           "kind": kind, "detail": text},
                "_trace_len": len(W.trace) - 1,
            }
        else:
            v["n"] += 1

    # node = (abstract history, concrete history, reference result, user turns, unexpected turns used,
    #         depth, terminal (a left flow is involved: finish this turn only), actions that returned 0,
    #         k = decision rounds since the last user / action-result event)
    q = deque()
    r0 = ref_run(P, (), W.tab)

    def push_user_children(ahist, hist, r, n_user, dev, depth, zeros):
        cands = []
        for i in [r["pending_user"], "u0", "j0", unk] + sorted(r["susp"].values()):
            if i is not None and i not in cands:
                cands.append(i)
        if seed:
            cands = cands[seed % len(cands):] + cands[:seed % len(cands)]
        for i in cands:
            ah2 = ahist + (("user", i),)
            r2 = ref_run(P, ah2, W.tab)
            if r2["status"] == "unspec":
                cost, terminal = 0, True
            elif i == r["pending_user"]:
                cost, terminal = 0, False
            elif i == "u0" and r["cur_flow"] is None and not r["susp"]:
                cost, terminal = 0, False
            else:
                cost, terminal = 1, False
            if dev + cost > max_dev:
                continue
            q.append((ah2, hist + W.user_events(i, not hist), r2, n_user + 1, dev + cost, depth + 1, terminal, zeros, 0))

    push_user_children((), [], r0, 0, 0, 0, 0)
    while q:
        ahist, hist, r, n_user, dev, depth, terminal, zeros, k = q.popleft()
        counts["states"] += 1
        counts["traces_validated_against_impl"] += 1
        counts["max_history_len"] = max(counts["max_history_len"], len(hist))
        steps, vs, step = check_node(W, ahist, hist, r, k)
        if len(first_nodes) < 6:
            first_nodes.append((ahist, hist, norm(("ok", steps)) if steps is not None else None, k))
        for kind, sig, text in vs:
            add_viol(kind, sig, text, ahist, len(hist), k)
        strict = r["status"] == "strict"
        if strict:
            counts["strict_decisions_checked"] += 1
            if r["cum"] & set(NONTRIVIAL):
                counts["nontrivial_histories"] += 1
            for f in r["last"]:
                feat_counts[f] = feat_counts.get(f, 0) + 1
            if r["leave"] == "unknown-intent":
                counts["leave_unknown_intent_checked"] += 1
            elif r["leave"] and "left-flow" in r["last"]:
                counts["leave_other_flow_checked"] += 1
            refstates.add((r["cur_flow"], r["to"], tuple(sorted(r["ctx"].items())), tuple(sorted(r["susp"].items()))))
        else:
            counts["left_flow_histories_second_clause_only"] += 1
        if steps is None or depth >= opts["max_depth"]:
            continue
        if step is None:
            counts["decisions_wait"] += 1
        elif step[0] == "bot":
            counts["decisions_bot"] += 1
        else:
            counts["decisions_action"] += 1
        if sample is None and strict and len(r["cum"] & set(NONTRIVIAL)) >= 2 and step is not None:
            sample = {"program": W.src, "history": [_ev_brief(e) for e in hist],
                      "decided": [_ev_brief(e) for e in steps], "reference_expected": show_step(r["expect"]),
                      "constructs_exercised": sorted(r["cum"])}
        if not steps:
            # Listen -> user point
            counts["user_points"] += 1
            if terminal or not strict or n_user >= max_user:
                continue
            push_user_children(ahist, hist, r, n_user, dev, depth, zeros)
            continue
        h2 = hist + steps
        if steps[-1]["type"] == "StartInternalSystemAction":
            counts["action_points"] += 1
            steps[-1]["is_system_action"] = False  # RuntimeV1_0._compute_next_steps
            for res in W.results:
                if res == 0 and zeros >= opts["max_zero"]:
                    continue
                ah2 = ahist + (("done", step[1], res),)
                q.append((ah2, h2 + W.action_events(h2, res), ref_run(P, ah2, W.tab) if strict else r,
                          n_user, dev, depth + 1, terminal, zeros + (res == 0), 0))
        elif step is not None:
            ah2 = ahist + (("bot", step[1]),)
            q.append((ah2, h2, ref_run(P, ah2, W.tab) if strict else r, n_user, dev, depth + 1, terminal, zeros, k + 1))
        else:
            # only a ContextUpdate was decided: the runtime calls the decision function again
            q.append((ahist, h2, ref_run(P, ahist, W.tab) if strict else r, n_user, dev, depth + 1, terminal, zeros, k + 1))
    # the first histories once more on the used configs, after every other call was made
    for ahist, hist, before, k in first_nodes:
        if before is None:
            continue
        counts["reevaluated_after_all_calls"] += 1
        again = norm(W.eval_used(hist, node_id(ahist, k)))
        if again != before:
            add_viol("dependence", "earlier-calls-matter:re-evaluation-after-longer-histories",
                     f"history evaluated first gave {_show_res(before)}, the same history after all other calls "
                     f"of this program gives {_show_res(again)}", ahist, len(hist), k)
    if _strip_private(W.cfg_used.flows) != _strip_private(pickle.loads(W.pristine)):
        counts["flow_configs_changed_by_use"] = 1
    counts["transitions"] = W.calls
    counts["reference_states"] = len(refstates)
    for v in viols.values():
        n = v.pop("_trace_len")
        if v["replay"]["kind"] == "dependence":
            v["replay"]["earlier_calls_on_used_configs"] = [list(t) for t in W.trace[:n]]
    return {"idx": idx, "counts": counts, "features": feat_counts, "violations": list(viols.values()),
            "sample": sample, "size": prog_size(P), "grammar": opts["grammar"]}


def _strip_private(flows):
    return [{"id": f.get("id"), "elements": f.get("elements")} for f in flows]


def _oneline(src):
    return src.strip().replace("\n\n", " || ").replace("\n", "; ")


def _show_script(script):
    return "[" + ", ".join(f"user {e[1]}" if e[0] == "user" else f"{e[1]} returns {e[2]}" for e in script) + "]"


def _ev_brief(e):
    t = e["type"]
    if t in ("UserIntent", "BotIntent"):
        return f"{t}({e['intent']})"
    if t == "ContextUpdate":
        return f"ContextUpdate({e['data']})"
    if t == "StartInternalSystemAction":
        return f"StartInternalSystemAction({e['action_name']} -> ${e['action_result_key']})"
    if t == "InternalSystemActionFinished":
        return f"InternalSystemActionFinished({e['action_name']} = {e['return_value']})"
    return t


# ------------------------------------------------------------------ tiers
def plan(tier):
    """[(grammar, size, [(main, sub)], f2 variant, bounds)] smallest first"""
    small = {"max_user": 3, "max_dev": 1, "max_zero": 1}
    big = {"max_user": 4, "max_dev": 2, "max_zero": 2}
    out = []
    if tier == "quick":
        for n in (1, 2, 3):
            out.append(("full", n, programs("full", n, (1, 2)), "simple", small))
            out.append(("full", n, programs("full", n, (1, 2)), "two-turn-set", small))
        out.append(("nest", 5, programs("nest", 5, ()), "simple", small))
        out.append(("full", 4, programs("full", 4, (1, 2)), "simple", small))
    else:
        for n in (1, 2, 3):
            out.append(("full", n, programs("full", n, (1, 2)), "simple", big))
            out.append(("full", n, programs("full", n, (1, 2)), "two-turn-set", big))
        out.append(("full", 4, programs("full", 4, (1, 2)), "simple", big))
        out.append(("nest", 5, programs("nest", 5, ()), "simple", big))
        out.append(("nest", 6, programs("nest", 6, ()), "simple", big))
        out.append(("full", 5, programs("full", 5, (1, 2)), "simple", small))
    return out


def run(rep, tier):
    from vf import par

    lib()
    seed = rep.seed
    groups = plan(tier)
    ts = []
    totals = {}
    bounds = {}
    for g, n, progs, f2, bnd in groups:
        key = f"{g}:size={n}:f2={f2}"
        totals[key] = len(progs)
        bounds[key] = bnd
        for main, sub in progs:
            ts.append((len(ts), main, sub, f2, dict(bnd, max_depth=60, seed=seed, grammar=key)))
    budget = 50 if tier == "quick" else 17 * 60
    deadline = time.time() + budget
    done = {}
    by_sig = {}
    feats = {}
    n_done = 0
    for res in par.pmap(explore, ts, chunksize=8, deadline=deadline):
        n_done += 1
        done[res["grammar"]] = done.get(res["grammar"], 0) + 1
        rep.merge_counts(res["counts"])
        for k, v in res["features"].items():
            feats[k] = feats.get(k, 0) + v
        if res["sample"] and res["size"] >= 3:
            rep.sample(res["sample"])
        for v in res["violations"]:
            cur = by_sig.get(v["signature"])
            if cur is None:
                by_sig[v["signature"]] = v
            elif (v["size"], v["what"]) < (cur["size"], cur["what"]):
                v["n"] += cur["n"]
                by_sig[v["signature"]] = v
            else:
                cur["n"] += v["n"]
    new = 0
    for sig in sorted(by_sig, key=lambda s: (by_sig[s]["size"], s)):
        v = by_sig[sig]
        if rep.violation(sig, v["what"] + f"  [{v['n']} histories show this class]", v["replay"]):
            new += 1
    rep.set("programs_planned", len(ts))
    rep.set("programs_by_group", {k: {"planned": totals[k], "explored": done.get(k, 0)} for k in totals})
    rep.set("constructs_exercised_in_checked_decisions", feats)
    rep.set("distinct_nontrivial", rep.cov.get("nontrivial_histories", 0))
    rep.set("rule", "a history is non-trivial when the reference run took an if branch, skipped an else, "
                    "iterated / re-checked / left a while loop or called / returned from a subflow before the checked decision")
    rep.set("violation_classes", {s: {"histories": v["n"], "smallest": v["what"]} for s, v in sorted(by_sig.items())})
    rep.set("violation_classes_found", len(by_sig))
    rep.set("violation_classes_not_in_known_findings", new)
    rep.set("bounds", {"per_group (max user turns / max unexpected turns / max actions returning 0 per history)": bounds,
                       "action_results": [0, 1], "grammars": {k: [list(map(list, v[0])), list(map(list, v[1])), list(v[2])]
                                                              for k, v in GRAMMARS.items()}})
    rep.set("exhaustive", n_done == len(ts))
    if n_done < len(ts):
        full_groups = [k for k in totals if done.get(k, 0) == totals[k]]
        rep.set("cap_hit", f"time budget {budget}s: {n_done}/{len(ts)} programs explored; groups fully covered: {full_groups}")
    rep.assumptions += [
        "programs: all statement trees within the size bounds of the two grammars in the module docstring, "
        "restricted to well-formed terminating structured programs; names are canonical (one per statement)",
        "histories: what RuntimeV1_0.generate_events would build around compute_next_steps for the user's flows alone "
        "(no LLM system flows): UserIntent, decided events, ContextUpdate/InternalSystemActionFinished of a stub "
        "action (results 0 and 1), Listen",
        "demanded only while the conversation follows a flow from its start intent, starts another flow that was not "
        "left before, or contains an intent no flow knows; histories that involve a flow left earlier are only "
        "checked for identical decisions on the used and the fresh instance",
        "fresh instance = flow configs built from a deep copy of an independent second parse of the same text",
        "VERIF_SEED only changes the order of the flow definitions in the text and the order of user choices",
    ]


# ------------------------------------------------------------------ replay
def build_history(W, script, k):
    """the history of node (script, k): all script entries consumed, then k further decision rounds.
    Decisions are taken from FRESH configs so that building a history never touches the used ones."""
    hist, pos, waiting, since = [], 0, True, 0
    while True:
        if waiting or hist[-1]["type"] == "StartInternalSystemAction":
            if pos == len(script):
                return hist if since == k else None
            e = script[pos]
            pos += 1
            since = 0
            if e[0] == "user":
                hist = hist + W.user_events(e[1], not hist)
                waiting = False
            else:
                hist[-1]["is_system_action"] = False
                hist = hist + W.action_events(hist, e[2])
            continue
        if pos == len(script) and since == k:
            return hist
        res = W.eval_fresh(hist)
        if res[0] != "ok":
            return None
        since += 1
        if res[1]:
            hist = hist + res[1]
        else:
            waiting = True


def replay(rp):
    lib()
    P = rp["program"]
    W = World(P, tuple(rp.get("order") or ("f1", "s1", "f2")))
    print(W.src)
    script = [tuple(e) for e in rp["script"]]
    if rp.get("kind") == "dependence":
        earlier = rp.get("earlier_calls_on_used_configs") or []
        print(f"making the {len(earlier)} earlier calls of the search on the used flow configs ...")
        for sc, k in earlier:
            h = build_history(W, [tuple(e) for e in sc], k)
            if h is not None:
                W.eval_used(h)
        h = build_history(W, script, rp.get("k", 0))
        print("history:", [_ev_brief(e) for e in h])
        print("  decided on the used configs :", _show_res(norm(W.eval_used(h))))
        print("  decided on a fresh copy     :", _show_res(norm(W.eval_fresh(h))))
        print("recorded:", rp.get("detail"))
        return 0
    ahist, hist = (), []
    pos = 0
    waiting = True
    for _ in range(80):
        if waiting:
            if pos >= len(script):
                break
            i = script[pos][1]
            pos += 1
            hist = hist + W.user_events(i, not hist)
            ahist = ahist + (("user", i),)
            waiting = False
            print(f"user says: {i}")
        r = ref_run(P, ahist, W.tab)
        ru, rf = W.eval_used(hist), W.eval_fresh(hist)
        if r["status"] == "strict":
            exp = f"{show_step(r['expect'])}, context { {v: r['ctx'].get(v) for v in VARS} }"
        else:
            exp = "(nothing demanded: a flow that was left earlier is involved)"
        print(f"  history of {len(hist)} events, last {_ev_brief(hist[-1])}")
        print(f"      expected: {exp}")
        print(f"      decided : {_show_res(norm(ru))}" + ("" if norm(ru) == norm(rf) else f"   BUT on fresh configs: {_show_res(norm(rf))}"))
        if ru[0] != "ok":
            break
        steps = ru[1]
        cu, step, bad = decode(steps)
        if r["status"] == "strict":
            vis = W.visible_context(hist + steps)
            if step != r["expect"] or bad:
                print("      ^^^ step differs")
                break
            if vis != {v: r["ctx"].get(v) for v in VARS}:
                print(f"      ^^^ context visible to the host after this decision: {vis}")
                break
        if not steps:
            waiting = True
            continue
        hist = hist + steps
        if steps[-1]["type"] == "StartInternalSystemAction":
            res = script[pos][2] if pos < len(script) and script[pos][0] == "done" else 1
            pos += 1
            steps[-1]["is_system_action"] = False
            hist = hist + W.action_events(hist, res)
            ahist = ahist + (("done", step[1], res),)
            print(f"  action {step[1]} returns {res}")
        elif step is not None:
            ahist = ahist + (("bot", step[1]),)
    print("recorded:", rp.get("detail"))
    return 0
