"""C03 - failing actions are contained and rails fail closed.

For every world (Colang 1.0 / 2.x, dialog path, rail exceptions on/off) the fault-free two/three turn
conversation is run first and its custom-action invocations (input rail, output rail, dialog
action) are numbered; then a fault (raise; thorough also: return None) is injected at every
invocation index of the faulted turn (singles; thorough: pairs), for every turn position.
Oracle: generate returns normally; the reply is a refusal / the fixed internal-error message and
never contains the LLM text produced in that turn; in the following fault-free turn every
configured rail is invoked again, in order, on that turn's texts.

Further families (same oracle): the actions executed on a remote actions server, with the alphabet of server /
network answers injected at every action site, Colang 1.0 and 2.x (c03_remote.py); Colang 2.x worlds whose input /
output rails are the SHIPPED library flows with stub actions (c03_shipped.py) - signatures name the shipped rail
whose action failed: `<what>:v2:shipped-<rail>-rail:<site>:<fault kind>`.
"""
from __future__ import annotations

import itertools

from vf.props import railsworld as rw
from vf.props import c03_remote as remote
from vf.props import c03_shipped as shipped
from vf.props.c01_v2 import reply_events

PROP = "C03"
INTERNAL_ERROR = "I'm sorry, an internal error has occurred."

V2_MAIN_LOOKUP = """
flow main
  activate handling

flow handling
  global $user_message
  user said something
  $ans = await VerifLookupAction(q=$user_message)
  $text = ..."Answer the user: {$user_message}"
  bot say $text
"""


# a second bot message in the same turn: when the first `bot say` fails (its output rail failed), the flow falls back
# to another LLM-generated text - which has to pass the output rails like any other
V2_MAIN_RETRY = """
flow main
  activate handling

flow handling
  global $user_message
  user said something
  $ans = await VerifLookupAction(q=$user_message)
  $text = ..."Answer the user: {$user_message}"
  $fallback = ..."Give a short fallback answer: {$user_message}"
  when bot say $text
    return
  else
    bot say $fallback
"""


# the dialog action's result is what the bot says (no LLM involved): a failed action leaves None there
V2_MAIN_SAY_RESULT = """
flow main
  activate handling

flow handling
  global $user_message
  user said something
  $ans = await VerifLookupAction(q=$user_message)
  bot say $ans
"""


def llm_fn_for(path, version):
    def fn(task, prompt, i):
        t = str(task)
        if "generate_user_intent" in t:
            return {"lookup": "  request lookup", "llm": "  ask"}.get(path, "  ask")
        if "generate_next_step" in t:
            return "  bot inform capabilities"
        if "generate_bot_message" in t:
            return f'  "LLMTEXT-{rw.digest(prompt)}x"'
        if version == "2.x":
            return f'"LLMTEXT-{rw.digest(prompt)}x"'
        return f"LLMTEXT-{rw.digest(prompt)}x"
    return fn


# "param": ONE shipped rail flow configured twice with different parameters (content safety check input/output $model=...)
# "libjb": Colang 2.x, input rail = the shipped `jailbreak detection heuristics` flow (its action replaced by a stub)
RAILS = {"single": (("in1",), ("out1",)), "double": (("in1", "in2"), ("out1", "out2")), "param": (("in1", "in2"), ("out1", "out2")),
         "libjb": (("in1",), ("out1",)),
         # "libself": Colang 2.x, the shipped `self check input` / `self check output` rails (their actions replaced by stubs)
         "libself": (("in1",), ("out1",)),
         # "threshold": Colang 2.x stub rails that compare their action's result with a threshold (`if $ok < 0.5`, the shape of the
         # shipped `self check facts`): a failed action leaves None there
         "threshold": (("in1",), ("out1",))}
# "remote": the actions run on an actions server (`actions_server_url`), see c03_remote
# "ship:<in>|<out>": Colang 2.x, input / output rail = shipped library flows (or the stub rail "-"), see c03_shipped
_RAILSET = ["single"]
_PATH = ["free"]


def rails_of(railset):
    return RAILS.get(railset, (("in1",), ("out1",)))


def build(version, dialog, exceptions):
    ins, outs = rails_of(_RAILSET[0])
    main = {"retry": V2_MAIN_RETRY, "say-result": V2_MAIN_SAY_RESULT}.get(_PATH[0], V2_MAIN_LOOKUP)
    if _RAILSET[0].startswith("ship:"):
        return shipped.build(*shipped.parse(_RAILSET[0]), exceptions, main)
    if _RAILSET[0] == "remote":
        if version == "2.x":
            def factory(extra_yaml):
                from vf.engines.world import World
                colang = "import core\nimport guardrails\n" + rw.v2_rail("in1", "input") + rw.v2_rail("out1", "output")
                colang += "\nflow input rails $input_text\n  in1 $input_text\n\nflow output rails $output_text\n  out1 $output_text\n" + main
                w = World(colang, 'colang_version: "2.x"\n' + ("enable_rails_exceptions: True\n" if exceptions else "") + extra_yaml)
                # (the actions have to be known locally as well; with an actions server the local bodies are not used)
                w.rails.register_action(w._rail_action, name="VerifRailAction")
                w.rails.register_action(w._dialog_action, name="VerifLookupAction")
                return w
            return remote.serve(factory)
        return remote.serve(lambda extra_yaml: rw.v1_world(in_order=ins, out_order=outs, dialog=dialog, exceptions=exceptions, extra_yaml=extra_yaml))
    if version == "2.x":
        return rw.v2_world(in_order=ins, out_order=outs, dialog=False, exceptions=exceptions, library=("jailbreak" if _RAILSET[0] == "libjb" else (True if _RAILSET[0] == "libself" else False)), shape=("threshold" if _RAILSET[0] == "threshold" else "flag"), main={"retry": V2_MAIN_RETRY, "say-result": V2_MAIN_SAY_RESULT}.get(_PATH[0], V2_MAIN_LOOKUP))
    return rw.v1_world(in_order=ins, out_order=outs, dialog=dialog, exceptions=exceptions, param_rails=("both" if _RAILSET[0] == "param" else False))


def explore(task):
    version, dialog, exceptions, path, turns, pairs, kinds = task[:7]
    _RAILSET[0] = task[7] if len(task) > 7 else "single"
    _PATH[0] = path
    from vf.engines.world import World
    World.action_form = task[8] if len(task) > 8 else "async"
    lite = len(task) > 9 and task[9] == "lite"      # singles only: no second fault in another turn, no fresh instance
    ins, outs = rails_of(_RAILSET[0])
    ship = _RAILSET[0].startswith("ship:")
    v2 = version == "2.x"
    res = {"worlds": 1, "conversations": 0, "faults_injected": 0, "faulted_turns_fail_closed": 0,
           "next_turns_checked": 0, "next_turn_spurious_refusals": 0, "action_sites": 0, "viol": []}
    if ship:
        res["shipped_rail_worlds"] = 1
        res["shipped_rail_faults"] = 0
    if _RAILSET[0] == "remote":
        res["remote_action_worlds"] = 1
        res["remote_action_faults"] = 0
    info0 = {"engine": "E3-world", "prop": "C03", "version": version, "dialog": dialog, "exceptions": exceptions, "path": path,
             "railset": _RAILSET[0], "action_form": World.action_form}
    world = build(version, dialog, exceptions)
    verd = {r: "A" for r in ins + outs}
    fn = llm_fn_for(path, version)
    nonce = [0]

    def run_conv(fault_turn, fault_idx, kind, fresh=False, second=None, pre=None):
        """returns list of Turn; faults are indices relative to the action log at the start of the faulted turn.
        fresh=True: from the faulted turn on the conversation is served by a NEW instance (the client brings the
        message history / the serialised state) - nothing of the earlier turns is cached there."""
        nonlocal world
        nonce[0] += 1
        ctx = {} if v2 else []
        out = []
        for t in range(1, turns + 1):
            if lite and fault_turn is not None and t > fault_turn + 1:
                break       # (the lite plan judges the faulted turn and the turn after it)
            user_text = f"U{t}x{nonce[0]}q hello"
            faults = ()
            if t == fault_turn:
                if fresh:
                    world = build(version, dialog, exceptions)
                base = len(world.action_log)
                faults = tuple(base + i for i in fault_idx)
            elif second is not None and t == second[0]:
                base = len(world.action_log)
                faults = tuple(base + i for i in second[1])
            verd_t = dict(verd, **pre) if (pre and t == 1) else verd    # a rejection in the turn before the faulted one
            if v2:
                turn = rw.run_turn(world, [{"role": "user", "content": user_text}], verd_t, fn, faults=faults, fault_kind=kind, state=ctx)
                if turn.reply is not None:
                    ctx = turn.reply.state
            else:
                msgs = ctx + [{"role": "user", "content": user_text}]
                turn = rw.run_turn(world, msgs, verd_t, fn, faults=faults, fault_kind=kind)
                reply = turn.reply if isinstance(turn.reply, dict) else None
                ctx = msgs + ([reply] if reply and reply.get("role") != "exception" else [])
            turn.user_text = user_text
            out.append(turn)
            if turn.exc is not None:
                break
        return out

    def sites(turn):
        return [a.get("rail") or a["action"] for a in turn.actions]

    # fault-free reference run
    ref = run_conv(None, (), "raise")
    if any(t.exc is not None for t in ref):
        res["viol"].append(("fault-free-run-raised", repr([t.exc for t in ref]), info0))
        return res
    for t in ref:
        s = sites(t)
        want = list(ins) + (["verif_lookup"] if (path == "lookup" or v2) else []) + list(outs)
        if s != want:
            # without any fault every configured rail action (and the dialog action) runs exactly once per turn;
            # an action that is registered but never executed cannot fail closed either
            form = "" if World.action_form == "async" else ":" + World.action_form + "-action"
            res["viol"].append((f"fault-free-run:actions-not-executed-as-configured{form}",
                                f"fault-free turn executed the actions {s}, expected {want} (action registered as {World.action_form})", info0))
            return res
    n_sites = len(ref[0].actions)
    res["action_sites"] = n_sites
    index_sets = [(i,) for i in range(n_sites)]
    if pairs:
        index_sets += list(itertools.combinations(range(n_sites), 2))
    plan = [(ft, idx, kind, False) for ft in range(1, turns) for idx in index_sets for kind in kinds]
    # faults in two different turns of one conversation (the follow-up turn is then turn 3)
    second_plan = [((1, (i,)), (2, (j,))) for i in range(n_sites) for j in range(n_sites)] if turns >= 3 else []
    # the faulted turn (turn 2) served by a fresh instance: single faults, raise only
    if lite:
        second_plan = []
    else:
        plan += [(2, (i,), "raise", True) for i in range(n_sites)]
    full_plan = [(ft, idx, kind, fresh, None, None) for ft, idx, kind, fresh in plan] + [(a[0], a[1], "raise", False, b, None) for a, b in second_plan]
    if _RAILSET[0] == "param":
        # turn 1 ends with a rejection by one of the rails, turn 2 has the fault, turn 3 is the follow-up
        for r in ins[:1] + outs:
            full_plan += [(2, (i,), "raise", False, None, {r: "R"}) for i in range(n_sites)]
    for fault_turn, idx, kind, fresh, second, pre in full_plan:
        if True:
            if True:
                conv = run_conv(fault_turn, idx, kind, fresh, second, pre)
                if second is not None:
                    # judge the *second* faulted turn; the follow-up is the turn after it
                    fault_turn = second[0]
                res["conversations"] += 1
                res["faults_injected"] += len(idx)
                ft = conv[fault_turn - 1] if len(conv) >= fault_turn else conv[-1]
                failed_sites = [(a.get("rail") or a["action"]) for a in ft.actions if a.get("fault")]
                info = dict(info0, fault_turn=fault_turn, fault_indices=list(idx), fault_kind=kind, failed_sites=failed_sites, fresh_instance=fresh, pre_verdicts=pre,
                            earlier_fault=(None if second is None else {"turn": 1, "indices": list(idx)}))
                if second is not None:
                    info["fault_indices"] = list(second[1])

                if failed_sites and ship:
                    res["shipped_rail_faults"] += 1
                if failed_sites and _RAILSET[0] == "remote":
                    res["remote_action_faults"] += 1

                def bad(sig, what):
                    if ship:
                        # one signature per shipped rail and fault kind (the scheme of the jailbreak-heuristics findings)
                        variant = "fresh-instance" if fresh else ("second-fault-after-a-hidden-turn" if second is not None else kind)
                        if sig == "reply-not-refusal-or-internal-error" and not (ft.text or ""):
                            # the turn ends without any bot message and without an exception event: the text is withheld, but
                            # the reply is neither the refusal nor the internal-error message
                            sig = "reply-empty-instead-of-refusal"
                        name = shipped.slug(_RAILSET[0], failed_sites)
                        flows = [shipped.SHIPPED[k][1] + " (" + shipped.SHIPPED[k][3] + ")" for k in name.split("+") if k in shipped.SHIPPED]
                        res["viol"].append((f"{sig}:v2:shipped-{name}-rail:{'+'.join(failed_sites) or 'none'}:{variant}",
                                            (f"shipped Colang 2.x rail `{'`, `'.join(flows)}`, action replaced by a stub, fault kind {kind}: " if flows else "") + what, info))
                    elif _RAILSET[0] == "threshold":
                        variant = "fresh-instance" if fresh else ("second-fault-after-a-hidden-turn" if second is not None else kind)
                        if sig == "reply-not-refusal-or-internal-error" and not (ft.text or ""):
                            sig = "reply-empty-instead-of-refusal"     # same class as for the shipped rails that index / compare a missing result
                        res["viol"].append((f"{sig}:v2:threshold-shaped-rail:{'+'.join(failed_sites) or 'none'}:{variant}", what, info))
                    elif _RAILSET[0] == "libjb":
                        variant = "fresh-instance" if fresh else ("second-fault-after-a-hidden-turn" if second is not None else kind)
                        res["viol"].append((f"{sig}:v2:shipped-jailbreak-heuristics-rail:{'+'.join(failed_sites) or 'none'}:{variant}", what, info))
                    elif fresh:
                        res["viol"].append((f"{sig}:{'v2' if v2 else 'v1'}:fresh-instance-uncached-history", what, info))
                    elif second is not None:
                        res["viol"].append((f"{sig}:{'v2' if v2 else 'v1'}:{path}:second-fault-after-a-hidden-turn:{'+'.join(failed_sites) or 'none'}", what, info))
                    else:
                        form = "" if World.action_form == "async" else ":" + World.action_form + "-action"
                        if _RAILSET[0] == "remote":
                            form = ":remote-action"
                        res["viol"].append((f"{sig}:{'v2' if v2 else 'v1'}:{path}:{'+'.join(failed_sites) or 'none'}:{kind}{form}", what, info))

                bad_turn = next((t for t in conv if t.exc is not None), None)
                if bad_turn is not None:
                    bad("generate-raised", f"generate raised {bad_turn.exc!r}")
                    continue
                if not failed_sites:
                    # the first fault prevented the later site from being reached
                    continue
                llm_texts = [str(c.get("answer", "")).strip().strip('"') for c in ft.llm_calls if "LLMTEXT-" in str(c.get("answer", ""))]
                text = ft.text or ""
                guarded_failed = any(r in failed_sites for r in ins + outs)
                leaked = [x for x in llm_texts if x and x in text]
                approved = []
                if path == "retry" and not any(r in failed_sites for r in ins):
                    # an LLM text that a (non-faulted) invocation of every output rail approved may be uttered -
                    # e.g. the fallback message of a flow whose first message was stopped by the failing rail
                    approved = [x for x in leaked if all(any(a.get("rail") == r and a.get("text") == x and not a.get("fault") for a in ft.actions) for r in outs)]
                    leaked = [x for x in leaked if x not in approved]
                if guarded_failed:
                    if leaked:
                        bad("unchecked-llm-text-returned", f"rail action failed ({failed_sites}) but the reply contains the LLM text {leaked[0]!r}: {text!r}")
                    else:
                        ok_replies = {INTERNAL_ERROR, rw.LIB_REFUSAL} | {f"REFUSED-{r}" for r in ins + outs} | {f"EXC:BLOCKED-{r}" for r in ins + outs}
                        if ship:
                            ok_replies |= shipped.REFUSALS
                        evs = [e.get("type") for e in reply_events(ft.reply)] if v2 else []
                        parts_ok = path == "retry" and all(part in ok_replies or part in approved for part in text.split("\n"))
                        # (the shipped rails name their exception events ...RailException or ...Exception)
                        exc_suffix = "Exception" if ship else "RailException"
                        if text in ok_replies or parts_ok or (v2 and exceptions and any(str(e).endswith(exc_suffix) for e in evs)):
                            res["faulted_turns_fail_closed"] += 1
                        else:
                            bad("reply-not-refusal-or-internal-error", f"rail action failed ({failed_sites}); reply {text!r} events {evs}")
                    if "in1" in failed_sites and ft.llm_calls and kind == "raise" and False:
                        pass
                # ---- following turn: all rails active
                if len(conv) > fault_turn:
                    nt = conv[fault_turn]
                    res["next_turns_checked"] += 1
                    calls = [(a.get("rail"), a["text"]) for a in nt.actions if a.get("rail")]
                    if not calls or calls[0] != (ins[0], nt.user_text):
                        bad("next-turn-input-rail-not-run", f"after the failure the next user message {nt.user_text!r} was not checked by the input rail first; rail calls {calls}, reply {nt.text!r}")
                        continue
                    nt_llm = [str(c.get("answer", "")).strip().strip('"') for c in nt.llm_calls if "LLMTEXT-" in str(c.get("answer", ""))]
                    if path == "retry":
                        nt_llm = nt_llm[:1]      # the second generated text is the fallback, unused in a fault-free turn
                    if nt_llm:
                        if (outs[0], nt_llm[-1]) not in calls:
                            bad("next-turn-output-rail-not-run", f"next turn generated {nt_llm[-1]!r} but the output rail was not invoked on it; rail calls {calls}, reply {nt.text!r}")
                    elif (nt.text or "").startswith("REFUSED") or (nt.text or "") == INTERNAL_ERROR:
                        res["next_turn_spurious_refusals"] += 1
                    if nt_llm and nt.text != nt_llm[-1]:
                        # all verdicts accept: the checked text should come back; a refusal is recorded as anomaly
                        if (nt.text or "").startswith("REFUSED") or (nt.text or "") == INTERNAL_ERROR:
                            res["next_turn_spurious_refusals"] += 1
                        else:
                            bad("next-turn-reply", f"next turn reply {nt.text!r}, expected {nt_llm[-1]!r}")
    seen, uniq = set(), []
    for v in res["viol"]:
        if v[0] not in seen:
            seen.add(v[0])
            uniq.append(v)
    res["viol"] = uniq
    return res


AUDIT_RAIL = """
define bot refuse in1
  "REFUSED-in1"

define flow in1
  $allowed = execute verif_rail(rail="in1", text=$user_message)
  if not $allowed
    execute verif_lookup(q="audit")
    bot refuse in1
    stop
"""


def explore_audit(task):
    """A rail that calls an audit/log action before refusing: verdict scripts over 3-4 turns x a fault at
    every action invocation of every turn.  Every fault-free turn after a fault must obey the rail."""
    _tag, exceptions, turns, kinds = task
    from vf.engines.world import World
    res = {"worlds": 1, "conversations": 0, "faults_injected": 0, "faulted_turns_fail_closed": 0,
           "next_turns_checked": 0, "next_turn_spurious_refusals": 0, "action_sites": 0, "viol": []}
    info0 = {"engine": "E3-world", "prop": "C03", "version": "1.0", "world": "audit-rail", "exceptions": exceptions}
    world = World(AUDIT_RAIL + rw.v1_rail("out1", "output"), "rails:\n  input:\n    flows: [in1]\n  output:\n    flows: [out1]\n")
    fn = llm_fn_for("general", "1.0")
    nonce = [0]
    for script in itertools.product("AR", repeat=turns):
        for fault_turn in range(1, turns):
            n_sites = 2
            for idx in range(n_sites):
                for kind in kinds:
                    nonce[0] += 1
                    msgs = []
                    res["conversations"] += 1
                    faulted = False
                    trail = []
                    for t in range(1, turns + 1):
                        user_text = f"U{t}x{nonce[0]}q hello"
                        verd = {"in1": script[t - 1], "out1": "A"}
                        faults = (len(world.action_log) + idx,) if t == fault_turn else ()
                        m2 = msgs + [{"role": "user", "content": user_text}]
                        turn = rw.run_turn(world, m2, verd, fn, faults=faults, fault_kind=kind)
                        trail.append({"t": t, "verdict": script[t - 1], "fault_index": idx if t == fault_turn else None, "reply": turn.text})
                        info = dict(info0, script="".join(script), fault_turn=fault_turn, fault_index=idx, fault_kind=kind, trail=trail)
                        sig_tail = f"v1:audit-rail:script={''.join(script)}"

                        if turn.exc is not None:
                            res["viol"].append((f"generate-raised:{sig_tail}", repr(turn.exc), info))
                            break
                        llm_texts = [str(c.get("answer", "")).strip() for c in turn.llm_calls if "LLMTEXT-" in str(c.get("answer", ""))]
                        text = turn.text or ""
                        if t == fault_turn:
                            res["faults_injected"] += 1
                            failed = [a for a in turn.actions if a.get("fault")]
                            faulted = bool(failed)
                            if failed and any(x in text for x in llm_texts):
                                res["viol"].append((f"unchecked-llm-text-returned:{sig_tail}", f"action {failed[0].get('rail') or failed[0]['action']} failed; reply {text!r}", info))
                            elif failed:
                                res["faulted_turns_fail_closed"] += 1
                        elif t > fault_turn and faulted:
                            res["next_turns_checked"] += 1
                            calls = [(a.get("rail"), a["text"]) for a in turn.actions if a.get("rail")]
                            if not calls or calls[0] != ("in1", user_text):
                                res["viol"].append((f"next-turn-input-rail-not-run:{sig_tail}", f"turn {t}: rail calls {calls}, reply {text!r}", info))
                                break
                            if script[t - 1] == "R":
                                if turn.llm_calls or any(x in text for x in llm_texts) or text != "REFUSED-in1":
                                    res["viol"].append((f"rail-verdict-ignored-after-fault:{sig_tail}:fault-turn{fault_turn}:site{idx}",
                                                        f"turn {t}: the input rail rejected {user_text!r} but the reply is {text!r} "
                                                        f"(LLM calls: {len(turn.llm_calls)}) - trail {trail}", info))
                                    break
                            elif text.startswith("REFUSED") or text == INTERNAL_ERROR:
                                res["next_turn_spurious_refusals"] += 1
                        reply = turn.reply if isinstance(turn.reply, dict) else None
                        msgs = m2 + ([reply] if reply and reply.get("role") != "exception" else [])
    seen, uniq = set(), []
    for v in res["viol"]:
        if v[0] not in seen:
            seen.add(v[0])
            uniq.append(v)
    res["viol"] = uniq
    return res


def explore_extra(task):
    """Two further call-site shapes: (1) a class-based rail action whose constructor raises (the dispatcher
    instantiates classes lazily at the first call), (2) a Colang 1.0 turn that is started by an `event`
    message instead of a user utterance and runs a failing action."""
    from vf.engines.world import World
    res = {"worlds": 2, "conversations": 0, "faults_injected": 0, "faulted_turns_fail_closed": 0,
           "next_turns_checked": 0, "next_turn_spurious_refusals": 0, "action_sites": 0, "viol": []}
    fn = llm_fn_for("general", "1.0")
    # ---- (1) class action with a failing constructor, as input rail / output rail, v1 and v2
    for version in ("1.0", "2.x"):
        for site in ("in1", "out1"):
            world = build(version, False, False)

            holder = {}

            class FailingInit:
                """the constructor fails at the first attempt only (a backend that is down for a moment)"""
                attempts = 0

                def __init__(self):
                    type(self).attempts += 1
                    if type(self).attempts == 1:
                        raise RuntimeError("cannot construct the rail action (e.g. missing credentials)")

                async def run(self, rail=None, text=None):
                    return holder["world"]._rail_sync(rail, text)

            name = "verif_rail" if version == "1.0" else "VerifRailAction"
            calls = {"n": 0}
            orig = world._rail_action

            class Selective:
                """fails to construct only for the chosen rail: registered under a second name"""

            # register the failing class under a dedicated action name used by one rail only
            bad_name = "verif_bad" if version == "1.0" else "VerifBadAction"
            world.rails.register_action(FailingInit, name=bad_name)
            res["conversations"] += 1
            res["faults_injected"] += 1
            info = {"engine": "E3-world", "prop": "C03", "version": version, "scenario": "class-action-constructor-raises", "site": site}
            try:
                if version == "1.0":
                    colang = rw.v1_rail("in1", "input") + rw.v1_rail("out1", "output")
                    colang = colang.replace(f'execute verif_rail(rail="{site}"', f'execute verif_bad(rail="{site}"')
                    w2 = World(colang, "rails:\n  input:\n    flows: [in1]\n  output:\n    flows: [out1]\n")
                    w2.rails.register_action(FailingInit, name="verif_bad")
                    turn = rw.run_turn(w2, [{"role": "user", "content": "U1 hello"}], {"in1": "A", "out1": "A"}, fn)
                else:
                    colang = rw.v2_rail("in1", "input") + rw.v2_rail("out1", "output")
                    colang = colang.replace(f'VerifRailAction(rail="{site}"', f'VerifBadAction(rail="{site}"')
                    main = "import core\nimport guardrails\n" + colang + "\nflow input rails $input_text\n  in1 $input_text\n\nflow output rails $output_text\n  out1 $output_text\n" + V2_MAIN_LOOKUP
                    w2 = World(main, 'colang_version: "2.x"\n')
                    w2.rails.register_action(w2._rail_action, name="VerifRailAction")
                    w2.rails.register_action(w2._dialog_action, name="VerifLookupAction")
                    w2.rails.register_action(FailingInit, name="VerifBadAction")
                    turn = rw.run_turn(w2, [{"role": "user", "content": "U1 hello"}], {"in1": "A", "out1": "A"}, llm_fn_for("free", "2.x"), state={})
            except Exception as e:
                res["viol"].append((f"harness:class-action:{version}:{site}", repr(e), info))
                continue
            if turn.exc is not None:
                res["viol"].append((f"generate-raised:class-action-constructor:{'v2' if version == '2.x' else 'v1'}", f"rail {site} is a class whose constructor raises: generate raised {turn.exc!r}", info))
                continue
            llm_texts = [str(c.get("answer", "")).strip().strip('"') for c in turn.llm_calls if "LLMTEXT-" in str(c.get("answer", ""))]
            if any(x and x in (turn.text or "") for x in llm_texts):
                res["viol"].append((f"unchecked-llm-text-returned:class-action-constructor:{'v2' if version == '2.x' else 'v1'}:{site}", f"reply {turn.text!r}", info))
            else:
                res["faulted_turns_fail_closed"] += 1
            # the next turn (the constructor works now): processed with all rails active, the rail that failed before included
            holder["world"] = w2
            vtag = "v2" if version == "2.x" else "v1"
            try:
                if version == "1.0":
                    reply = turn.reply if isinstance(turn.reply, dict) else {"role": "assistant", "content": str(turn.text)}
                    t2 = rw.run_turn(w2, [{"role": "user", "content": "U1 hello"}, reply, {"role": "user", "content": "U2 hello again"}], {"in1": "A", "out1": "A"}, fn)
                else:
                    t2 = rw.run_turn(w2, [{"role": "user", "content": "U2 hello again"}], {"in1": "A", "out1": "A"}, llm_fn_for("free", "2.x"), state=turn.reply.state)
            except Exception as e:
                res["viol"].append((f"harness:class-action:next-turn:{version}:{site}", repr(e), info))
                continue
            res["next_turns_checked"] += 1
            rails_seen = [a.get("rail") for a in t2.actions if a.get("rail")]
            if t2.exc is not None:
                res["viol"].append((f"generate-raised:next-turn-after-class-action-constructor:{vtag}", f"{t2.exc!r}", info))
            elif rails_seen != ["in1", "out1"]:
                res["viol"].append((f"next-turn-rails-not-run:class-action-constructor:{vtag}:{site}",
                                    f"turn after the failed construction of the {site} rail action: rails invoked {rails_seen}, expected ['in1', 'out1']; reply {t2.text!r}", info))
    # ---- (2) event-started turn (Colang 1.0)
    colang = """
define flow on silence
  event UserSilent
  $x = execute verif_lookup(q="silence")
  bot ask if still there

define bot ask if still there
  "Are you still there?"
"""
    for fault in (False, True):
        w3 = World(colang, "rails:\n  dialog:\n    single_call:\n      enabled: False\n")
        res["conversations"] += 1
        msgs = [{"role": "event", "event": {"type": "UserSilent"}}]
        faults = (len(w3.action_log),) if fault else ()
        turn = rw.run_turn(w3, msgs, {}, fn, faults=faults)
        info = {"engine": "E3-world", "prop": "C03", "version": "1.0", "scenario": "event-started-turn", "fault": fault}
        if turn.exc is not None:
            res["viol"].append((f"generate-raised:event-started-turn:{'fault' if fault else 'no-fault'}", f"turn started by an `event` message, dialog action {'raises' if fault else 'ok'}: generate raised {turn.exc!r}", info))
        elif fault:
            res["faults_injected"] += 1
            res["faulted_turns_fail_closed"] += 1
    seen, uniq = set(), []
    for v in res["viol"]:
        if v[0] not in seen:
            seen.add(v[0])
            uniq.append(v)
    res["viol"] = uniq
    return res


def explore_conformance(task):
    """binds the in-process stand-in of the actions server to the real aiohttp client (c03_remote.conformance)"""
    n, bad, note = remote.conformance()
    res = {"remote_stand_in_answers_compared_with_real_client": n, "viol": [], "note": note}
    for b in bad:
        res["viol"].append(("harness:remote-stand-in-differs-from-the-real-client:" + b.split(":")[0] + (":" + b.split(":")[1] if b.startswith("srv:") else ""), b,
                            {"engine": "E3-world", "prop": "C03", "scenario": "remote-conformance"}))
    return res


def dispatch(task):
    from vf.engines.world import World
    World.action_form = "async"
    if task[0] == "remote-conformance":
        return explore_conformance(task)
    if task[0] == "extra":
        return explore_extra(task)
    if task[0] == "audit":
        return explore_audit(task)
    return explore(task)


def tasks(tier):
    out = []
    turns = 3
    pairs = True
    kinds = ("raise", "none")
    for exc in (False, True):
        out.append(("1.0", False, exc, "general", turns, pairs, kinds))
        out.append(("1.0", True, exc, "llm", turns, pairs, kinds))
        out.append(("1.0", True, exc, "lookup", turns, pairs, kinds))
        out.append(("2.x", False, exc, "free", turns, pairs, kinds))
        out.append(("2.x", False, exc, "retry", turns, False, ("raise",)))
        out.append(("2.x", False, exc, "say-result", turns, False, ("raise", "none")))
        out.append(("2.x", False, exc, "free", turns, False, ("raise", "none"), "libjb"))
        out.append(("2.x", False, exc, "free", turns, False, ("raise", "none"), "libself"))
        out.append(("2.x", False, exc, "free", turns, False, ("raise", "none"), "threshold"))
        # one shipped rail flow configured twice with different parameters (Colang 1.0)
        out.append(("1.0", False, exc, "general", turns, tier == "thorough", ("raise",), "param"))
        if tier == "thorough":
            out.append(("1.0", True, exc, "lookup", turns, False, ("raise",), "param"))
        if tier == "thorough":
            out.append(("1.0", False, exc, "general", turns, pairs, kinds, "double"))
            out.append(("1.0", True, exc, "lookup", turns, pairs, kinds, "double"))
            out.append(("2.x", False, exc, "free", turns, pairs, kinds, "double"))
    # the exception classes an action may raise (the dispatcher has class-specific handlers) and the
    # ways an action can be registered (async / plain sync / sync wrapper returning the coroutine)
    from vf.engines.world import FAULT_CLASSES
    # (exceptions without a message, or whose message starts with line breaks, as well)
    cls_kinds = tuple("raise:" + c for c in FAULT_CLASSES) + tuple("raise-empty:" + c for c in ("ValueError", "TimeoutError", "AssertionError", "KeyError", "Multiline"))
    for exc in (False, True):
        for w in (("1.0", False, exc, "general"), ("1.0", True, exc, "lookup"), ("2.x", False, exc, "free")):
            out.append(w + (turns, False, cls_kinds, "single", "async"))
            for form in ("sync", "wrapped", "class-sync", "class-async"):
                out.append(w + (turns, tier == "thorough", ("raise", "none") if tier == "thorough" else ("raise",), "single", form))
    out.append(("audit", False, 3 if tier == "quick" else 4, kinds))
    out.append(("extra",))
    thorough = tier == "thorough"
    lite = () if thorough else ("lite",)
    # ---- the actions run on a remote actions server: the alphabet of server / network answers at every action site
    #      (quick: singles; thorough: + pairs, a second fault in another turn, a fresh instance)
    for exc in (False, True):
        for w in (("1.0", False, exc, "general"), ("1.0", True, exc, "lookup"), ("2.x", False, exc, "free")) + ((("2.x", False, exc, "say-result"),) if thorough else ()):
            # (quick: one non-200 status; 404 takes the same branch of the client as 500)
            out.append(w + (turns, thorough, tuple(k for k in remote.REMOTE_KINDS if thorough or k != "srv:404"), "remote", "async") + lite)
    out.append(("remote-conformance",))
    # ---- the shipped Colang 2.x library rails, their actions replaced by stubs
    for exc in (False, True):
        for i, o in shipped.worlds(tier):
            # (singles, as for the other library worlds: after a failing input rail nothing else of the turn is reached)
            out.append(("2.x", False, exc, "free", turns, False, ("raise", "none"), shipped.railset(i, o), "async") + lite)
    return out


def run(rep, tier):
    from vf import par
    import vf.engines.world  # noqa

    ts = tasks(tier)
    agg = {}
    for r in par.pmap(dispatch, ts):
        if r.get("note"):
            rep.assumptions.append(r["note"])
        for k, v in r.items():
            if isinstance(v, int):
                agg[k] = agg.get(k, 0) + v
        for sig, what, info in r["viol"]:
            rep.violation(sig, what, info)
    for k, v in agg.items():
        rep.set(k, v)
    rep.set("evaluations", agg.get("conversations", 0))
    rep.set("distinct_nontrivial", agg.get("faulted_turns_fail_closed", 0) + agg.get("next_turns_checked", 0))
    rep.set("rule", "worlds {v1 general, v1 dialog LLM path, v1 dialog action path, v2} x exceptions on/off x fault turn x every action invocation index (pairs and return-None faults in thorough); "
                    "the same with the actions executed on an actions server x the server answers {200 failed, 200 null, 500, 404, HTML page, broken JSON, connection refused, timeout}; "
                    "Colang 2.x worlds over the shipped library rails (each with a stub rail on the other side + the input/output pairs of one library; thorough: full product) x raise / return-None at every action site; "
                    "non-trivial = faulted rail turns that failed closed + follow-up turns checked")
    rep.set("exhaustive", True)
    rep.assumptions += [
        "faults only at action boundaries (LLM provider failures are excluded by the statement)",
        "a spurious refusal in the follow-up turn is recorded (next_turn_spurious_refusals), not reported: the statement demands containment and active rails",
    ]
    rep.sample({"world": "v1 dialog lookup", "sites": ["in1", "verif_lookup", "out1"], "fault": "raise at site 1 in turn 1"})
    rep.sample({"world": "v2, actions on an actions server", "sites": ["in1", "verif_lookup", "out1"], "fault": "the server answers HTTP 500 for the call of site 0 in turn 2"})
    rep.sample({"world": "v2, shipped rails `llama guard check input` / `llama guard check output` (stub actions)", "sites": ["in1", "verif_lookup", "out1"],
                "fault": "LlamaGuardCheckOutputAction raises in turn 1, after the input check of the same turn allowed"})


def replay(rp):
    from vf.engines.world import World
    World.action_form = rp.get("action_form", "async")
    _RAILSET[0] = rp.get("railset", "single")
    _PATH[0] = rp.get("path", "free")
    world = build(rp["version"], rp["dialog"], rp["exceptions"])
    v2 = rp["version"] == "2.x"
    fn = llm_fn_for(rp["path"], rp["version"])
    ctx = {} if v2 else []
    for t in (1, 2, 3):
        user_text = f"U{t}x0q hello"
        faults = tuple(len(world.action_log) + i for i in rp["fault_indices"]) if t == rp["fault_turn"] else ()
        if v2:
            turn = rw.run_turn(world, [{"role": "user", "content": user_text}], {"in1": "A", "out1": "A"}, fn, faults=faults, fault_kind=rp["fault_kind"], state=ctx)
            ctx = turn.reply.state if turn.reply is not None else ctx
        else:
            msgs = ctx + [{"role": "user", "content": user_text}]
            turn = rw.run_turn(world, msgs, dict({"in1": "A", "out1": "A"}, **((rp.get("pre_verdicts") or {}) if t == 1 else {})), fn, faults=faults, fault_kind=rp["fault_kind"])
            reply = turn.reply if isinstance(turn.reply, dict) else None
            ctx = msgs + ([reply] if reply and reply.get("role") != "exception" else [])
        print(f"turn {t}", "faults at", faults, "->", repr(turn.text), turn.exc, "| actions:",
              [((a.get('rail') or a['action']), a.get('fault')) for a in turn.actions], "| llm:", [c.get("answer") for c in turn.llm_calls])
        if t > rp["fault_turn"]:
            break
    print(rp["what"])
    return 0
