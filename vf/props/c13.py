"""C13 - parsing ignores meaningless layout; every bad .co file is reported as a parsing error.

Part L (layout): for every generated valid Colang 1.0 / 2.x program and every shipped .co file,
  every single admissible position (and all positions at once) of: blank line, whitespace-only
  line, trailing blanks, trailing tab, (2.x) end-of-line comment; and indentation x2 / x3.
  Oracle: `parse_colang_file(..)["flows"]` equal modulo `_source`, `_source_mapping`, `source_code`.
  Which positions are admissible is defined in c13_layout.py (outside multi-line strings etc.).
  Additional generated families (c13_blocks.py), all through the same edits and the same oracle:
  * Colang 1.0 block forms: 10 `define <modifiers> flow` heads x 4 explicit `meta` blocks, 15 elements with a
    parameter / example block x 2 heads, each at 8 (body step, block step) indentation units - the places
    where the 1.0 parser synthesises lines next to the author's or hands an indented block to yaml;
  * Colang 1.0 multi-line "..." utterances at every position of a message block; edit kind `strtrail`:
    blanks appended to the opening / interior physical lines of a multi-line string (1.0 strips every
    physical line of such a string, so these blanks are trailing whitespace, not content);
  * Colang 2.x strings (doc-strings, values) whose text looks like syntax, and 24 end-of-line comment
    *payloads* (`comment[<slug>]`: quotes, triple quotes, brackets, keywords, `#`, backslash, ...) at every
    admissible position of these seeds and of one compact host per statement kind.
Part E (errors): every prefix / single-char deletion / duplication / substitution (13 chars) of 12 short
  seeds per version, and every token string of length <= k over 26 tokens (bare and after a valid flow
  header), each written as x.co and loaded with `RailsConfig.from_path`.
  Oracle: success, or ColangParsingError naming the file; anything else (or > 10 s) is a violation.
All spaces are enumerated completely; nothing is sampled.
"""
from __future__ import annotations

import os
import shutil
import tempfile
import time

from vf import par

PROP = "C13"
QUICK_MAX_LINES = 40
CHUNK = 24
BUNDLE = 150


def _shuffle(tasks, seed):
    """VERIF_SEED only perturbs the order in which the (complete) task list is processed
    (a shuffled order also balances the workers better than the generation order)."""
    import random

    random.Random(seed).shuffle(tasks)


# ------------------------------------------------------------------ part L
def _l_seeds(tier):
    from vf.props import c13_blocks as B
    from vf.props import c13_seeds as S

    seeds = [(n, "2.x", t, "gen") for n, t in S.gen_v2()] + [(n, "1.0", t, "gen") for n, t in S.gen_v1()]
    seeds += [(n, "1.0", t, "genblocks") for n, t in B.gen_v1_blocks()]
    seeds += [(n, "1.0", t, "genstrings") for n, t in B.gen_v1_strings()]
    seeds += [(n, "2.x", t, "genstrings") for n, t in B.gen_v2_strings()]
    seeds += [(n, "2.x", t, "genhosts") for n, t in B.gen_v2_payload_hosts()]
    shipped = S.shipped_files()
    n_all = len(shipped)
    if tier == "quick":
        shipped = [s for s in shipped if s[2].count("\n") + 1 <= QUICK_MAX_LINES]
    seeds += [(rel, v, t, "shipped") for rel, v, t in shipped]
    return seeds, n_all


def part_l(rep, tier, deadline):
    from vf.props import c13_layout as L

    seeds, n_shipped_all = _l_seeds(tier)
    rep.set("L_shipped_files_in_repo", n_shipped_all)
    origin = {s[0]: s[3] for s in seeds}
    texts = {s[0]: s[2] for s in seeds}
    base = {}
    for r in par.pmap(L.l_base_task, [(n, v, t) for n, v, t, _o in seeds], chunksize=4):
        base[r[0]] = r
    skipped, switched = [], []
    tasks = []
    planned = 0
    for name, ver0, text, o in seeds:
        _n, _v0, ver, ok, nflows, err, plan = base[name]
        if not ok:
            skipped.append(f"{name} [{ver}]: {err}")
            continue
        if ver != ver0:
            switched.append(name)
        rep.add(f"L_seeds_{o}_{ver}")
        rep.add("L_seed_lines", text.count("\n") + 1)
        if nflows == 0:
            rep.add("L_seeds_without_flows")
        if sum(plan.values()) <= BUNDLE:
            # small seed: all its edits in one task (the same edits; one base parse instead of one per task)
            tasks.append((name, ver0, text, "bundle", 0, sum(plan.values())))
            planned += sum(plan.values()) + sum(1 for n in plan.values() if n) + 2
            continue
        for kind, n in plan.items():
            for lo in range(0, n, CHUNK):
                tasks.append((name, ver0, text, kind, lo, min(n, lo + CHUNK)))
                planned += min(n, lo + CHUNK) - lo
            tasks.append((name, ver0, text, "all:" + kind, 0, 0))
            planned += 1 if n else 0
        for k in (2, 3):
            tasks.append((name, ver0, text, f"scale:{k}", 0, 0))
            planned += 1
    rep.set("L_seeds_skipped_unparsed", len(skipped))
    rep.set("L_seeds_skipped_list", skipped[:40])
    rep.set("L_seeds_version_switched", len(switched))
    rep.set("L_planned_edits", planned)
    _shuffle(tasks, rep.seed)
    tasks.sort(key=lambda t: -(len(t[2]) * max(1, t[5] - t[4])))
    done = 0
    fails = []
    by_kind = {}
    for r in par.pmap(L.l_edit_task, tasks, chunksize=1, deadline=deadline):
        done += 1
        rep.add("L_evals", r["evals"])
        rep.add("L_changed_and_parsed", r["changed_and_parsed"])
        rep.add("L_edit_left_text_unchanged", r["unchanged"])
        rep.add("L_files_not_scaled_tabs", r["not_scalable"])
        for k, v in r["by_kind"].items():
            by_kind[k] = by_kind.get(k, 0) + v
        fails.extend(r["fails"])
    rep.set("L_evals_by_kind", by_kind)
    complete = done == len(tasks)
    if not complete:
        rep.set("cap_hit", f"part L stopped by the time cap after {done}/{len(tasks)} tasks")

    # violations: one class per (version, edit kind, outcome, class of the edited line);
    # an all-positions edit is only reported when no single position of that seed/kind fails
    single = {(f["name"], f["kind"]) for f in fails if f["pos"] is not None}
    classes = {}
    for f in fails:
        if f["kind"].startswith("all:") and (f["name"], f["kind"][4:]) in single:
            rep.add("L_all_positions_failures_explained_by_single")
            continue
        ver = base[f["name"]][2]
        # parse errors are classified by the exception (+ offending token); changed flows by the kind of line
        with_cls = f["outcome"] == "flows-differ" or f["kind"].endswith("strtrail")
        sig = f"L:{ver}:{f['kind']}:{f['outcome']}" + (f":{f['cls']}" if with_cls else "")
        c = classes.setdefault(sig, {"n": 0, "ex": None})
        c["n"] += 1
        key = (len(texts[f["name"]]), f["name"], f["pos"] if f["pos"] is not None else -1)
        if c["ex"] is None or key < c["ex"][0]:
            c["ex"] = (key, f)
    for sig in sorted(classes):
        f = classes[sig]["ex"][1]
        text = texts[f["name"]]
        ver = base[f["name"]][2]
        line = text.split("\n")[f["pos"]] if f["pos"] is not None and f["pos"] < text.count("\n") + 1 else ""
        rep.violation(
            sig,
            f"layout edit {f['kind']} at line {f['pos']} ({line.strip()[:50]!r}) of {f['name']} [{ver}] -> "
            f"{f['outcome']} ({classes[sig]['n']} case(s) in this class)",
            {"part": "L", "name": f["name"], "ver": ver, "kind": f["kind"], "pos": f["pos"], "text": text},
        )
    return complete, {s: c["n"] for s, c in classes.items()}


# ------------------------------------------------------------------ part E
def part_e(rep, tier, deadline):
    from vf.props import c13_errors as E

    scratch = tempfile.mkdtemp(prefix="c13_")
    E._SCRATCH = scratch
    try:
        # warm-up in the parent: lazy imports happen before the fork, not under a worker's CPU screen
        for ver in ("2.x", "1.0"):
            E.load(ver, "", mode="confirm")
        tasks = E.e_tasks(tier)
        _shuffle(tasks, rep.seed)
        rep.set("E_token_string_max_len", {f"{v}:ctx{c}": k for (v, c), k in E.SOUP_K[tier].items()})
        done = 0
        classes = {}
        spaces = {}
        for r in par.pmap(E.e_task, tasks, chunksize=2, deadline=deadline):
            done += 1
            sp = spaces.setdefault(r["space"], {"loads": 0, "ok": 0, "parse_error": 0, "violations": 0, "hang_suspects": 0})
            for key in sp:
                sp[key] += r[key]
            for key in ("loads", "ok", "parse_error", "import_error", "violations", "hang_suspects", "dup_texts", "planned"):
                rep.add("E_" + key, r[key])
            for sig, c in r["classes"].items():
                t = classes.get(sig)
                if t is None:
                    classes[sig] = dict(c)
                else:
                    t["n"] += c["n"]
                    t["suspects"] = t["suspects"] + c["suspects"]
                    if (len(c["text"]), c["text"]) < (len(t["text"]), t["text"]):
                        t.update(text=c["text"], detail=c["detail"], meta=c["meta"])
        rep.set("E_by_space", spaces)
        complete = done == len(tasks)
        if not complete:
            prev = rep.cov.get("cap_hit")
            msg = f"part E stopped by the time cap after {done}/{len(tasks)} tasks"
            rep.set("cap_hit", (prev + "; " if prev else "") + msg)

        # hang suspects: confirm the smallest suspect of every class with the 10 s wall-clock alarm
        hang = {sig: c for sig, c in classes.items() if c["suspects"]}
        confirmed = {}
        if hang:
            reps = [(c["ver"], c["text"]) for c in hang.values()]
            res = {(v, t): (o, s2, d) for v, t, o, s2, d in par.pmap(E.confirm_task, reps, chunksize=1)}
            retry = []
            for sig, c in hang.items():
                o, s2, d = res[(c["ver"], c["text"])]
                rep.add("E_hang_representatives_rerun_10s")
                if o == "hang":
                    confirmed[sig] = d
                else:
                    retry += [(c["ver"], t, sig) for t in c["suspects"] if t != c["text"]]
                    _late(rep, classes, c["ver"], c["text"], o, s2, d)
            if retry:
                for v, t, o, s2, d in par.pmap(E.confirm_task, [(v, t) for v, t, _s in retry], chunksize=1):
                    rep.add("E_hang_suspects_rerun_10s")
                    if o == "hang":
                        sig = next(s for vv, tt, s in retry if (vv, tt) == (v, t))
                        if sig not in confirmed:
                            confirmed[sig] = d
                            hang[sig].update(text=t)
                    else:
                        _late(rep, classes, v, t, o, s2, d)
        rep.set("E_hang_classes_confirmed_10s", len(confirmed))
        out = {}
        for sig in sorted(classes):
            c = classes[sig]
            if c["suspects"]:
                if sig not in confirmed:
                    continue
                c["detail"] = confirmed[sig] + f"; {len(c['suspects'])} candidate(s) exceeded the {E.SCREEN_CPU}s CPU screen"
            if c["n"] == 0:
                continue
            out[sig] = c["n"]
            rep.violation(
                sig,
                f"RailsConfig.from_path [{c['ver']}] on x.co = {c['text']!r}: {c['detail']} "
                f"({c['n']} candidate(s) in this class)",
                {"part": "E", "ver": c["ver"], "text": c["text"], "meta": c["meta"]},
            )
        return complete, out
    finally:
        shutil.rmtree(scratch, ignore_errors=True)


def _late(rep, classes, ver, text, outcome, sig, detail):
    """A hang suspect that terminated under the 10 s alarm: account for its real outcome."""
    rep.add("E_hang_suspects_refuted")
    if outcome == "violation":
        c = classes.setdefault(sig, {"n": 0, "text": text, "detail": detail, "ver": ver, "meta": {}, "suspects": []})
        c["n"] += 1
    else:
        rep.add("E_" + outcome)


# ------------------------------------------------------------------ entry points
def run(rep, tier):
    import nemoguardrails  # noqa  (import before forking)
    from nemoguardrails import RailsConfig  # noqa
    from nemoguardrails.colang import parse_colang_file  # noqa
    from vf.props import c13_layout as L

    # warm the lark parser cache so that workers inherit it
    L.parse("warm.co", "flow a\n  match A()\n", "2.x")

    t0 = time.time()
    cap = 150 if tier == "quick" else 1500
    rep.assumptions += [
        "Part L seeds: %s" % ("generated programs + shipped .co files of <= %d lines" % QUICK_MAX_LINES if tier == "quick"
                              else "generated programs + every shipped .co file"),
        "shipped file version: nearest ancestor config.yml/.yaml colang_version; else 2.x if a path component is "
        "'v2_x', else 1.0; if the library's own heuristic returns 'not a file of this version' ({}), the other "
        "version is used; files that do not parse unmodified are skipped and listed",
        "admissible edit positions: outside multi-line strings / triple-quote blocks; 2.x: outside open brackets "
        "(expression elements keep the raw source slice) and `# c` only on lines that already have text (a comment "
        "on an empty line is a full-line comment = a statement in the 2.x grammar); 1.0: not before/after a "
        "`\\`/` or` continuation; files with tabs in leading whitespace are not scaled",
        "additional generated families: see c13_blocks.py (1.0 block forms at 8 indentation-unit pairs; 1.0 multi-line "
        "utterances with edit kind strtrail - blanks after the opening/interior physical lines of a multi-line string, "
        "which Colang 1.0 strips line by line, so they are not string content; 2.x strings that look like syntax; 24 "
        "end-of-line comment payloads on the seeds gen2s/* and gen2p/* - ` # c` alone is applied to every 2.x seed)",
        "oracle L: flows equal after removing _source, _source_mapping, source_code (user/bot message tables of "
        "1.0 are not compared: the statement is about flows)",
        "oracle E: ok | ColangParsingError whose message contains the file path (config.py raises that type for both "
        "colang versions; the 1.0 parser has no own error type, its errors are plain Exception objects decorated "
        "with .line that config.py wraps) | ValueError for an unresolvable but syntactically valid import "
        "(counted as E_import_error); per-load alarm of 10 s",
        "scratch config dir contains only config.yml (colang_version) and x.co; no models, no rails",
        "part H: every history of <= 2 earlier files (failing files = 7 contexts x 7 breaks for 2.x, 5 x 6 for 1.0, and the valid probes) parsed in the same process before each of 4 (2.x) / 3 (1.0) valid probe files; oracle = the flows the probe parses to in a process that parsed nothing else",
    ]
    l_ok, l_classes = part_l(rep, tier, t0 + cap * 0.5)
    rep.set("L_wall_s", round(time.time() - t0, 1))
    t1 = time.time()
    e_ok, e_classes = part_e(rep, tier, t0 + cap)
    rep.set("E_wall_s", round(time.time() - t1, 1))

    # part H: a valid file parses to the same flows whatever was parsed before it in the same process (c13_history.py)
    from vf.props import c13_history as H
    h_classes = {}
    for r in par.pmap(H.explore, H.tasks(tier), chunksize=1):
        for k in ("H_histories", "H_probe_parses", "H_files_that_failed"):
            rep.add(k, r[k])
        rep.set("H_failing_files_per_version", r["H_failing_files"])
        for sig, what, rp in r["viol"]:
            if sig not in h_classes:
                h_classes[sig] = 1
                rep.violation(sig, what, rp)
    for ver in ("2.x", "1.0"):
        r = H.explore_single(ver)
        rep.add("S_single_statement_files", r["S_files"])
        rep.add("S_parses", r["S_parses"])
        for sig, what, rp in r["viol"]:
            h_classes[sig] = 1
            rep.violation(sig, what, rp)
    rep.set("violation_classes", {**l_classes, **e_classes, **h_classes})
    rep.set("evaluations", rep.cov.get("L_evals", 0) + rep.cov.get("E_loads", 0))
    rep.set("distinct_nontrivial", rep.cov.get("L_changed_and_parsed", 0) + rep.cov.get("E_parse_error", 0))
    rep.set(
        "rule",
        "L: every admissible single position and all positions at once, per edit kind (blank, blankws, trail, tab; 2.x: "
        "comment, and every comment payload on the payload seeds; 1.0: strtrail), plus indentation x2/x3, for every "
        "seed (generated programs incl. the block / string / payload-host families, shipped files); non-trivial = the edit changed the text, the edited text parsed and the seed has >=1 flow. "
        "E: every prefix/deletion/duplication/13-char substitution at every offset of 12 seeds per version and every "
        "token string of length <= k (bare and after a flow header); non-trivial = the load really ended in a "
        "ColangParsingError naming the file",
    )
    rep.set("exhaustive", bool(l_ok and e_ok))
    rep.sample({"part": "L", "edit": "comment", "seed": "gen2/c0s0", "positions": L.positions("2.x", _sample_text(), "comment")[:8]})
    rep.sample({"part": "E", "candidate": "flow a\n  match ( ", "expected": "ColangParsingError naming x.co"})


def _sample_text():
    from vf.props import c13_seeds as S

    return S.gen_v2()[0][1]


def replay(rp):
    if rp.get("part") in ("H", "S"):
        from vf.props import c13_history as H
        return H.replay(rp)
    from vf.props import c13_errors as E
    from vf.props import c13_layout as L

    print("signature:", rp.get("signature"))
    print("what:", rp.get("what"))
    if rp["part"] == "L":
        ver, text = rp["ver"], rp["text"]
        edited = L.edited_text(ver, text, rp["kind"], rp["pos"])
        base = L.flows_key(L.parse(rp["name"], text, ver))
        print(f"expected: flows of the edited text ({rp['kind']} at line {rp['pos']}) == flows of the original")
        try:
            got = L.flows_key(L.parse(rp["name"], edited, ver))
            print("observed:", "equal" if got == base else "DIFFERENT flows")
            if got != base:
                i = next((i for i, (a, b) in enumerate(zip(base, got)) if a != b), min(len(base), len(got)))
                print("  original: ..." + base[max(0, i - 80): i + 120])
                print("  edited  : ..." + got[max(0, i - 80): i + 120])
        except Exception as e:  # noqa
            print(f"observed: {type(e).__name__}: {' '.join(str(e).split())[:200]}")
        if rp["pos"] is not None:
            ls = edited.split("\n")
            lo = max(0, rp["pos"] - 2)
            print("edited text around the position:")
            for j in range(lo, min(len(ls), rp["pos"] + 3)):
                print(f"  {j:4d}| {ls[j]!r}")
        return 0
    scratch = tempfile.mkdtemp(prefix="c13_")
    E._SCRATCH = scratch
    try:
        outcome, sig, det = E.load(rp["ver"], rp["text"], mode="confirm")
        print("x.co =", repr(rp["text"]))
        print("expected: RailsConfig.from_path succeeds or raises ColangParsingError naming x.co")
        print("observed:", outcome, sig or "", det or "")
    finally:
        shutil.rmtree(scratch, ignore_errors=True)
    return 0
