"""C12 - binding of the abstract CFG to the implementation.

A logging wrapper around the `FlowHead.position` property setter (installed from outside)
records every assignment the interpreter makes to a head position, together with the head's
failure-handler stack and scope list at that moment.  Short event histories (all sequences up
to a depth, pruned where an event moves no head; every outcome of `random.choice` and of the
marked conditions `$c` enumerated) are run on the real `run_to_completion`; every recorded
assignment must be an edge of the abstract graph and lead to an abstract state.
"""
from __future__ import annotations

import re

from vf.engines import v2x
from nemoguardrails.colang.v2_x.runtime import statemachine as sm
from nemoguardrails.colang.v2_x.runtime.flows import FlowHead, FlowHeadStatus, InternalEvents
from nemoguardrails.colang.v2_x.lang.colang_ast import Spec, SpecOp, SpecType

from vf.props import c12_cfg as G

LOG: list = []
_ACTIVE = [False]
_COND = {"n": 0, "cap": 3}
COND_RE = re.compile(r"^not ?\(\$c\)$")

# optional predicate evaluated on every state reached (C09 uses the C12 grammar as a host): state -> [(sig, what)]
STATE_HOOK = [None]

_prop = FlowHead.__dict__["position"]
_installed = [False]


def _recording_setter(self, value):
    if _ACTIVE[0]:
        d = self.__dict__
        old = d.get("_position", 0)
        first = "_vf_seen" not in d
        d["_vf_seen"] = True
        kind = "move"
        cb = d.get("position_changed_callback")
        flow_state = cb.args[1] if cb is not None else None
        fid = flow_state.flow_id if flow_state is not None else None
        if self._status is FlowHeadStatus.INACTIVE:
            kind = "join"          # `parent_fork_head.position = head.position` in MergeHeads
        elif first and flow_state is not None:
            for h in flow_state.heads.values():
                if h is not self and self.uid in h.child_head_uids:
                    kind = "birth"  # `new_head.position = pos` in ForkHead
                    old = h._position
                    break
        LOG.append((
            fid, old, value, tuple(self.catch_pattern_failure_label),
            frozenset(self.scope_uids), kind,
        ))
    _prop.fset(self, value)


_real_eval = sm.eval_expression


def _eval_seam(expr, context):
    if _ACTIVE[0] and isinstance(expr, str) and COND_RE.match(expr):
        # `if $c` / `while $c` compile to Goto(expression="not($c)" / "not ($c)")
        if _COND["n"] >= _COND["cap"]:
            return True          # condition False: leave the loop / skip the branch
        _COND["n"] += 1
        c = v2x.CHOICE.choice([False, True])
        return not c
    return _real_eval(expr, context)


class _QuietConsole:
    """`print "x"` statements of the programs under test would write to the terminal"""

    def print(self, *a, **k):
        pass


def install():
    if _installed[0]:
        return
    sm.console = _QuietConsole()
    FlowHead.position = property(_prop.fget, _recording_setter)
    sm.eval_expression = _eval_seam
    _installed[0] = True


def flow_id_of(fid):
    return fid


def event_alphabet(flow_configs):
    names = []
    for fc in flow_configs.values():
        for e in fc.elements:
            if (isinstance(e, SpecOp) and e.op == "match" and isinstance(e.spec, Spec)
                    and e.spec.spec_type == SpecType.EVENT and e.spec.name
                    and e.spec.name not in InternalEvents.ALL and not e.spec.name.endswith("Action")):
                if e.spec.name not in names:
                    names.append(e.spec.name)
    return names


def _scopes_stripped(cfg, new, catch, scopes, stats):
    """`EndScope` in slide removes the scope name from *every* head of the flow
    (`for h in flow_state.heads.values(): h.scope_uids.remove(name)`), so a head may hold fewer
    scopes than its own path opened when another head of the flow closed them.  The abstraction
    tracks scopes per path: the concrete set has to be a subset of an abstract one with the same
    position and handler stack.  Such moves are counted (they only happen when heads of one flow
    interfere, see `dyn_moves_with_scope_closed_by_other_head`)."""
    for s2 in cfg.scopes_at().get((new, catch), ()):
        if scopes < s2:
            if stats is not None:
                stats["dyn_moves_with_scope_closed_by_other_head"] = (
                    stats.get("dyn_moves_with_scope_closed_by_other_head", 0) + 1)
            return True
    return False


def check_moves(moves, cfgs, out, covered=None, stats=None):
    """validate the recorded assignments of one step; returns number validated"""
    k = 0
    for fuid, old, new, catch, scopes, kind in moves:
        if old == new:
            continue
        cfg = cfgs.get(flow_id_of(fuid))
        if cfg is None:
            continue
        k += 1
        if (old, new) not in cfg.edges:
            out.append({
                "signature": f"v2:impl-move-outside-model:{kind}",
                "what": f"flow `{cfg.flow_id}`: the interpreter moved a head {old} -> {new} ({kind}); "
                        f"the abstract control-flow graph has no such edge",
                "detail": {"flow": cfg.flow_id, "old": old, "new": new, "kind": kind},
            })
        elif kind != "join" and (new, catch, scopes) not in cfg.proj and not _scopes_stripped(
                cfg, new, catch, scopes, stats):
            out.append({
                "signature": f"v2:impl-state-outside-model:{kind}",
                "what": f"flow `{cfg.flow_id}`: head reached {new} (from {old}) with handlers "
                        f"{[G.norm_label(x) for x in catch]} scopes {sorted(G.norm_label(x) for x in scopes)}; "
                        f"no abstract state has that shape",
                "detail": {"flow": cfg.flow_id, "old": old, "new": new, "kind": kind},
            })
        else:
            if covered is not None:
                covered.add((cfg.flow_id, old, new))
            if stats is not None and cfg.edge_kind.get((old, new), "").endswith("_no_label"):
                # a `break` / `continue` outside of every loop: the interpreter stepped over it (old -> old+1)
                stats["dyn_moves_over_loop_exit_without_label"] = (
                    stats.get("dyn_moves_over_loop_exit_without_label", 0) + 1)
    return k


def run_history(state, uid_n, hist):
    """replay helper: hist = [(aev, vector)], returns list of (aev, moves)"""
    res = []
    _ACTIVE[0] = True
    try:
        for aev, vec in hist:
            conc = v2x.resolve_event(state, tuple(aev))
            if conc is None:
                res.append((aev, None))
                continue
            del LOG[:]
            _COND["n"] = 0
            _, uid_n, _ = v2x.step(state, conc, list(vec), uid_n)
            res.append((aev, list(LOG)))
    finally:
        _ACTIVE[0] = False
    return res


def explore_dynamic(state, cfgs, depth, max_steps=300, budget=3000):
    """DFS over event histories of the already initialised `state`.
    returns dict(counts), list(violations)"""
    install()
    out = []
    covered = set()
    raising = {}
    names = event_alphabet(state.flow_configs)
    counts = {"dyn_steps": 0, "dyn_moves": 0, "dyn_steps_raising": 0, "dyn_capped": 0,
              "dyn_max_depth": 0, "dyn_choice_points": 0,
              "dyn_moves_with_scope_closed_by_other_head": 0, "dyn_moves_over_loop_exit_without_label": 0}
    uid0 = v2x.UIDS.n
    stack = [(state, uid0, 0, ())]
    _ACTIVE[0] = True
    try:
        while stack:
            st, uid_n, d, hist = stack.pop()
            counts["dyn_max_depth"] = max(counts["dyn_max_depth"], d)
            if d == 0:
                alpha = [("start_main",)]
            else:
                alpha = [("ext", nm, {}) for nm in names]
                for k in range(len(v2x.pending_actions(st))):
                    alpha.append(("act", k, "Finished", {}))
            for aev in alpha:
                conc = v2x.resolve_event(st, aev)
                if conc is None:
                    continue
                vecs = [[]]
                while vecs:
                    if counts["dyn_steps"] >= max_steps:
                        counts["dyn_capped"] = 1
                        counts["dyn_edges_covered"] = len(covered)
                        counts["raising"] = raising
                        return counts, out
                    vec = vecs.pop()
                    s2 = v2x.copy_state(st)
                    del LOG[:]
                    _COND["n"] = 0
                    counts["dyn_steps"] += 1
                    try:
                        points, uid2, _ = v2x.step(s2, conc, vec, uid_n, budget)
                    except Exception as ex:  # noqa  (escaping exceptions belong to C10)
                        counts["dyn_steps_raising"] += 1
                        raising.setdefault(f"{type(ex).__name__}: {str(ex)[:80]}", [list(a) for a, _ in hist] + [list(aev)])
                        continue
                    taken = [k for k, _ in points]
                    for i in range(len(vec), len(points)):
                        for alt in range(1, points[i][1]):
                            vecs.append(taken[:i] + [alt])
                    counts["dyn_choice_points"] += sum(1 for _, w in points[len(vec):] if w > 1)
                    moves = list(LOG)
                    nviol = len(out)
                    counts["dyn_moves"] += check_moves(moves, cfgs, out, covered, counts)
                    if STATE_HOOK[0] is not None:
                        counts["hook_states"] = counts.get("hook_states", 0) + 1
                        for sig, what in STATE_HOOK[0](s2):
                            out.append({"signature": "HOOK/" + sig, "what": what, "detail": {"flow": None}})
                    h2 = hist + ((aev, tuple(taken)),)
                    for v in out[nviol:]:
                        v["history"] = [[list(a), list(t)] for a, t in h2]
                    if len(out) > nviol:
                        continue
                    if moves and d + 1 < depth:
                        stack.append((s2, uid2, d + 1, h2))
    finally:
        _ACTIVE[0] = False
    counts["dyn_edges_covered"] = len(covered)
    counts["raising"] = raising
    return counts, out


# ============================================================================ Colang 1.0 binding
from nemoguardrails.colang.v1_0.runtime import sliding as v1s  # noqa: E402
from nemoguardrails.colang.v1_0.runtime.flows import FlowConfig as V1FlowConfig  # noqa: E402
from nemoguardrails.colang.v1_0.runtime.flows import State as V1State  # noqa: E402

_V1 = {"active": False, "value": True}
_v1_real_eval = v1s.eval_expression


def _v1_eval(expr, context):
    if _V1["active"]:
        return _V1["value"]
    return _v1_real_eval(expr, context)


def v1_model_slide(els, head, value, limit):
    """the model of sliding.slide for a constant outcome of every expression.
    returns ("ret", result) or ("cycle", None)"""
    n = len(els)
    prev = head if head < n else head - 1
    steps = 0
    while True:
        if head == n or head < 0:
            return ("ret", -1 * (prev + 1))
        if head > n:
            return ("ret", "IndexError")
        steps += 1
        if steps > limit:
            return ("cycle", None)
        prev = head
        el = els[head]
        t = el["_type"]
        if t == "check":
            if not value:
                return ("ret", None)
            head += int(el.get("_next", 1))
        elif t == "if":
            head += 1 if value else int(el["_next_else"])
        elif t == "jump":
            head = int(el["_next"]) if el.get("_absolute") else head + int(el["_next"])
        elif t == "while":
            head += int(el.get("_next", 1)) if value else int(el["_next_on_break"])
        elif t == "continue":
            head += int(el.get("_next_on_continue", 1))
        elif t == "stop":
            return ("ret", None)
        elif t == "break":
            head += int(el.get("_next_on_break", 1))
        elif t == "set":
            head += int(el.get("_next", 1))
        else:
            return ("ret", head)


def v1_bind(flow_id, elements, flow_config=None):
    """run the real `sliding.slide` from every head position with every expression forced to
    True / to False and compare with the model.  returns (n_validated, n_cycles, mismatches).
    flow_config: a FlowConfig the runtime's loader made - slide runs on that object, the model on its elements"""
    els = G.v1_runtime_elements(elements) if flow_config is None else flow_config.elements
    n = len(els)
    if v1s.eval_expression is not _v1_eval:
        v1s.eval_expression = _v1_eval
    cfg = V1FlowConfig(id=flow_id, elements=els) if flow_config is None else flow_config
    ok = cyc = 0
    bad = []
    _V1["active"] = True
    try:
        for value in (True, False):
            _V1["value"] = value
            for head in range(n + 1):
                kind, exp = v1_model_slide(els, head, value, 4 * n + 8)
                if kind == "cycle":
                    cyc += 1   # the implementation would loop forever too (no event needed)
                    continue
                if exp == "IndexError":
                    continue   # reported by the static check
                st = V1State(context={}, flow_states=[], flow_configs={})
                try:
                    got = v1s.slide(st, cfg, head)
                except Exception as ex:  # noqa
                    got = f"raised {type(ex).__name__}"
                if got != exp:
                    bad.append({"head": head, "value": value, "model": exp, "impl": got})
                else:
                    ok += 1
    finally:
        _V1["active"] = False
    return ok, cyc, bad
