"""C19 - the execution environment of the families that need more than one `aio.Env` offers.

`C19Env` is `aio.Env` (same stepping protocol, same canonical order of the enabled choices) plus

  bursts          the requests of one round arrive TOGETHER: one choice ("start", leader) creates the tasks of all
                  of them before the loop runs again (what `asyncio.gather(*requests)` does).  At quiescence
                  granularity this is the only way in which a request can find the batch queue full.
  a failing model every model call j has a second answer ("ext", ("model-raises", j)): the call raises
                  `ModelCallFailed`.  At most one call fails in one schedule (the alternative answers of the other
                  pending calls disappear when one was taken).  Requests of a later round normally arrive when all
                  earlier ones returned; when a failure left earlier requests waiting and nothing else can happen,
                  the later round is released anyway ("later requests are served" stays checkable).
  a second loop   the requests of round 2 run on a FRESH virtual event loop: when the last request of round 1
                  has returned the first loop is wound up the way `asyncio.run` does it (remaining tasks are
                  cancelled, the loop runs until they are gone, it is closed) and a new `VirtualLoop` becomes the
                  running loop.  The index objects are the same (one `asyncio.run(...)` per work package, the
                  library's own synchronous entry points).

  an abandoned loop  (with a second loop) one more choice ("abandon",), enabled while a request of round 1 is under
                  way: the caller gives up - what `asyncio.run(asyncio.wait_for(work, timeout))` does when the timeout
                  fires, or Ctrl-C during a synchronous call: everything that runs on the first loop is cancelled, the
                  loop is wound up and closed; requests of round 1 that had not arrived yet never do.  Round 2 arrives
                  on the fresh loop.  The moment is named after what was pending: a batch hold timer
                  ("during-batch-hold-time"), else a model call ("during-model-call").

  a cancelled request  one more kind of choice ("cancel", k), enabled while request k is under way and nobody was
                  cancelled yet in this schedule: the caller of request k gives up (`asyncio.wait_for(search, timeout)`
                  when the timeout fires, a client that disconnects, a sibling failing in a TaskGroup): its task is
                  cancelled, everything else goes on.  At most one request is cancelled in one schedule.  The moment
                  is named after what the request was waiting for: room in the batch queue, the batch still being
                  held ("during-batch-hold-time"), or the model ("during-model-call").

The class is put on the `Env` object that the explorer created (`adopt`), the explorer itself is unchanged.
"""
from __future__ import annotations

import inspect

from vf.engines import aio


class ModelCallFailed(ConnectionError):
    """the injected failure of one call of the embedding model"""


def is_injected(e):
    """e is the injected failure, or was raised from it"""
    seen = 0
    while e is not None and seen < 8:
        if isinstance(e, ModelCallFailed):
            return True
        e = e.__cause__ or e.__context__
        seen += 1
    return False


class C19Env(aio.Env):
    @classmethod
    def adopt(cls, env, world, first_round, second_loop=False, fail=False, abandon=False, cancel=False):
        env.__class__ = cls
        env.w = world
        env.first_round = list(first_round)     # labels of the requests of round 1
        env.second_loop = bool(second_loop)
        env.fail = bool(fail)
        env.switched = False
        env.released = False
        env.groups = {}             # leader label -> [labels of the burst, leader first]
        env.followers = set()
        env.loop_of = {}            # request label -> number of the loop it ran on
        env.old_loops = 0
        env.monitor = None          # called between two loop iterations of a drain
        env.abandon = bool(abandon) and env.second_loop
        env.abandoned = False       # the choice ("abandon",) was taken
        env.abandon_phase = None    # what was going on at that moment
        env.cut = set()             # requests that were under way and went with the loop
        env.dropped = set()         # requests of round 1 that had not arrived yet: they never do
        env.cancel = bool(cancel)   # ("cancel", k) is a choice
        env.cancelled_req = None    # the request whose caller gave up
        env.cancel_phase = None     # what it was waiting for at that moment
        env.inflight_at_cancel = set()  # the other requests that were under way at that moment
        return env

    def burst(self, labels):
        labels = list(labels)
        if len(labels) > 1:
            self.groups[labels[0]] = labels
            self.followers.update(labels[1:])

    # -- choices
    def enabled(self):
        out = self._filter(aio.Env.enabled(self))
        if self.fail and not self.released and self.w.failed is not None and not out and \
                any(not a[3] for a in self._arrivals):
            # the failure left requests waiting for ever and nothing else can happen: the next round arrives
            self.released = True
            out = self._filter(aio.Env.enabled(self))
        if self.abandon and not self.switched and any(not t.done() for t in self._harness.values()):
            # listed last: the schedule without deviations never abandons
            out.append(("abandon",))
        if self.cancel and self.cancelled_req is None and out:
            # listed last: the schedule without deviations never cancels; not offered when nothing else can happen
            # (a deadlock stays a deadlock)
            for k, t in self._harness.items():
                # a request that has not run yet is left alone: cancelling it = it never arrived
                if not t.done() and inspect.getcoroutinestate(t.get_coro()) != inspect.CORO_CREATED:
                    out.append(("cancel", k))
        return out

    def _filter(self, out):
        if self.followers:
            out = [x for x in out if not (x[0] == "start" and x[1] in self.followers)]
        if self.fail and self.w.failed is not None:
            out = [x for x in out if not (x[0] == "ext" and x[1][0] == "model-raises")]
        return out

    def take(self, label):
        if label[0] == "start" and label[1] in self.groups:
            self.trace.append(label)
            for k in self.groups[label[1]]:
                for a in self._arrivals:
                    if a[0] == k and not a[3]:
                        a[3] = True
                        self._harness[k] = self.loop.create_task(self._wrap(k, a[1]()))
                        self.loop_of[k] = self.old_loops
                        break
                else:
                    raise aio.HarnessError(f"burst {label!r}: request {k!r} was already started")
            return
        if label[0] == "abandon":
            self.trace.append(label)
            self.abandoned = True
            self.abandon_phase = ("during-batch-hold-time" if self.loop.pending_timers() else
                                  "during-model-call" if any(not x[1].done() for x in self._externals) else
                                  "while-nothing-is-pending")
            self.cut = {k for k, t in self._harness.items() if not t.done()}
            for a in self._arrivals:
                if not a[3] and a[0] in self.first_round:
                    a[3] = True
                    self.dropped.add(a[0])
            self.released = True        # round 2 does not wait for results of round 1 any more
            self._next_loop()
            return
        if label[0] == "cancel":
            k = label[1]
            task = self._harness.get(k)
            if task is None or task.done() or self.cancelled_req is not None:
                raise aio.HarnessError(f"choice {label!r} is not enabled (trace so far {self.trace!r})")
            self.trace.append(label)
            self.cancelled_req = k
            self.cancel_phase = self._waiting_for(k)
            self.inflight_at_cancel = {j for j, t in self._harness.items() if j != k and not t.done()}
            task.cancel()
            return
        if label[0] == "ext" and label[1][0] == "model-raises":
            w = self.w
            w.failed = label[1][1]
            w.inflight_at_failure = {k for k, t in self._harness.items() if not t.done()}
        aio.Env.take(self, label)
        if label[0] == "start":
            self.loop_of[label[1]] = self.old_loops

    def settle(self):
        if self.granularity == "quiescence" and self.monitor is not None:
            # the same FIFO drain, one loop iteration at a time, so that the monitor also sees the states between
            # two iterations (a request waiting for room in the queue is gone again at quiescence)
            loop = self.loop
            while loop.has_ready():
                loop.run_iteration()
                self.monitor()
                if loop.handles_run > self.max_handles:
                    raise aio.HorizonExceeded(f"more than {self.max_handles} ready handles in one execution")
        aio.Env.settle(self)
        if self.second_loop and not self.switched and all(k in self.results for k in self.first_round):
            self._next_loop()

    def _waiting_for(self, k):
        """what request k is waiting for (only used to name the moment of its cancellation)"""
        _names, fut = self.where_blocked(k)
        for idx in self.w.indexes:
            ev = getattr(idx, "_current_batch_submitted", None)
            if fut is not None and ev is not None and fut in getattr(ev, "_waiters", ()):
                return "while-waiting-for-room-in-the-batch-queue"
        for idx in self.w.indexes:
            ev = getattr(idx, "_current_batch_finished_event", None)   # the batch that is still open
            if fut is not None and ev is not None and fut in getattr(ev, "_waiters", ()):
                return "during-batch-hold-time"
        if any(x[0][0] == "model" and not x[1].done() for x in self._externals):
            return "during-model-call"
        if self.loop.pending_timers():
            return "during-batch-hold-time"
        return "while-nothing-is-pending"

    def started(self):
        return {a[0] for a in self._arrivals if a[3] and a[0] not in self.dropped}

    # -- the second loop
    def _next_loop(self):
        """what asyncio.run does when its main coroutine has returned, then a fresh loop"""
        old = self.loop
        for t in old.tasks:
            if not t.done():
                t.cancel()
        old.drain(self.max_handles)
        tasks = list(old.tasks)
        old.close()                         # uninstalls it as the running loop
        new = aio.VirtualLoop()
        new._vseq = old._vseq               # timers keep their execution-wide creation numbers
        new.handles_run = old.handles_run
        new.executor_calls = old.executor_calls
        new.tasks.extend(tasks)             # background_failures() keeps seeing the tasks of the first loop
        self.loop = new
        self.old_loops += 1
        self.switched = True
        new.install()
