"""C06 - further program families (generators only; explored and judged by vf/props/c06.py).

Every generator yields (source, activators, once_actions, event names, internal events, info, monitor options).

T10  activated flows with the documented `start_new_flow_instance:` label - in front of / behind the first waiting
     statement, behind the second one, as the last statement - x activator structures (one activator, two activators,
     main itself, nested activation) x how the activator ends.  The histories reach the label-started instances while
     the reference instance (the first instance, the one the activators hold) is still running and after it has ended.
T11  `deactivate <flow>` executed by one of the activators (alone / next to a second activator / by main), before and
     after the activated flow has been restarted.
T12  a flow reacts to the *returning* Start (or Stop) event of an action that is held inside a when / await-group scope
     which is closed in the very step that started the action (event feed-back mode = what process_events does).
T13  the main flow itself ends while flows / actions it started (earlier, or by its last statement) are running.
"""
from __future__ import annotations

import itertools


def ind(lines, n=1):
    return "".join("  " * n + l + "\n" for l in lines)


LABEL = "start_new_flow_instance:"


def t10_programs(tier):
    # (body of the activated flow, label behind the first waiting statement?)
    g_bodies = [
        ([LABEL, "match E2()", "start ActGAction()", "match E3()"], False),
        (["$x = 1", LABEL, "match E2()", "await ActGAction()"], False),
        (["start ActHAction()", LABEL, "match E2()"], False),
        (["match E2()", LABEL, "start ActGAction()", "match E3()"], True),
        (["match E2()", LABEL, "await ActGAction()"], True),
        (["match E2()", LABEL, "match E3()", "abort"], True),
        (["match E2()", "start ActGAction()", "match E3()", LABEL], True),
        (["match E2()", "start ActGAction()", "match E3()", LABEL, "match E2()"], True),
    ]
    structures = [("one", "finish"), ("one", "abort"), ("two", "finish"), ("two", "abort"), ("main", "never"),
                  ("nested", "finish"), ("nested", "abort")]
    for (gb, effective), (struct, a_end) in itertools.product(g_bodies, structures):
        g = "flow g\n" + ind(gb)
        tail = ["abort"] if a_end == "abort" else []
        a1 = "flow a1\n" + ind(["activate g", "match E1()"] + tail)
        a2 = "flow a2\n" + ind(["activate g", "match E4()"])
        internals = [("StopFlow", {"flow_id": "a1"})]
        if struct == "one":
            src = g + "\n" + a1 + "\n" + "flow main\n" + ind(["start a1", "match Never()"])
            activators = {"g": ["a1"]}
        elif struct == "two":
            src = g + "\n" + a1 + "\n" + a2 + "\n" + "flow main\n" + ind(["start a1", "start a2", "match Never()"])
            activators = {"g": ["a1", "a2"]}
        elif struct == "main":
            src = g + "\n" + "flow main\n" + ind(["activate g", "match Never()"])
            activators = {"g": ["main"]}
            internals = [("StopFlow", {"flow_id": "g"})]
        else:
            src = g + "\n" + a1 + "\n" + "flow main\n" + ind(["activate a1", "match Never()"])
            activators = {"g": ["a1"], "a1": ["main"]}
        yield (src, activators, {}, ["E1", "E2", "E3", "E4"], internals,
               {"t": "T10", "g": gb, "label_behind_first_wait": effective, "activators": struct, "a_end": a_end},
               {"label_flows": {"g": effective}})


def t11_programs(tier):
    g_bodies = [
        (["match E2()", "start ActGAction()", "match E3()"], None),
        (["match E2()"], None),
        (["match E2()", "abort"], None),
        (["match E2()", LABEL, "start ActGAction()", "match E3()"], True),
    ]
    for (gb, effective), struct in itertools.product(g_bodies, ("alone", "two", "two-same-end", "main")):
        g = "flow g\n" + ind(gb)
        deact = ["activate g", "match E1()", "deactivate g", "send GaveUp()"]
        if struct == "main":
            src = g + "\n" + "flow main\n" + ind(deact + ["match Never()"])
            activators, gave_up, internals = {"g": ["main"]}, {"main": "GaveUp"}, []
        else:
            a1 = "flow a1\n" + ind(deact + ["match E4()"])
            a2 = "flow a2\n" + ind(["activate g", "match E5()" if struct == "two" else "match E4()"])
            gave_up, internals = {"a1": "GaveUp"}, [("StopFlow", {"flow_id": "a1"})]
            if struct == "alone":
                src = g + "\n" + a1 + "\n" + "flow main\n" + ind(["start a1", "match Never()"])
                activators = {"g": ["a1"]}
            else:
                src = g + "\n" + a1 + "\n" + a2 + "\n" + "flow main\n" + ind(["start a1", "start a2", "match Never()"])
                activators = {"g": ["a1", "a2"]}
        opts = {"gave_up": gave_up}
        if effective is not None:
            opts["label_flows"] = {"g": effective}
        yield (src, activators, {}, ["E1", "E2", "E3", "E4", "E5"], internals,
               {"t": "T11", "g": gb, "activators": struct}, opts)


def t12_programs(tier):
    holders = [
        ["when Act1Action()", "  send M1()", "or when q", "  send M2()", "match Never()"],
        ["await Act1Action() or q", "send M2()", "match Never()"],
    ]
    # the other case of the scope: a flow that is over in the step that starts it ...
    qs = [
        ("", ["start Act1Action()"]),                 # ... it starts the identical action (shared, both start statements go through)
        ('@loop("other")\n', ["send Tick()"]),         # ... it acts in another interaction loop (no competition with the action start)
        ('@loop("other")\n', ["start ActQAction()"]),
        ("", ["match E1()"]),                          # (control: the other case only wins in a later step)
    ]
    reactors = ["parent-finishes-on-Start", "parent-aborts-on-Start", "sibling-stops-holder-on-Start", "parent-finishes-on-Stop", "none"]
    for hb, (deco, qb), reactor in itertools.product(holders, qs, reactors):
        q = deco + "flow q\n" + ind(qb)
        w = "flow w\n" + ind(hb)
        extra = ""
        if reactor == "sibling-stops-holder-on-Start":
            extra = "flow watcher\n" + ind(["match StartAct1Action()", 'send StopFlow(flow_id="w")']) + "\n"
            p = "flow p\n" + ind(["start watcher", "start w", "match E2()"])
        else:
            last = {"parent-finishes-on-Start": ["match StartAct1Action()"], "parent-aborts-on-Start": ["match StartAct1Action()", "abort"],
                    "parent-finishes-on-Stop": ["match StopAct1Action()"], "none": ["match E2()"]}[reactor]
            p = "flow p\n" + ind(["start w"] + last)
        main = "flow main\n" + ind(["start p", "match Never2()"])
        yield (q + "\n" + w + "\n" + extra + p + "\n" + main, {}, {}, ["E1", "E2"], [("StopFlow", {"flow_id": "p"})],
               {"t": "T12", "holder": hb, "other_case": (deco.strip() + " " + " / ".join(qb)).strip(), "reactor": reactor}, {})


def t13_programs(tier):
    """the main flow itself ends (it runs off its end and waits to be started again) while flows / actions it started are
    running - started long before, or by its very last statement"""
    mains = [
        (["start c", "match E1()"], {}),
        (["match E1()", "start c"], {}),
        (["activate c", "match E1()"], {"c": ["main"]}),
        (["match E1()", "start c and d"], {}),
        (["start c and d", "match E1()"], {}),
        (["match E1()", "start ActMAction()"], {}),
        (["start ActMAction()", "match E1()"], {}),
        (["when c", "  send M1()", "or when E1()", "  send M2()"], {}),
        (["start c", "match E1()", "abort"], {}),
    ]
    c_bodies = [["start ActCAction()", "match E3()"], ["match E2()", "start ActCAction()", "match E3()"], ["start e", "match E3()"]]
    for (mb, activators), cb in itertools.product(mains, c_bodies):
        c = "flow c\n" + ind(cb)
        d = "flow d\n" + ind(["match E2()", "start ActDAction()", "match E3()"])
        e = "flow e\n" + ind(["start ActEAction()", "match E4()"])
        yield (c + "\n" + d + "\n" + e + "\n" + "flow main\n" + ind(mb), activators, {}, ["E1", "E2", "E3", "E4"], [],
               {"t": "T13", "main": mb, "c": cb}, {})


def t14_programs(tier):
    """three heads of ONE conflict group with equal scores: two flows start the identical action, a third one another action;
    one of the identical pair is a descendant of the third.  Whoever wins the tie-break: a flow that is taken down by its
    losing ancestor during the resolution does not share the winner's action (the action is stopped with its last holder)."""
    for child_act, parent_act, sib_act in (("X", "Y", "X"), ("X", "Y", "Y"), ("X", "X", "Y"), ("X", "Y", "Z")):
        for depth2 in (False, True):
            act = lambda k: f'ActSAction(script="{k}")'  # noqa: E731
            b = "flow b\n" + ind(["match E1()", f"start {act(child_act)}", "match E3()"])
            mid = ("flow m\n" + ind(["start b", "match E4()"]) + "\n") if depth2 else ""
            a = "flow a\n" + ind([("start m" if depth2 else "start b"), "match E1()", f"start {act(parent_act)}", "match E3()"])
            c = "flow c\n" + ind(["match E1()", f"start {act(sib_act)}", "match E2()"])
            main = "flow main\n" + ind(["start c", "start a", "match E4()"])
            yield (b + "\n" + mid + a + "\n" + c + "\n" + main, {}, {}, ["E1", "E2", "E3", "E4"], [],
                   {"t": "T14", "actions": [child_act, parent_act, sib_act], "depth2": depth2}, {})


def t15_programs(tier):
    """a helper flow holds the RESTARTED instance of an activated flow (the FlowStarted event of the restart) and stops that
    instance by its uid: the instance ended while its activator runs, so the flow is started again"""
    g_bodies = [["match E2()", "start ActGAction()", "match E3()"], ["match E2()", "match E3()"]]
    for gb, how in itertools.product(g_bodies, ("stop", "finish")):
        g = "flow g\n" + ind(gb)
        req = "StopFlow" if how == "stop" else "FinishFlow"
        k = "flow k\n" + ind(['match FlowStarted(flow_id="g") as $first', 'match FlowStarted(flow_id="g") as $second', "match E1()",
                               f"send {req}(flow_instance_uid=$second.flow.uid)", "match Never()"])
        main = "flow main\n" + ind(["start k", "activate g", "match E4()"])
        yield (g + "\n" + k + "\n" + main, {"g": ["main"]}, {}, ["E1", "E2", "E3", "E4"], [],
               {"t": "T15", "g": gb, "request": req}, {})
