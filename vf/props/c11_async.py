"""C11, local async actions: a flow awaits local actions that run asynchronously (`execute_async=True`); the public,
non-blocking `RuntimeV2_x.process_events` returns while they are still running and the client polls with `CheckLocalAsync`.
The state may be saved and restored (state_to_json / json_to_state) between any two calls - in particular while an action
is pending, or after it has completed but before the poll that delivers its result.  The restored conversation must give
the same outgoing events as the one that was never cut.

Enumeration: program (one awaited action / two started actions matched in either order / action in a loop) x every
subset of the call boundaries as cut points x every order in which the pending actions complete relative to the polls
(the completion of each action is a gate the harness opens at a chosen call boundary).  Each execution runs from scratch
on a fresh runtime and a fresh event loop; the reference is the execution with no cut and the same completion schedule."""
from __future__ import annotations

import asyncio
import itertools

PROGRAMS = {
    "one-awaited-action": ("flow main\n  match Begin()\n  $r = await SlowAction(x=1)\n  send Echo(r=$r)\n  match Never()\n", 1),
    "two-started-actions": ("flow main\n  match Begin()\n  start SlowAction(x=1) as $a\n  start SlowAction(x=2) as $b\n  match $a.Finished() as $ea\n  send Echo(r=$ea.return_value)\n"
                            "  match $b.Finished() as $eb\n  send Echo2(r=$eb.return_value)\n  match Never()\n", 2),
    "two-started-actions-second-first": ("flow main\n  match Begin()\n  start SlowAction(x=1) as $a\n  start SlowAction(x=2) as $b\n  match $b.Finished() as $eb\n  send Echo2(r=$eb.return_value)\n"
                                         "  match $a.Finished() as $ea\n  send Echo(r=$ea.return_value)\n  match Never()\n", 2),
    "action-and-an-event": ("flow other\n  match Ping()\n  send Pong()\n\nflow main\n  activate other\n  match Begin()\n  $r = await SlowAction(x=1)\n  send Echo(r=$r)\n  match Never()\n", 1),
}
VOLATILE = ("uid", "event_created_at", "source_uid", "action_uid", "action_finished_at", "action_started_at", "action_updated_at")
N_CALLS = 4      # Begin + three polls


class _OrderedAsyncio:
    """stands in for the `asyncio` name inside the runtime module: `wait` returns the done tasks as a LIST ordered by task
    creation (ascending / descending = the harness' choice) instead of a set whose iteration order follows object addresses"""

    def __init__(self, descending):
        self._desc = descending

    def __getattr__(self, name):
        return getattr(asyncio, name)

    async def wait(self, fs, **kw):
        fs = list(fs)
        done, pending = await asyncio.wait(fs, **kw)
        order = [t for t in fs if t in done]
        if self._desc:
            order.reverse()
        return order, pending


def _norm(events):
    return [{k: v for k, v in e.items() if k not in VOLATILE} for e in events]


async def _run(src, cuts, release_at, descending=False):
    """cuts: set of call boundaries (after call k, k = 0..N_CALLS-2) at which the state is saved and restored;
    release_at: {x: k} action x completes in the boundary after call k"""
    from nemoguardrails import RailsConfig
    from nemoguardrails.actions import action
    from nemoguardrails.colang.v2_x.runtime.runtime import RuntimeV2_x
    from nemoguardrails.colang.v2_x.runtime.serialization import json_to_state, state_to_json

    gates = {x: asyncio.Event() for x in release_at}

    @action(name="SlowAction", execute_async=True)
    async def slow(x: int):
        await gates[x].wait()
        return 40 + x

    import nemoguardrails.colang.v2_x.runtime.runtime as rt_mod
    runtime = RuntimeV2_x(config=RailsConfig.from_content(src, 'colang_version: "2.x"\n'))
    runtime.register_action(slow, "SlowAction")
    outputs = []
    state = None
    saved = rt_mod.asyncio
    rt_mod.asyncio = _OrderedAsyncio(descending)
    try:
        return await _calls(runtime, src, cuts, release_at, gates, json_to_state, state_to_json)
    finally:
        rt_mod.asyncio = saved


async def _calls(runtime, src, cuts, release_at, gates, json_to_state, state_to_json):
    outputs = []
    state = None
    calls = [[{"type": "Begin"}]] + [[{"type": "CheckLocalAsync"}] for _ in range(N_CALLS - 1)]
    if "flow other" in src:
        calls[2] = [{"type": "Ping"}]
    for k, evs in enumerate(calls):
        out, state = await runtime.process_events(list(evs), state)
        outputs.append(_norm(out))
        if k in cuts:
            state = json_to_state(state_to_json(state))
        for x, at in release_at.items():
            if at == k:
                gates[x].set()
        for _ in range(6):
            await asyncio.sleep(0)
    for t in [t for t in asyncio.all_tasks() if t is not asyncio.current_task()]:
        t.cancel()
    return outputs


def run_once(src, cuts, release_at, descending=False):
    loop = asyncio.new_event_loop()
    try:
        return loop.run_until_complete(_run(src, cuts, release_at, descending))
    finally:
        loop.close()


def tasks(tier):
    return list(PROGRAMS)


def explore(name):
    src, n_actions = PROGRAMS[name]
    res = {"executions": 0, "cut_executions": 0, "schedules": 0, "executions_with_a_pending_action_at_a_cut": 0, "results_delivered": 0, "viol": []}
    boundaries = list(range(N_CALLS - 1))
    for rel, desc in itertools.product(itertools.product(boundaries[:2] if n_actions == 2 else boundaries[:3], repeat=n_actions), (False, True)):
        release_at = {x + 1: k for x, k in enumerate(rel)}
        if desc and len(set(rel)) == len(rel):
            continue    # the order in which finished actions are reported only matters when two finish between the same two calls
        res["schedules"] += 1
        try:
            ref = run_once(src, set(), release_at, desc)
        except Exception as e:
            res["viol"].append((f"async-local-action:uncut-run-raised:{name}", repr(e), {"engine": "C11-async", "program": name, "cuts": [], "release_at": release_at}))
            continue
        res["executions"] += 1
        res["results_delivered"] += sum(1 for o in ref for e in o if e.get("type") in ("Echo", "Echo2"))
        for n in range(1, len(boundaries) + 1):
            for cuts in itertools.combinations(boundaries, n):
                res["executions"] += 1
                res["cut_executions"] += 1
                if any(c <= k for c in cuts for k in release_at.values()):
                    res["executions_with_a_pending_action_at_a_cut"] += 1
                rp = {"engine": "C11-async", "program": name, "cuts": list(cuts), "release_at": release_at, "descending": desc}
                try:
                    got = run_once(src, set(cuts), release_at, desc)
                except Exception as e:
                    sig = f"SAVE_RESTORE:async-local-action:continuation-raises:{type(e).__name__}:{name}"
                    if not any(v[0] == sig for v in res["viol"]):
                        res["viol"].append((sig, f"[{name}] cuts after calls {list(cuts)}, actions complete after calls {release_at}: {e!r}", rp))
                    continue
                if got != ref:
                    first = next(i for i in range(len(ref)) if got[i] != ref[i])
                    sig = f"SAVE_RESTORE:async-local-action:outgoing-events-differ:{name}"
                    if not any(v[0] == sig for v in res["viol"]):
                        res["viol"].append((sig, f"[{name}] save/restore after calls {list(cuts)}, actions complete after calls {release_at}: call {first} emits "
                                                 f"{[e['type'] for e in got[first]]} {str(got[first])[:200]}, the uncut conversation {[e['type'] for e in ref[first]]} {str(ref[first])[:200]}", rp))
    return res


def replay(rp):
    src, _n = PROGRAMS[rp["program"]]
    rel = {int(k): v for k, v in rp["release_at"].items()}
    print(src)
    print("uncut :", run_once(src, set(), rel, rp.get("descending", False)))
    print("cut at", rp["cuts"], ":", run_once(src, set(rp["cuts"]), rel, rp.get("descending", False)))
    return 0
