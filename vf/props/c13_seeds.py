"""C13 seeds: a tiny deterministic generator of valid Colang 1.0 / 2.x programs,
discovery of every shipped .co file (with the colang version it is loaded with),
and the short seeds / token alphabet of the error-path part.

Lines are built as lists of strings.  A line that starts with RAW is emitted
verbatim (no block indentation is added): these are the interior lines of
multi-line strings, whose leading blanks are string content.
"""
from __future__ import annotations

import os

RAW = "\x00"


def ind(lines, unit="  "):
    return [l if l.startswith(RAW) else unit + l for l in lines]


def render(lines):
    return "\n".join(l[1:] if l.startswith(RAW) else l for l in lines) + "\n"


# ------------------------------------------------------------------ Colang 2.x
V2_SIMPLE = [
    ['match UtteranceUserActionFinished(final_transcript="hi")'],
    ['send StartUtteranceBotAction(script="a # b") as $ref'],
    ["await UtteranceBotAction(script='it is \"q\"')"],
    ["start f1 as $r", "match $r.Finished()"],
    ["$x = 1 + 2"],
    ['$d = {"a": 1,', '      "b": [2, 3]}'],
    ["await f1(1,", "    b=2)"],
    ["match A()", "    or B()", "  or C()"],
    ["match (A() and B())", "  or C(x=1)"],
    ['"""doc line 1', RAW + "", RAW + "   # not a comment", RAW + 'last doc line"""'],
    ['$s = """multi', RAW + "    line", RAW + '  end"""'],
    ['"""one line doc"""', "..."],
    ['$y = ..."an instruction"'],
    ["..."],
    ["# a full-line comment", "pass"],
    ['log "x"', "print $x"],
    ["return $x"],
    ["priority 0.5", "global $g"],
    ["activate f1", "stop $r"],
    ["bot say \"hi\"", "user said \"yes\" as $u"],
    ["send E(a=$x.y, b=[1, 2], c={\"k\": 'v'}) # trailing comment"],
    ["await f1 1 $b=2"],
]

V2_COMPOUND = [
    lambda a, b, u: ["if $x > 1"] + ind(a, u) + ["else"] + ind(b, u),
    lambda a, b, u: ["if $x:"] + ind(a, u) + ['elif $y == "s":'] + ind(b, u) + ["else:"] + ind(["pass"], u),
    lambda a, b, u: ["while $x < 3"] + ind(a, u) + ind(b, u) + ind(["break"], u),
    lambda a, b, u: ["when A()"] + ind(a, u) + ["or when B() as $e"] + ind(b, u) + ["else"] + ind(["continue"], u),
    lambda a, b, u: ["if $x", ] + ind(["if not $y"] + ind(a, u) + ["else if $z"] + ind(b, u), u) + ["match Z()"],
]

V2_HEADERS = [
    ["flow main"],
    ["flow f2 $a $b=2 -> $r"],
    ["@meta(a=True)", '@loop("l")', "flow g"],
    ["@active", 'flow h($p, $q="s")'],
    ["# meta: exclude from llm", "", "flow k"],
    ["flow say something $text"],
]

V2_HELPER = ["flow f1 $a=1 $b=2", "  match Go()", ""]


def gen_v2():
    out = []
    n = len(V2_SIMPLE)
    k = 0
    # every simple statement inside every compound (paired with a rotating partner)
    for ci, comp in enumerate(V2_COMPOUND):
        for i in range(n):
            unit = "  " if (i + ci) % 3 else "    "
            a, b = V2_SIMPLE[i], V2_SIMPLE[(i + 3 + ci) % n]
            head = V2_HEADERS[k % len(V2_HEADERS)]
            body = [V2_SIMPLE[(i + 1) % n][0]] if len(V2_SIMPLE[(i + 1) % n]) == 1 else ["pass"]
            body = body + comp(a, b, unit)
            lines = V2_HELPER + head + ind(body, unit)
            out.append((f"gen2/c{ci}s{i}", render(lines)))
            k += 1
    # compound nested in compound
    for c1 in range(len(V2_COMPOUND)):
        for c2 in range(len(V2_COMPOUND)):
            i = (c1 * len(V2_COMPOUND) + c2) % n
            inner = V2_COMPOUND[c2](V2_SIMPLE[i], V2_SIMPLE[(i + 5) % n], "  ")
            body = V2_COMPOUND[c1](inner, V2_SIMPLE[(i + 7) % n], "  ")
            head = V2_HEADERS[k % len(V2_HEADERS)]
            out.append((f"gen2/n{c1}{c2}", render(V2_HELPER + head + ind(body))))
            k += 1
    # compound as the second body (`else` / `or when` directly followed by a nested compound);
    # programs of this family that the parser rejects unmodified are skipped and listed
    for c1 in range(len(V2_COMPOUND)):
        for c2 in range(len(V2_COMPOUND)):
            i = (c1 * len(V2_COMPOUND) + c2 + 2) % n
            inner = V2_COMPOUND[c2](V2_SIMPLE[i], V2_SIMPLE[(i + 4) % n], "  ")
            body = V2_COMPOUND[c1](V2_SIMPLE[(i + 9) % n], inner, "  ")
            head = V2_HEADERS[k % len(V2_HEADERS)]
            out.append((f"gen2/m{c1}{c2}", render(V2_HELPER + head + ind(body))))
            k += 1
    # tab-indented program (PythonIndenter: tab = 8 columns); excluded from scaling
    out.append(("gen2/tabs", "flow t\n\tmatch A()\n\tif $x\n\t\tsend B()\n\telse\n\t\tsend C()\n"))
    # two flows separated by comments / blank lines, file without final newline
    out.append(("gen2/noeol", "flow a\n  match A()\n\n# between\n\nflow b\n  await a\n  send B()"))
    return out


# ------------------------------------------------------------------ Colang 1.0
V1_SIMPLE = [
    ["user express greeting"],
    ["bot express greeting"],
    ['user "hi # there"'],
    ['bot "literal answer"'],
    ['execute check_x(a=1, b="s")'],
    ["$r = execute check_y"],
    ["set $x = 1"],
    ["$x = $x + 1"],
    ["# a comment line", "bot inform"],
    ["bot inform  # trailing comment"],
    ['"""a doc comment"""', "bot inform"],
    ['"""multi-line', RAW + "  doc comment", RAW + '"""', "bot ask"],
    ["execute act(a=1, \\", "      b=2)"],
    ["stop"],
    ["pass"],
    ["do other thing"],
    ["event SomethingHappened"],
    ['$a = "text"', "bot $a"],
    ["user ask something or", "    user express thanks"],
    ["# llm: be nice", "bot express greeting"],
    ["bot express welcome", '  "Hello there!"', '  "Hi!"'],
    ["when user ask a or user ask b", "  bot c"],
]

V1_COMPOUND = [
    lambda a, b, u: ["if $x > 1"] + ind(a, u) + ["else"] + ind(b, u),
    lambda a, b, u: ["if $x"] + ind(a, u) + ['else if $y == "s"'] + ind(b, u) + ["else"] + ind(["pass"], u),
    lambda a, b, u: ["while $x < 3"] + ind(a, u) + ind(b, u),
    lambda a, b, u: ["when user ask a"] + ind(a, u) + ["else when user ask b"] + ind(b, u),
    lambda a, b, u: ["if $x"] + ind(["if not $y"] + ind(a, u) + ["else"] + ind(b, u), u) + ["bot bye"],
]

V1_HEADERS = [
    ["define flow greeting"],
    ["define flow"],
    ["define subflow helper"],
    ["define extension flow ext"],
    ["# header comment", "define flow commented"],
]

V1_MESSAGES = [
    "define user express greeting",
    '  "hello"',
    '  "hi there"',
    "",
    "define bot express greeting",
    '  "Hello!"',
    '  "Hi # not a comment"',
    "",
    "define bot inform",
    '  "first line',
    RAW + "   second line",
    RAW + '   last line"',
    "",
]


def gen_v1():
    out = []
    n = len(V1_SIMPLE)
    k = 0
    for ci, comp in enumerate(V1_COMPOUND):
        for i in range(n):
            unit = "  " if (i + ci) % 3 else "    "
            a, b = V1_SIMPLE[i], V1_SIMPLE[(i + 3 + ci) % n]
            head = V1_HEADERS[k % len(V1_HEADERS)]
            body = ["user ask x"] + comp(a, b, unit)
            lines = (V1_MESSAGES if k % 2 == 0 else []) + head + ind(body, unit)
            out.append((f"gen1/c{ci}s{i}", render(lines)))
            k += 1
    for c1 in range(len(V1_COMPOUND)):
        for c2 in range(len(V1_COMPOUND)):
            i = (c1 * len(V1_COMPOUND) + c2) % n
            inner = V1_COMPOUND[c2](V1_SIMPLE[i], V1_SIMPLE[(i + 5) % n], "  ")
            body = ["user ask x"] + V1_COMPOUND[c1](inner, V1_SIMPLE[(i + 7) % n], "  ")
            head = V1_HEADERS[k % len(V1_HEADERS)]
            out.append((f"gen1/n{c1}{c2}", render(head + ind(body))))
            k += 1
    for c1 in range(len(V1_COMPOUND)):
        for c2 in range(len(V1_COMPOUND)):
            i = (c1 * len(V1_COMPOUND) + c2 + 2) % n
            inner = V1_COMPOUND[c2](V1_SIMPLE[i], V1_SIMPLE[(i + 4) % n], "  ")
            body = ["user ask x"] + V1_COMPOUND[c1](V1_SIMPLE[(i + 9) % n], inner, "  ")
            head = V1_HEADERS[k % len(V1_HEADERS)]
            out.append((f"gen1/m{c1}{c2}", render(head + ind(body))))
            k += 1
    out.append(("gen1/noeol", "define flow a\n  user x\n\n# between\n\ndefine flow b\n  user y\n  bot z"))
    out.append(("gen1/msgs", render(V1_MESSAGES)))
    return out


# ------------------------------------------------------------------ shipped files
def repo_root():
    import nemoguardrails

    return os.path.dirname(os.path.dirname(os.path.abspath(nemoguardrails.__file__)))


def _config_version(path, root):
    """colang_version of the nearest ancestor config.yml/config.yaml (None if that
    file does not set it, or there is none)."""
    import yaml

    d = os.path.dirname(path)
    while len(d) >= len(root):
        for n in ("config.yml", "config.yaml"):
            p = os.path.join(d, n)
            if os.path.isfile(p):
                try:
                    with open(p, encoding="utf-8") as f:
                        c = yaml.safe_load(f.read()) or {}
                except Exception:  # noqa
                    c = {}
                v = c.get("colang_version") if isinstance(c, dict) else None
                return str(v) if v is not None else None
        nd = os.path.dirname(d)
        if nd == d:
            break
        d = nd
    return None


def shipped_files(root=None):
    """[(relpath, version, text)] for every .co file under the repository, sorted."""
    root = root or repo_root()
    out = []
    for dp, dn, fn in os.walk(root):
        dn[:] = sorted(d for d in dn if d not in (".git", "node_modules", ".venv", "__pycache__"))
        for f in sorted(fn):
            if not f.endswith(".co"):
                continue
            p = os.path.join(dp, f)
            rel = os.path.relpath(p, root)
            v = _config_version(p, root)
            if v not in ("1.0", "2.x"):
                v = "2.x" if "v2_x" in rel.split(os.sep) else "1.0"
            try:
                with open(p, encoding="utf-8") as fh:
                    txt = fh.read()
            except Exception:  # noqa
                continue
            out.append((rel, v, txt))
    return out


# ------------------------------------------------------------------ error-path seeds
E_SEEDS = {
    "2.x": [
        # a file with an import: mutations of the module name give syntactically valid imports of missing modules
        'import core\n\nflow main\n  user said "hi"\n  bot say "yo"\n',
        # the same module imported twice in one file
        'import core\nimport core\n\nflow main\n  user said "hi"\n',
        'flow main\n  match UtteranceUserActionFinished(final_transcript="hi")\n  send StartUtteranceBotAction(script="yo") as $r\n',
        "flow a $x $y=2 -> $z\n  if $x > 1:\n    $z = $x + $y\n  elif $x\n    abort\n  else\n    return 3\n",
        'flow b\n  when A() or B(x=1)\n    start c as $c\n  or when D().Finished() as $e\n    stop $c\n  else\n    pass\n',
        '@meta(a=True)\n@loop("l")\nflow d\n  while $i < 3\n    $i = $i + 1\n    await e(1, b=[1, {"k": 2}])\n',
        'flow e\n  """Doc\n  more"""\n  $t = """x\n  y"""\n  $q = ..."ask"\n  ...\n',
        "flow f\n  match A()\n    or B()\n  and C()\n  # comment\n  log 'x'  # eol\n  print $y.z[0]\n",
        'flow g\n  user said "hi" as $u\n  bot say "yo"\n  activate h\n  priority 0.5\n  global $g\n',
        "flow h($p, $q='s')\n  send E(a=$p.x, b=-1.5e3, c=None, d=True)\n  match $r.Finished(n=regex(\"a.*\"))\n",
        "flow i\n  $l = [1, 2][0] + len($m) * 2 ** 3\n  $n = not $l in [1] and $l is not None\n  ($n)\n",
        "# meta: exclude from llm\nflow j\n  await (k or l) and m\n  deactivate k\n  break\n  continue\n",
        "flow k\n  if $a\n    if $b\n      match X()\n  match Y()\nflow l\n\tmatch Z()\n",
        'flow é\n  send Evt(t="é\\"\\\\", u=\'\\\'\')\n  label1:\n  $s = "{{ $x }} and {$y}"\n',
    ],
    "1.0": [
        'define user express greeting\n  "hello"\n  "hi"\n\ndefine bot express greeting\n  "Hello!"\n',
        "define flow greeting\n  user express greeting\n  bot express greeting\n",
        'define flow a\n  user ask x\n  if $x > 1\n    bot a\n  else if $y == "s"\n    bot b\n  else\n    bot c\n',
        'define flow b\n  user "hi"\n  $r = execute act(a=1, b="s")\n  set $y = $r + 1\n  bot "answer $y"\n',
        "define subflow c\n  while $i < 3\n    $i = $i + 1\n    execute log(i=$i)\n  stop\n",
        "define flow d\n  when user ask a\n    bot a\n  else when user ask b\n    bot b\n  bot bye\n",
        'define bot inform\n  "first\n   second"\n\ndefine flow e\n  bot inform  # c\n  # llm: x\n  bot bye\n',
        'define extension flow f\n  priority 2\n  user ...\n  do g\n  event Done\n  """doc"""\n  pass\n',
        "define flow\n  user ask or\n    user thank\n  execute a(b=1, \\\n    c=2)\n  bot ok\n",
        'define user ask é\n  "é?"\n\ndefine flow h\n  user ask é\n  bot $answer\n  done\n',
        'define bot ask name\n  "Name?"\n  if $formal\n    "Your name, please?"\n  else\n    "Who?"\n',
        "define flow i\n  user x\n  bot y\n\ndefine flow j\n  user z\n  goto k\n  label k\n  bot w\n",
    ],
}

SUBST = [" ", "\t", '"', "'", "(", ")", ":", "$", "#", "\n", "é", "{", "}"]

NL = "\n"
INDENT = "  "
TOKENS = [
    "flow", "define", "user", "bot", "match", "send", "await", "when", "if", "else",
    "while", "and", "or", "$x", '"s"', "(", ")", ":", "=", ",", ".", NL, INDENT, "#", "@", "...",
]

# a token soup is checked bare and after a valid header, so that statement-level
# contexts of the parsers are reached too (Colang 1.0 content without a line-initial
# `define` is not handed to the 1.0 parser at all)
CONTEXTS = {
    "2.x": ["", "flow a\n  "],
    "1.0": ["", "define flow a\n  user x\n  "],
}


def soup_text(tokens):
    """Tokens are separated by one blank, except that nothing is added after a
    NEWLINE / INDENT token; the final separator is dropped."""
    s = ""
    for t in tokens:
        s += t
        if t not in (NL, INDENT):
            s += " "
    return s[:-1] if s.endswith(" ") and tokens and tokens[-1] not in (NL, INDENT) else s
