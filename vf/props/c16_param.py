"""C16, parametrised-rail family: ONE library rail flow configured several times with different parameters
(`content safety check input $model=<m>` x3 as input rails, `content safety check output $model=<m>` x2 as output rails -
the only parametrised rail names the configuration validation accepts).  Each configured instance is a rail of its own:
the table of the statement holds per instance - it runs with ITS parameters, in the configured order, the reply is the
refusal exactly when one instance blocks, the log lists the instances that ran under their configured names with `stop`
on exactly the instance that blocked.

Enumeration (rails-only calls, ONE LLMRails instance per (world, first-call) so that anything the library remembers from
an earlier call shows): every selection without `dialog` that contains `input` or `output` (6) x {list, dict} form x
every effective verdict vector over {accept, reject} of the three input / two output instances x every choice of the
FIRST call made on the fresh instance (every list-form row of the table opens an instance once, then the whole table runs on it) - the stub
actions registered under the library's action names judge by `context["model"]`, as the real actions pick their LLM.
"""
from __future__ import annotations

import itertools

from vf.props import railsworld as rw

IN_MODELS = ("in1", "in2", "in3")
OUT_MODELS = ("out1", "out2")
LIB_REFUSAL = "I'm sorry, I can't respond to that."
CATS = ["input", "dialog", "retrieval", "output"]
SUBSETS = [("input",), ("input", "retrieval"), ("output",), ("retrieval", "output"), ("input", "output"), ("input", "retrieval", "output")]
# the configured order of the instances (the second world lists them in another order: "first parsed" differs)
ORDERS = {"ascending": (IN_MODELS, OUT_MODELS), "descending": (IN_MODELS[::-1], OUT_MODELS[::-1])}


def in_name(m):
    return f"content safety check input $model={m}"


def out_name(m):
    return f"content safety check output $model={m}"


def make_world(order):
    from vf.props.c16 import RET, RET_YAML
    ins, outs = ORDERS[order]
    return rw.v1_world(in_order=ins, out_order=outs, param_rails="both", extra_colang=RET, extra_yaml=RET_YAML)


def vectors(models):
    """effective accept / reject vectors: instances after a rejecting one must not run"""
    out = [tuple("A" for _ in models)]
    for i in range(len(models)):
        out.append(tuple("A" for _ in range(i)) + ("R",))
    return out


def expectation(order, subset, in_vec, out_vec, user, bot):
    ins, outs = ORDERS[order]
    sel = set(subset)
    verdicts, calls, log, reply, blocked = {"ret1": "A"}, [], [], None, None
    if "input" in sel:
        for m, k in zip(ins, in_vec):
            verdicts[m] = k
            calls.append((m, user))
            log.append(("input", in_name(m), k == "R"))
            if k == "R":
                blocked = m
        reply = user
    if "output" in sel and not blocked:
        for m, k in zip(outs, out_vec):
            verdicts[m] = k
            calls.append((m, bot))
            log.append(("output", out_name(m), k == "R"))
            if k == "R":
                blocked = m
        reply = bot
    if blocked:
        reply = LIB_REFUSAL
    return {"verdicts": verdicts, "calls": calls, "log": log, "reply": reply, "blocked": blocked}


def run_case(world, order, subset, form, in_vec, out_vec, nonce):
    sel = set(subset)
    user, bot = f"UP{nonce}q hello", f"BP{nonce}q supplied answer"
    exp = expectation(order, subset, in_vec, out_vec, user, bot)
    msgs = [{"role": "user", "content": user}]
    if "output" in sel:
        msgs.append({"role": "assistant", "content": bot})
    opt = list(subset) if form == "list" else {c: (c in sel) for c in CATS}
    turn = rw.run_turn(world, msgs, exp["verdicts"], lambda task, prompt, i: "UNEXPECTED-LLM-CALL", options={"rails": opt, "log": {"activated_rails": True}})
    return turn, exp


def judge(turn, exp):
    """-> [(signature stem, what)], first line of the table first"""
    if turn.exc is not None:
        return [("generate-raised", repr(turn.exc))]
    out = []
    calls = [(a["rail"], a["text"]) for a in turn.actions if a.get("rail") != "ret1"]
    if calls != exp["calls"]:
        out.append(("rail-instance-sequence", f"instances ran as (model, text) {calls}, configured / expected {exp['calls']}"))
    if turn.llm_calls:
        out.append(("llm-generation-without-dialog", f"LLM tasks {[str(c['task']) for c in turn.llm_calls]}"))
    if turn.text != exp["reply"]:
        out.append(("reply-is-not-the-refusal" if exp["blocked"] else "reply-is-not-the-text", f"expected {exp['reply']!r}, got {turn.text!r}"))
    log = getattr(turn.reply, "log", None)
    ar = getattr(log, "activated_rails", None) if log is not None else None
    if ar is None:
        out.append(("no-activated-rails-log", "log.activated_rails missing"))
    else:
        got = [(r.type, r.name, bool(r.stop)) for r in ar if r.type in ("input", "output")]
        if got != exp["log"]:
            out.append(("log-activated-rails", f"log {got}, expected {exp['log']}"))
    return out


def cases(subset):
    sel = set(subset)
    in_vs = vectors(IN_MODELS) if "input" in sel else [None]
    out_vs = vectors(OUT_MODELS) if "output" in sel else [None]
    out = []
    for form, iv, ov in itertools.product(("list", "dict"), in_vs, out_vs):
        if iv is not None and "R" in iv and ov is not None and "R" in ov:
            continue    # the output instances do not run after a blocked input: one row per blocking input instance
        out.append((form, iv, ov))
    return out


def explore(task):
    _tag, order, subset = task
    res = {"evaluations": 0, "rails_only_cases": 0, "blocked_cases": 0, "param_rail_cases": 0, "param_rail_instances_run": 0, "viol": []}
    seen = set()
    table = cases(subset)
    n = 0
    # every row of the table is once the FIRST call of a fresh instance; the whole table then runs on that instance
    for first in range(len(table)):
        if table[first][0] != "list":
            continue    # the form of the option does not matter for what a first call leaves behind: list-form rows open an instance
        world = make_world(order)
        rows = [table[first]] + [r for j, r in enumerate(table) if j != first]
        for form, iv, ov in rows:
            n += 1
            turn, exp = run_case(world, order, subset, form, iv, ov, f"{order[0]}{n}")
            res["evaluations"] += 1
            res["param_rail_cases"] += 1
            res["param_rail_instances_run"] += len([a for a in turn.actions if a.get("rail") != "ret1"])
            res["blocked_cases" if exp["blocked"] else "rails_only_cases"] += 1
            if "sample" not in res and turn.exc is None and exp["blocked"]:
                res["sample"] = {"family": "parametrised-rail-instances", "order": order, "subset": list(subset), "form": form,
                                 "in_vector": "".join(iv) if iv else None, "out_vector": "".join(ov) if ov else None, "observed_reply": turn.text,
                                 "instances_invoked": [[a.get("rail"), a["text"]] for a in turn.actions]}
            for stem, what in judge(turn, exp)[:1]:
                key = "+".join(c for c in CATS if c in subset)
                sig = f"{stem}:parametrised-rail-instances:{key}"
                if sig in seen:
                    continue
                seen.add(sig)
                info = {"engine": "E3-world", "prop": "C16", "part": "param", "order": order, "subset": list(subset), "form": form,
                        "in_vector": "".join(iv) if iv else None, "out_vector": "".join(ov) if ov else None,
                        "first_call": {"form": table[first][0], "in_vector": "".join(table[first][1]) if table[first][1] else None,
                                       "out_vector": "".join(table[first][2]) if table[first][2] else None}}
                res["viol"].append((sig, f"instances configured {order}, rails {list(subset)} ({form} form), verdicts in={iv} out={ov}, "
                                         f"first call on the instance {table[first]}: {what}", info))
    return res


def tasks():
    return [("param-rails", order, sub) for order in ORDERS for sub in SUBSETS]


def replay(rp):
    order, subset = rp["order"], tuple(rp["subset"])
    world = make_world(order)
    f = rp["first_call"]
    rows = [(f["form"], tuple(f["in_vector"]) if f["in_vector"] else None, tuple(f["out_vector"]) if f["out_vector"] else None),
            (rp["form"], tuple(rp["in_vector"]) if rp["in_vector"] else None, tuple(rp["out_vector"]) if rp["out_vector"] else None)]
    if rows[0] == rows[1]:
        rows = rows[:1]
    for i, (form, iv, ov) in enumerate(rows):
        turn, exp = run_case(world, order, subset, form, iv, ov, f"replay{i}")
        print(f"call {i + 1} on the instance: rails {list(subset)} ({form}), verdicts in={iv} out={ov}")
        print("   reply", repr(turn.text), "expected", repr(exp["reply"]), "| exception:", repr(turn.exc))
        print("   instances invoked (model, text):", [(a.get("rail"), a["text"]) for a in turn.actions if a.get("rail") != "ret1"], "expected", exp["calls"])
        log = getattr(turn.reply, "log", None)
        if log is not None:
            print("   activated_rails:", [(r.type, r.name, r.stop) for r in log.activated_rails if r.type in ("input", "output")], "expected", exp["log"])
        for stem, what in judge(turn, exp):
            print("     ", stem, what)
    print(rp["what"])
    return 0
