"""C14, group `expr`: the expressions of conditions (`if`, `while`) and assignments (`$v = e`).

The other groups of vf/props/c14.py read and write a counter and an action result with the smallest expressions
there are (`$c == 1`, `$c < 2`, `$c + 1`, `$r`, `not $r`).  Here the EXPRESSION is enumerated: every expression tree
with <= n operators over

    S (text)  ::=  "a" | "b c" | $s | S + S | S if B else S              ($s holds "a")
    B (truth) ::=  S == S | S in S | $c == 0 | $c == 1 | not B | B or B | B and B

(SmallCheck style: by number of operators, all of them; written with the parentheses Python's precedence needs
and no others) and, for action results that are JSON objects (the `$result.field` pattern of the library's own
flows and docs), every condition over

    R (truth) ::=  $r.k == S0 | S0 == $r.k | S0 in $r.l | $r.n == 2 | $r.n > 2 | len($r.l) == 2 | $r.d.z == S0 |
                   $r.k | not $r.e | R or R | R and R                     (S0: the three atoms of S)

The reference value of an expression is Python's value of the same text with every `$name` OUTSIDE a string literal
bound to the reference value of that variable (a JSON object: attribute access reads the key); a string literal is a
constant.  Group `expr-dollar` (dollar_set_exprs, dollar_conds, dollar_result_conds): literals in which a `$` is
followed by a name.  Nothing here imports the library.
"""
from __future__ import annotations

import ast
import functools
import re

S_ATOMS = ('"a"', '"b c"', "$s")
S_VALUE = "a"                       # what the programs assign to $s
C_ATOMS = ("$c == 0", "$c == 1")    # the counter is 0 when the expression is evaluated
# what the action of the `attr` programs returns (a JSON object with a text, a list, a number, an empty text and
# a nested object); no key is the name of a dict method
R_VALUE = {"k": "a", "l": ["a", "c"], "n": 2, "e": "", "d": {"z": "b c"}}

# precedence levels (Python): a sub-expression is parenthesised when its level is too low for its place
P_TERN, P_OR, P_AND, P_NOT, P_CMP, P_ADD, P_ATOM = 1, 2, 3, 4, 5, 6, 7


def _p(e, least):
    """text of (text, level) for a place that needs at least that level"""
    return e[0] if e[1] >= least else f"({e[0]})"


@functools.lru_cache(None)
def s_exprs(n):
    """all text-valued expressions with exactly n operators -> ((text, level), ...)"""
    if n == 0:
        return tuple((a, P_ATOM) for a in S_ATOMS)
    out = []
    for i in range(n):  # S + S (left-associative)
        for a in s_exprs(i):
            for b in s_exprs(n - 1 - i):
                out.append((f"{_p(a, P_ADD)} + {_p(b, P_ADD + 1)}", P_ADD))
    for i in range(n):  # S if B else S
        for j in range(1, n - i):
            k = n - 1 - i - j
            for a in s_exprs(i):
                for c in b_exprs(j):
                    for b in s_exprs(k):
                        out.append((f"{_p(a, P_OR)} if {_p(c, P_OR)} else {_p(b, P_TERN)}", P_TERN))
    return tuple(out)


@functools.lru_cache(None)
def b_exprs(n):
    """all truth-valued expressions with exactly n operators -> ((text, level), ...)"""
    if n == 0:
        return ()
    out = []
    if n == 1:
        out += [(c, P_CMP) for c in C_ATOMS]
    for op in ("==", "in"):
        for i in range(n):
            for a in s_exprs(i):
                for b in s_exprs(n - 1 - i):
                    out.append((f"{_p(a, P_CMP + 1)} {op} {_p(b, P_CMP + 1)}", P_CMP))
    for a in b_exprs(n - 1):
        out.append((f"not {_p(a, P_NOT)}", P_NOT))
    for op, lvl in (("or", P_OR), ("and", P_AND)):
        for i in range(1, n - 1):
            for a in b_exprs(i):
                for b in b_exprs(n - 1 - i):
                    out.append((f"{_p(a, lvl)} {op} {_p(b, lvl + 1)}", lvl))
    return tuple(out)


def r_atoms():
    out = []
    for a in S_ATOMS:
        out += [f"$r.k == {a}", f"{a} == $r.k", f"{a} in $r.l", f"$r.d.z == {a}"]
    out += ["$r.n == 2", "$r.n > 2", "len($r.l) == 2", "$r.k", "not $r.e"]
    return tuple((t, P_NOT if t.startswith("not") else P_CMP if " " in t else P_ATOM) for t in out)


def r_exprs(pairs=True):
    """conditions over the fields of an action result: the atoms, and every `x or y` / `x and y` of two atoms"""
    at = r_atoms()
    out = list(at)
    if pairs:
        for op, lvl in (("or", P_OR), ("and", P_AND)):
            for a in at:
                for b in at:
                    out.append((f"{_p(a, lvl)} {op} {_p(b, lvl + 1)}", lvl))
    return tuple(out)


# ------------------------------------------------------------------ reference value
class RefObject:
    """a JSON object of the reference context: attribute access reads the key (no other attribute exists)"""

    def __init__(self, d):
        object.__setattr__(self, "_d", d)

    def __getattr__(self, name):
        d = object.__getattribute__(self, "_d")
        if name not in d:
            raise AttributeError(name)
        return _wrap(d[name])

    def __eq__(self, other):
        return _unwrap(self) == _unwrap(other)

    def __bool__(self):
        return bool(object.__getattribute__(self, "_d"))

    def __len__(self):
        return len(object.__getattribute__(self, "_d"))

    def __contains__(self, x):
        return x in object.__getattribute__(self, "_d")


def _wrap(v):
    return RefObject(v) if isinstance(v, dict) else v


def _unwrap(v):
    return object.__getattribute__(v, "_d") if isinstance(v, RefObject) else v


_VAR = re.compile(r"\$([a-zA-Z_][a-zA-Z0-9_]*)")
# a string literal (the literals of these groups contain no quote and no backslash) or a variable reference
_LIT_OR_VAR = re.compile(r'("[^"]*")|\$([a-zA-Z_][a-zA-Z0-9_]*)')
_DOLLAR_LIT = re.compile(r'"[^"]*\$[a-zA-Z_][^"]*"')


def python_text(text):
    """-> (the expression as Python text: every variable reference `$name` OUTSIDE a string literal is the name
    v_name, the string literals are left as they are; names of the variables referred to)"""
    names = []

    def one(m):
        if m.group(1) is not None:
            return m.group(1)
        names.append(m.group(2))
        return "v_" + m.group(2)

    return _LIT_OR_VAR.sub(one, text), names


def has_dollar_literal(text):
    """does the expression contain a string literal in which a `$` is followed by a name"""
    return bool(_DOLLAR_LIT.search(text))


def expr_value(text, ctx):
    """Python's value of the expression text, `$name` standing for the reference value of that variable
    (an unassigned variable is an error, as in an ordinary program); a string literal is a constant: its
    characters are its value, whatever they are"""
    py, refs = python_text(text)
    names = {}
    for name in refs:
        if name not in ctx:
            raise NameError(f"${name} is read before it is assigned")
        names["v_" + name] = _wrap(ctx[name])
    return _unwrap(eval(compile(py, "<expr>", "eval"), {"__builtins__": {}, "len": len}, names))


def top_operator(text):
    """name of the outermost operator of the expression text"""
    node = ast.parse(python_text(text)[0], mode="eval").body
    if isinstance(node, ast.BoolOp):
        return "or" if isinstance(node.op, ast.Or) else "and"
    if isinstance(node, ast.UnaryOp):
        return "not" if isinstance(node.op, ast.Not) else "unary"
    if isinstance(node, ast.Compare):
        return {ast.Eq: "==", ast.NotEq: "!=", ast.In: "in", ast.NotIn: "not-in", ast.Lt: "<", ast.Gt: ">",
                ast.LtE: "<=", ast.GtE: ">="}.get(type(node.ops[0]), "cmp")
    if isinstance(node, ast.BinOp):
        return {ast.Add: "+", ast.Sub: "-", ast.Mult: "*"}.get(type(node.op), "binop")
    if isinstance(node, ast.IfExp):
        return "if-else"
    if isinstance(node, ast.Call):
        return "call"
    if isinstance(node, ast.Attribute):
        return "field"
    return "atom"


# ------------------------------------------------------------------ programs (statement tuples of vf/props/c14.py)
def _if(cond, els=True):
    return ("IF", ("$", cond), (("B",),), (("B",),) if els else None)


def cond_programs(conds, attr=False):
    """f1: user u0; $c = 0; $s = "a"; [$r = execute act1(p=$c);] if <cond> bot m1 else bot m2"""
    pre = (("E", "s", f'"{S_VALUE}"'),) + ((("X",),) if attr else ())
    return [(pre + (_if(c),), ()) for c, _ in conds]


def set_programs(exprs):
    """f1: user u0; $c = 0; $s = "a"; $k = <expr>; bot m1   (the value of $k is read from the context the host sees)"""
    return [((("E", "s", f'"{S_VALUE}"'), ("E", "k", e), ("B",)), ()) for e, _ in exprs]


# ------------------------------------------------------------------ string literals with a `$` in them
# (group `expr-dollar`)  $s is an assigned variable of the programs (value "a"), $usd is not a variable of theirs
D_LITS = ('"$s"', '"b $s"', '"in $usd"')
# what the action of the `attr` programs of this group returns: a text with a `$` in it
D_RESULT = {"k": "b $s", "u": "in $usd"}


def dollar_set_exprs():
    """right-hand sides: every literal of D_LITS alone, concatenated with $s on either side, and as the branch of a
    conditional expression that is taken"""
    out = []
    for lit in D_LITS:
        out += [lit, f"{lit} + $s", f"$s + {lit}", f'{lit} if $c == 0 else "a"']
    return tuple((t, P_ATOM) for t in out)


def dollar_conds():
    """conditions whose value depends on the characters of a literal of D_LITS (Python's value of the same text)"""
    out = []
    for lit in D_LITS:
        inner = lit[1:-1]
        at = inner.index("$") + 1  # the same characters as two literals, cut after the `$`
        out += [f"len({lit}) == {len(inner)}", f'"$" in {lit}', f"$s in {lit}",
                f'{lit} == "{inner[:at]}" + "{inner[at:]}"']
    return tuple((t, P_CMP) for t in out)


def dollar_result_conds():
    """conditions that compare a field of the action result D_RESULT with the literal that has the same characters"""
    return tuple((t, P_CMP) for t in ('$r.k == "b $s"', '"b $s" == $r.k', '$r.u == "in $usd"', '"$usd" in $r.u',
                                     '$r.k == "b " + $s'))


def while_programs(conds):
    """f1: user u0; $c = 0; $s = "a"; while <cond> and $c < 2 [/ while $c < 2 and <cond>]: $c = $c + 1, bot; bot"""
    out = []
    pre = (("E", "s", f'"{S_VALUE}"'),)
    for c in conds:
        for text in (f"{_p(c, P_AND)} and $c < 2", f"$c < 2 and {_p(c, P_AND + 1)}"):
            out.append((pre + (("WH", ("$", text), (("I", "c"), ("B",))), ("B",)), ()))
    return out
