"""C01 with the SHIPPED `self check input` rail and its REAL action (the action renders the task prompt `self_check_input`
from the user text and asks the LLM whether the message should be blocked).  Mirrors vf/props/c02_selfcheck.py (lengths
around a small `max_length`) for the input side over the whole range of text lengths up to and beyond the prompt limit:

  prompt limit  : the library's default `max_length` (16000) and a configured one (3000)
  text length   : a ladder from 40 characters to 2.2 x the limit (step <= 1000 below the default limit)
  marker        : the word FORBIDDEN nowhere / at the start / in the middle / at the very end of the text (behind the padding)
  version       : Colang 1.0 and 2.x;  2 turns (the second one is an ordinary short turn)

The scripted LLM answers a check prompt "Yes" (block) exactly when the prompt it really received shows the marker.

Oracle ("every user message is processed by the input rails", "for all user texts"): a dialog / generation call is made for a
turn only if some `self_check_input` prompt of that turn contained the WHOLE user text (the rail judged the message, not a part
of it); a text with the marker gets no generation call and the refusal (or the internal-error message when the text does not
fit the prompt: fail closed); the following ordinary turn is answered."""
from __future__ import annotations

import itertools
import os

from vf.props import railsworld as rw

MARK = "FORBIDDEN"
DEFAULT_LIMIT = 16000
LIMITS = {"default-limit": None, "limit-3000": 3000}
POSITIONS = ("none", "start", "middle", "end")
REFUSAL = "I'm sorry, I can't respond to that."
INTERNAL = "I'm sorry, an internal error has occurred."
SEED = int(os.environ.get("VERIF_SEED", "0") or 0)      # salt of the texts only


def prompts_yaml(limit):
    ml = f"    max_length: {limit}\n" if limit else ""
    return ("\nprompts:\n  - task: self_check_input\n" + ml +
            "    content: |-\n      Should the user message be blocked?\n      User message: \"{{ user_input }}\"\n      Answer [Yes/No]:\n")


def ladder(limit, tier):
    lim = limit or DEFAULT_LIMIT
    step = 1000 if tier == "quick" else 250
    xs = {40, 100, 250, 500}
    xs.update(range(step, lim + 1, step))
    xs.update({lim - 200, lim - 60, lim + 40, lim + step, int(lim * 1.5), int(lim * 2.2)})
    return sorted(x for x in xs if x > 0)


def text_of(tag, length, pos):
    words, n, i = [], 0, 0
    while n < length:
        w = f"{tag}w{i}"
        words.append(w)
        n += len(w) + 1
        i += 1
    if pos != "none":
        k = {"start": 0, "middle": len(words) // 2, "end": len(words)}[pos]
        words.insert(k, MARK)
    return " ".join(words)


def build(version, limit):
    from vf.engines.world import World
    if version == "1.0":
        return World("", "rails:\n  input:\n    flows:\n      - self check input\n" + prompts_yaml(limit))
    colang = ("import core\nimport guardrails\nimport nemoguardrails.library.self_check.input_check\n"
              "\nflow input rails $input_text\n  self check input\n" + rw.V2_MAIN_NODIALOG)
    import nemoguardrails
    cwd = os.getcwd()
    os.chdir(os.path.dirname(os.path.dirname(os.path.abspath(nemoguardrails.__file__))))
    try:
        w = World(colang, 'colang_version: "2.x"\n' + prompts_yaml(limit))
    finally:
        os.chdir(cwd)
    w.rails.register_action(w._dialog_action, name="VerifLookupAction")
    return w


def tasks(tier):
    out = []
    for version in ("1.0", "2.x"):
        for lname, limit in LIMITS.items():
            ls = ladder(limit, tier)
            k = 4 if limit is None else 1
            for part in range(k):
                out.append(("real-self-check-input", version, lname, tuple(ls[part::k]), tier))
    return out


def run_case(w, version, lname, length, pos, tag, res, info0):
    long_text = text_of(tag, length, pos)
    limit = LIMITS[lname] or DEFAULT_LIMIT
    state = {} if version == "2.x" else None
    msgs = []
    if len(long_text) > limit:
        res["selfcheck_texts_longer_than_the_prompt_limit"] += 1
    for t in (1, 2):
        bot_text = f"{tag}t{t} fine answer"
        user_text = long_text if t == 1 else f"{tag}t{t} hello"

        def llm_fn(task_name, prompt, i, bot_text=bot_text):
            if "self_check" in str(task_name):
                return "Yes" if MARK in prompt else "No"
            return f'"{bot_text}"' if version == "2.x" else bot_text

        info = dict(info0, limit=lname, length=length, marker=pos, turn=t, tag=tag)
        if version == "2.x":
            turn = rw.run_turn(w, [{"role": "user", "content": user_text}], {}, llm_fn, state=state)
        else:
            msgs = msgs + [{"role": "user", "content": user_text}]
            turn = rw.run_turn(w, msgs, {}, llm_fn)
        res["turns"] += 1
        res["llm_calls"] += len(turn.llm_calls)
        lclass = ("text-fits-the-check-prompt" if len(long_text) + 120 <= limit else "text-longer-than-the-check-prompt-limit")
        sfx = f"{'v2' if version == '2.x' else 'v1'}:real-self-check-input-action:{lname}:{lclass}" + (":later-turn" if t == 2 else "")

        def bad(sig, what):
            res["viol"].append((f"{sig}:{sfx}", what, info))

        if turn.exc is not None:
            bad("generate-raised", repr(turn.exc))
            return
        checks = [c for c in turn.llm_calls if "self_check_input" in str(c["task"])]
        gens = [c for c in turn.llm_calls if "self_check" not in str(c["task"])]
        lookups = [a for a in turn.actions if a["action"] == "verif_lookup"]
        res["rail_calls"] += len(checks)
        res["selfcheck_check_prompts_seen"] += len(checks)
        reply = turn.text or ""
        desc = (f"user text of {len(user_text)} characters (ladder length {length}, prompt limit {limit}), marker {pos}: self_check_input prompts had lengths "
                f"{[len(c['prompt']) for c in checks]}, contained the whole text: {[user_text in c['prompt'] for c in checks]}, saw the marker: {[MARK in c['prompt'] for c in checks]}; "
                f"{len(gens)} generation call(s), {len(lookups)} dialog action(s), reply {reply[:60]!r}")
        if (gens or lookups) and not any(user_text in c["prompt"] for c in checks):
            bad("generation-for-a-user-message-the-rail-did-not-see-wholly", desc)
            return
        if MARK in user_text:
            res["rejections"] += 1
            if gens or lookups:
                bad("llm-call-after-rejection", desc)
                return
            if reply not in (REFUSAL, INTERNAL):
                bad("reply-is-not-the-refusal", desc)
                return
        elif t == 1:
            # (the generation prompt has a limit of its own, and the 2.x world quotes the text twice in it: an answer is
            # demanded only when the text is well below that)
            if len(long_text) * (2 if version == "2.x" else 1) + 3000 <= DEFAULT_LIMIT and len(long_text) + 120 <= limit:
                res["selfcheck_long_texts_accepted"] += 1 if length >= 1000 else 0
                if reply != bot_text:
                    bad("no-generation-after-accept", desc)
                    return
            elif reply == INTERNAL or reply == REFUSAL:
                res["rejections"] += 1      # does not fit the check prompt: fails closed
        if t == 2 and reply != bot_text:
            bad("ordinary-turn-not-answered", f"turn 2 (short text, nothing to block) after a first message of {len(long_text)} characters (marker {pos}): reply {reply[:80]!r}")
            return
        if version == "2.x":
            state = turn.reply.state
        else:
            r = turn.reply if isinstance(turn.reply, dict) else {"role": "assistant", "content": str(turn.text)}
            msgs = msgs + [r]


def explore(task):
    _tag, version, lname, lengths, tier = task
    res = {"worlds": 1, "turns": 0, "conversations": 0, "rejections": 0, "rewrites": 0, "llm_calls": 0, "rail_calls": 0, "viol": [],
           "selfcheck_check_prompts_seen": 0, "selfcheck_texts_longer_than_the_prompt_limit": 0, "selfcheck_long_texts_accepted": 0}
    info0 = {"engine": "E3-world", "prop": "C01", "mode": "real-self-check-input", "version": version}
    try:
        w = build(version, LIMITS[lname])
    except Exception as e:
        res["viol"].append((f"world-rejected:real-self-check-input-action:{version}", repr(e), info0))
        return res
    for length, pos in itertools.product(lengths, POSITIONS):
        res["conversations"] += 1
        run_case(w, version, lname, length, pos, f"L{length}{pos[0]}s{SEED}", res, info0)
    seen, uniq = set(), []
    for v in res["viol"]:
        if v[0] not in seen:
            seen.add(v[0])
            uniq.append(v)
    res["viol"] = uniq
    res["sample"] = dict(info0, limit=lname, lengths=list(lengths), turns=res["turns"])
    return res


def replay(rp):
    w = build(rp["version"], LIMITS[rp["limit"]])
    res = {"worlds": 1, "turns": 0, "conversations": 0, "rejections": 0, "rewrites": 0, "llm_calls": 0, "rail_calls": 0, "viol": [],
           "selfcheck_check_prompts_seen": 0, "selfcheck_texts_longer_than_the_prompt_limit": 0, "selfcheck_long_texts_accepted": 0}
    run_case(w, rp["version"], rp["limit"], rp["length"], rp["marker"], rp.get("tag", "R"), res, {})
    for c in w.llm.calls:
        print("LLM call", c["task"], "prompt length", len(c["prompt"]), "marker in prompt:", MARK in c["prompt"], "->", str(c.get("answer"))[:40])
    for sig, what, _i in res["viol"]:
        print("observed:", sig, ":", what)
    print("expected: a generation call only after a self_check_input prompt that contained the whole user text;", rp["what"])
    return 0
