"""C15 - conversations served by one LLMRails instance do not influence each other.

Part S (sequential, E3): sets of conversations - including ones whose texts contain the cache-key
separator or replay another conversation's reply in a different role - are served on ONE shared
instance in every interleaving of their requests; every request's reply and LLM prompts must equal
those of the same conversation replayed alone on a fresh instance.
Part P (concurrent, E2): see c15_conc.py - 2..3 generate_async tasks with different llm_params on a
shared instance under every LLM completion order.
"""
from __future__ import annotations

import itertools

from vf.props import railsworld as rw
from vf.engines.world import World

PROP = "C15"


def llm_fn(task, prompt, i):
    t = str(task)
    d = rw.digest(prompt)
    if "same opening" in prompt:
        # conversations of the set `same-texts-different-options` must have identical texts: the reply only depends on the last user text
        d = rw.digest(prompt.rsplit("same opening", 1)[-1][-40:])
    if "generate_user_intent" in t:
        if "look it up" in prompt.rsplit('user "', 1)[-1]:
            return "  request lookup"
        if "good morning" in prompt.rsplit('user "', 1)[-1]:
            return "  say good morning"
        return "  ask"
    if "generate_next_step" in t:
        return "  bot inform capabilities"
    if "generate_bot_message" in t:
        return f'  "R{d}"'
    return f"R{d}"


MUTATING_COLANG = """
define flow remember topics
  $user_message = execute verif_remember(text=$user_message)
"""


def _remember_action():
    from nemoguardrails.actions.actions import ActionResult

    async def verif_remember(text: str = "", context=None):
        """keeps a list-valued context variable; from the second call on the list is changed in place"""
        topics = (context or {}).get("topics")
        if topics is None:
            return ActionResult(return_value=f"{text} [topics: {text}]", context_updates={"topics": [text]})
        topics.append(text)
        return ActionResult(return_value=f"{text} [topics: {'; '.join(topics)}]")

    return verif_remember


VARMSG_COLANG = """
define user say good morning
  "good morning"

define bot greet by name
  "Good morning $name, nice to see you!"

define flow morning
  user say good morning
  bot greet by name
"""


SHORT_PROMPT_YAML = """rails:
  dialog:
    single_call:
      enabled: False
prompts:
  - task: general
    max_length: 600
    content: |-
      {{ general_instructions }}
      {{ history | user_assistant_sequence }}
      Assistant:
"""


def build(dialog):
    if dialog == "shortprompt":
        # the prompt of the generating task has a small length limit: the history of a long conversation does not fit
        # and is cut from its beginning (what is cut for one conversation must not be cut for another)
        return World("", SHORT_PROMPT_YAML)
    if dialog == "varmsg":
        # a predefined bot message that uses a context variable which only some conversations supply
        return World(rw.V1_DIALOG + VARMSG_COLANG, "rails:\n  dialog:\n    single_call:\n      enabled: False\n")
    if dialog == "mutating":
        # an input rail whose action keeps a list in the context and changes it in place (conversation data that lives
        # in the events of the conversation only)
        return World(MUTATING_COLANG, "rails:\n  input:\n    flows:\n      - remember topics\n  dialog:\n    single_call:\n      enabled: False\n",
                     actions=[("verif_remember", _remember_action())])
    if dialog == "rails":
        # input / output rails and a dialog action that take context variables as action parameters
        return rw.v1_world(in_order=["in1"], out_order=["out1"], dialog=True, exceptions=False)
    if dialog:
        return World(rw.V1_DIALOG, "rails:\n  dialog:\n    single_call:\n      enabled: False\n")
    return World("", "rails:\n  dialog:\n    single_call:\n      enabled: False\n")


class Conv:
    """A conversation = a list of requests.  ("nat", text) appends the previous reply and a new user
    message to the running history; ("hist", [messages...]) is a request that brings its own history
    (e.g. earlier turns were served elsewhere)."""

    def __init__(self, name, steps):
        self.name, self.steps = name, steps


def run_request(world, history, step):
    if step[0] == "nat":
        msgs = history + [{"role": "user", "content": step[1]}]
    else:
        msgs = [dict(m) for m in step[1]]
    extra = step[2] if len(step) > 2 else {}
    turn = rw.run_turn(world, msgs, dict(extra.get("verdicts", {})), llm_fn, options=extra.get("options"))
    reply = turn.reply if isinstance(turn.reply, dict) else {"role": "assistant", "content": str(turn.text)}
    if step[0] == "hist" and msgs and msgs[0].get("role") == "context":
        pass
    obs = (turn.text, tuple(c["prompt"] for c in turn.llm_calls), repr(turn.exc) if turn.exc else None,
           tuple((a.get("rail") or a.get("action"), a.get("text")) for a in turn.actions))
    return msgs + [reply], obs


def isolated(dialog, conv):
    w = build(dialog)
    hist, out = [], []
    for st in conv.steps:
        hist, obs = run_request(w, hist, st)
        out.append(obs)
    return out


def conv_sets(dialog):
    """Conversation families; replies are functions of the prompt, so the colliding texts are
    computed by first serving the victim conversation alone."""
    sets = []
    probe = build(dialog)
    _, (r_x, _, _, _) = run_request(probe, [], ("nat", "x"))
    _, (r_ab, _, _, _) = run_request(probe, [], ("nat", "a:b"))
    # 1. role / separator collision with another conversation's stored key
    A = Conv("A", [("nat", "x"), ("nat", "second")])
    B = Conv("B", [("hist", [{"role": "user", "content": f"x:{r_x}"}, {"role": "assistant", "content": "s"}, {"role": "user", "content": "t"}])])
    sets.append(("separator-in-user-text", [A, B]))
    # 2. ["a:b"] vs ["a","b"]
    C = Conv("C", [("nat", "a:b"), ("nat", "more")])
    D = Conv("D", [("hist", [{"role": "user", "content": "a"}, {"role": "assistant", "content": "b"}, {"role": "user", "content": r_ab},
                             {"role": "assistant", "content": "c"}, {"role": "user", "content": "q"}])])
    sets.append(("split-message-collision", [C, D]))
    # 3. same text in different roles
    E = Conv("E", [("nat", "hello"), ("nat", "again")])
    F = Conv("F", [("hist", [{"role": "assistant", "content": "hello"}, {"role": "user", "content": "z"}, {"role": "assistant", "content": "w"},
                             {"role": "user", "content": "again"}])])
    sets.append(("assistant-looking-history", [E, F]))
    # 4. innocent conversations sharing a first message
    G = Conv("G", [("nat", "same start"), ("nat", "g2")])
    H = Conv("H", [("nat", "same start"), ("nat", "h2")])
    sets.append(("shared-first-message", [G, H]))
    # 5. three conversations, one a prefix of another
    I = Conv("I", [("nat", "p"), ("nat", "q")])
    J = Conv("J", [("nat", "p")])
    K = Conv("K", [("nat", "p:q")])
    sets.append(("prefix-conversations", [I, J, K]))
    # 6. context messages vs user text that looks like their JSON
    L = Conv("L", [("hist", [{"role": "context", "content": {"k": "v"}}, {"role": "user", "content": "u1"}]), ("nat", "u2")])
    M = Conv("M", [("hist", [{"role": "user", "content": '{"k": "v"}'}, {"role": "assistant", "content": "u1"}, {"role": "user", "content": "u2"}])])
    sets.append(("context-looking-user-text", [L, M]))
    # 7. conversations that reach the dialog action with their own text
    N = Conv("N", [("nat", "look it up n1"), ("nat", "look it up n2")])
    O = Conv("O", [("nat", "look it up o1"), ("nat", "hello")])
    sets.append(("action-parameters-from-context", [N, O]))
    # 8. the same predefined message, one conversation supplies the variable it uses, the other does not
    P = Conv("P", [("nat", "good morning"), ("nat", "good morning")])
    Q = Conv("Q", [("hist", [{"role": "context", "content": {"name": "Ann"}}, {"role": "user", "content": "good morning"}])])
    R = Conv("R", [("hist", [{"role": "context", "content": {"name": "Bob"}}, {"role": "user", "content": "good morning"}])])
    sets.append(("predefined-message-with-a-variable", [P, Q, R]))
    # 9. identical opening texts, different per-request options / verdicts (the second turn of S must be blocked whatever T selected)
    S = Conv("S", [("nat", "same opening"), ("nat", "forbidden question", {"verdicts": {"in1": "R"}})])
    T = Conv("T", [("nat", "same opening", {"options": {"rails": {"input": False}}}), ("nat", "forbidden question", {"options": {"rails": {"input": False}}, "verdicts": {"in1": "R"}})])
    sets.append(("same-texts-different-options", [S, T]))
    # 10. two conversations whose histories define a flow (start_flow event message) under the SAME flow id with different bodies
    def sf(body):
        return {"role": "event", "event": {"type": "start_flow", "flow_id": "my_flow", "flow_body": body}}
    U = Conv("U", [("hist", [sf("bot say one")]), ("hist", [{"role": "user", "content": "x"}, {"role": "assistant", "content": "y"}, sf("bot say one")])])
    V = Conv("V", [("hist", [sf("bot say two\nbot say three")])])
    sets.append(("flow-defined-in-the-history-under-one-id", [U, V]))
    # 11. one conversation outgrows the length limit of the prompt (its history is cut from the beginning), the others are short
    long_ = "w " * 60
    X = Conv("X", [("nat", "x1 " + long_), ("nat", "x2 " + long_), ("nat", "x3 short")])
    Y = Conv("Y", [("nat", "y1 hello"), ("nat", "y2 again")])
    Z = Conv("Z", [("nat", "z1 " + long_)])
    sets.append(("history-longer-than-the-prompt-limit", [X, Y, Z]))
    return sets


def interleavings(convs):
    """all interleavings of the conversations' request sequences"""
    seq = []
    for ci, c in enumerate(convs):
        seq.extend([ci] * len(c.steps))
    return sorted(set(itertools.permutations(seq)))


def explore(task):
    dialog, set_index = task
    res = {"requests": 0, "interleavings": 0, "conversation_sets": 1, "requests_with_cache_hit": 0, "viol": []}
    name, convs = conv_sets(dialog)[set_index]
    ref = {c.name: isolated(dialog, c) for c in convs}
    for order in interleavings(convs):
        res["interleavings"] += 1
        w = build(dialog)
        hist = {c.name: [] for c in convs}
        pos = {c.name: 0 for c in convs}
        trail = []
        for ci in order:
            c = convs[ci]
            k = pos[c.name]
            cache_before = len(w.rails.events_history_cache)
            hist[c.name], obs = run_request(w, hist[c.name], c.steps[k])
            pos[c.name] += 1
            res["requests"] += 1
            trail.append(f"{c.name}{k}")
            exp = ref[c.name][k]
            if obs[2] is not None or exp[2] is not None:
                res["viol"].append((f"generate-raised:{name}", f"request {c.name}{k}: shared {obs[2]} / isolated {exp[2]}",
                                    {"engine": "E3-world", "prop": "C15", "dialog": dialog, "set": name, "set_index": set_index, "order": list(order)}))
                break
            if obs != exp:
                what = []
                if obs[0] != exp[0]:
                    what.append(f"reply {obs[0]!r} != isolated {exp[0]!r}")
                if obs[1] != exp[1]:
                    a = obs[1][0][-160:] if obs[1] else None
                    b = exp[1][0][-160:] if exp[1] else None
                    what.append(f"LLM prompt differs: shared ...{a!r} vs isolated ...{b!r}")
                if obs[2] != exp[2]:
                    what.append(f"exception {obs[2]} vs {exp[2]}")
                if obs[3] != exp[3]:
                    what.append(f"actions were called with {obs[3]!r}, alone with {exp[3]!r}")
                res["viol"].append((f"cross-conversation-influence:{name}",
                                    f"[{dialog if isinstance(dialog, str) else 'dialog' if dialog else 'general'}] request {c.name}{k} after {trail[:-1]}: " + "; ".join(what),
                                    {"engine": "E3-world", "prop": "C15", "dialog": dialog, "set": name, "set_index": set_index, "order": list(order)}))
                break
    seen, uniq = set(), []
    for v in res["viol"]:
        if v[0] not in seen:
            seen.add(v[0])
            uniq.append(v)
    res["viol"] = uniq
    return res



# ----------------------------------------------------------------------------- Colang 2.x conversations
V2_SRC = """
import core
import llm

flow main
  activate llm continuation
  user said something
  bot express thanks
  bot say "DONE"
  user said something
  bot express goodbye
"""


_V2_CUR = ["?", 0]     # (conversation, turn) of the request being served: the scripted LLM answers per request


def v2_llm_fn(task, prompt, i):
    """The prompt that asks for the body of an undefined flow contains only the flow name, so what the LLM
    writes is modelled per request (conversation, turn) - the same answers in the shared and in the isolated
    run.  A conversation whose name is in WAITERS gets a body that goes on waiting, i.e. a generated flow that is
    still alive when the turn ends."""
    conv, turn = _V2_CUR
    if conv in ("G", "H"):
        # flows whose body is `...` under a docstring: the generated continuation listens to the user and goes on generating
        return "  await user said something\n  ..."
    lines = prompt[-200:].splitlines()
    if lines and "flow bot express" in lines[-1]:
        body = f'  bot say "GEN-{conv}{turn}"'
        if conv in ("A", "E", "F"):
            body += '\n  user said "never mind"'
        return body
    if "user intent" in prompt[-400:].lower() and "bot intent" in prompt[-200:].lower():
        return f'user intent: user asked something\nbot intent: bot inform something\nbot action: bot say "CONT-{conv}{turn}"'
    if "user intent:" in prompt[-60:]:
        return "user asked something"
    return f'bot say "R-{conv}{turn}"'


V2_DOC_SRC = '''
import core

flow main
  when user said "cook"
    cooking helper
  or when user said "travel"
    travel helper

flow cooking helper
  """You are a COOKING assistant. Only talk about recipes."""
  ...

flow travel helper
  """You are a TRAVEL assistant. Only talk about destinations."""
  ...
'''


V2_DEFAULT_SRC = """
import core

flow main
  activate collector

flow collector $items=[] $seen={"n": 0}
  while True
    user said something
    ($items.append("x"))
    ($seen.update({"n": $seen["n"] + 1}))
    bot say "items {len($items)} seen {$seen['n']}"
"""


def v2_conv_sets():
    return [
        # a container-valued parameter default that the flow changes in place: every conversation starts from the declared default
        ("container-default-changed-in-place", [("I", ["i one", "i two"]), ("J", ["j one"])], V2_DEFAULT_SRC),
        ("flow-continued-from-its-docstring", [("G", ["cook", "what about pasta?"]), ("H", ["travel"])], V2_DOC_SRC),
        ("generated-flow-still-alive-at-turn-end", [("A", ["UA hello", "UA again"]), ("B", ["UB hello"])]),
        ("two-conversations-generate-the-same-undefined-flow", [("C", ["UC hello", "UC more"]), ("D", ["UD hello"])]),
        ("waiting-flows-of-two-conversations", [("E", ["UE one"]), ("F", ["UF two", "UF three"])]),
    ]


def v2_request(world, state, text, who=("?", 0)):
    _V2_CUR[0], _V2_CUR[1] = who
    turn = rw.run_turn(world, [{"role": "user", "content": text}], {}, v2_llm_fn, state=state)
    new_state = turn.reply.state if (turn.reply is not None and hasattr(turn.reply, "state")) else state
    obs = (turn.text, tuple(c["prompt"] for c in turn.llm_calls), repr(turn.exc) if turn.exc else None)
    return new_state, obs


def explore_v2(set_index):
    res = {"requests": 0, "interleavings": 0, "conversation_sets": 1, "v2_requests": 0, "viol": []}
    name, convs = v2_conv_sets()[set_index][:2]
    src = (v2_conv_sets()[set_index] + (V2_SRC,))[2]
    mk = lambda: World(src, 'colang_version: "2.x"\n')  # noqa: E731
    ref = {}
    for cname, texts in convs:
        w, st, out = mk(), {}, []
        for k, t in enumerate(texts):
            st, obs = v2_request(w, st, t, (cname, k))
            out.append(obs)
        ref[cname] = out
    seq = []
    for ci, (cname, texts) in enumerate(convs):
        seq.extend([ci] * len(texts))
    for order in sorted(set(itertools.permutations(seq))):
        res["interleavings"] += 1
        w = mk()
        states = {c: {} for c, _ in convs}
        pos = {c: 0 for c, _ in convs}
        trail = []
        for ci in order:
            cname, texts = convs[ci]
            k = pos[cname]
            states[cname], obs = v2_request(w, states[cname], texts[k], (cname, k))
            pos[cname] += 1
            res["requests"] += 1
            res["v2_requests"] += 1
            trail.append(f"{cname}{k}")
            exp = ref[cname][k]
            info = {"engine": "E3-world", "prop": "C15", "v2": True, "set": name, "set_index": set_index, "order": list(order)}
            if obs[2] is not None or exp[2] is not None:
                res["viol"].append((f"generate-raised:v2:{name}", f"request {cname}{k}: shared {obs[2]} / isolated {exp[2]}", info))
                break
            if obs != exp:
                what = []
                if obs[0] != exp[0]:
                    what.append(f"reply {obs[0]!r} != isolated {exp[0]!r}")
                if obs[1] != exp[1]:
                    what.append(f"LLM calls differ: shared {len(obs[1])} call(s), isolated {len(exp[1])}")
                res["viol"].append((f"cross-conversation-influence:v2:{name}",
                                    f"[2.x] request {cname}{k} after {trail[:-1]}: " + "; ".join(what), info))
                break
    seen, uniq = set(), []
    for v in res["viol"]:
        if v[0] not in seen:
            seen.add(v[0])
            uniq.append(v)
    res["viol"] = uniq
    return res


def same_task_part(_):
    """Requests awaited one after the other from the SAME asyncio task (a worker loop): per-request
    state kept in context variables (generation options, llm stats, streaming handler, explain info)
    must not leak from one request into the next."""
    import asyncio
    res = {"same_task_sequences": 0, "same_task_requests": 0, "viol": []}
    reqs = {
        "P": dict(messages=[{"role": "user", "content": "UP hello"}], options={"llm_params": {"temperature": 0.9}}),
        "Q": dict(messages=[{"role": "user", "content": "UQ hello"}]),
        "R": dict(messages=[{"role": "user", "content": "UR hello"}], options={"rails": ["input"]}),
        "S": dict(messages=[{"role": "user", "content": "US hello"}], options={"output_vars": True, "log": {"llm_calls": True}}),
    }
    world = build(False)

    def observe(name, result, calls):
        text = result.response[-1]["content"] if hasattr(result, "response") and isinstance(result.response, list) else (
            result.get("content") if isinstance(result, dict) else (result.response if hasattr(result, "response") else result))
        return (type(result).__name__, text, tuple((str(c["task"]), c["temperature"], c["prompt"]) for c in calls))

    def run_seq(names, w):
        async def go():
            out = []
            for n in names:
                m = w.mark()
                w.llm_fn = llm_fn
                r = await w.rails.generate_async(**{k: (dict(v) if isinstance(v, dict) else list(v)) for k, v in reqs[n].items()})
                out.append(observe(n, r, w.since(m)[0]))
            return out
        loop = asyncio.new_event_loop()
        try:
            return loop.run_until_complete(go())
        finally:
            loop.close()

    alone = {n: run_seq([n], build(False))[0] for n in reqs}
    for k in (2, 3):
        for names in itertools.permutations(reqs, k):
            res["same_task_sequences"] += 1
            w = build(False)
            try:
                got = run_seq(list(names), w)
            except Exception as e:
                res["viol"].append((f"generate-raised:same-task:{'>'.join(names)}", repr(e), {"engine": "E3-world", "prop": "C15", "same_task": list(names)}))
                continue
            for n, g in zip(names, got):
                res["same_task_requests"] += 1
                if g != alone[n]:
                    diff = "result type" if g[0] != alone[n][0] else ("reply" if g[1] != alone[n][1] else "LLM calls (task, temperature, prompt)")
                    res["viol"].append((f"request-state-leaks-into-next-request:{'>'.join(names[:names.index(n) + 1])}",
                                        f"requests {list(names)} awaited from one task: request {n} differs from the isolated run in its {diff}: {str(g)[:200]} vs {str(alone[n])[:200]}",
                                        {"engine": "E3-world", "prop": "C15", "same_task": list(names)}))
                    break
            if w.llm.temperature != 0.5:
                res["viol"].append(("llm-parameters-not-restored:same-task", f"after {list(names)} llm.temperature = {w.llm.temperature}", {"engine": "E3-world", "prop": "C15", "same_task": list(names)}))
    seen, uniq = set(), []
    for v in res["viol"]:
        if v[0] not in seen:
            seen.add(v[0])
            uniq.append(v)
    res["viol"] = uniq
    return res


def same_task_passthrough_part(_):
    """passthrough mode (the LLM is prompted with the caller's own message list / prompt): requests of three API forms -
    generate_async(messages=history), generate_async(prompt=..), generate_events_async(events=..) - awaited one after the
    other from the same task; an input rail rewrites or approves.  Each request's LLM prompt is the one it gets alone, and
    the message list a caller handed in is unchanged afterwards."""
    import asyncio, copy
    res = {"same_task_passthrough_sequences": 0, "same_task_passthrough_requests": 0, "viol": []}

    def mk():
        return rw.v1_world(in_order=("in1",), out_order=(), extra_yaml="passthrough: True\n")

    reqs = {
        "M": ("messages", [{"role": "user", "content": "MA my account number is 12345"}, {"role": "assistant", "content": "I will."}, {"role": "user", "content": "MB capital of France?"}]),
        "N": ("messages", [{"role": "user", "content": "NA single message"}]),
        "P": ("prompt", "PA a bare prompt"),
        "E": ("events", [{"type": "UtteranceUserActionFinished", "final_transcript": "EA hello, I am somebody else"}]),
    }

    def run_seq(names, w, verdict):
        async def go():
            out = []
            for n in names:
                kind, payload = reqs[n]
                mine = copy.deepcopy(payload)
                m = w.mark()
                w.llm_fn = llm_fn
                w.verdicts = {"in1": verdict}
                if kind == "messages":
                    r = await w.rails.generate_async(messages=mine)
                elif kind == "prompt":
                    r = await w.rails.generate_async(prompt=mine)
                else:
                    r = await w.rails.generate_events_async(events=mine)
                calls = w.since(m)[0]
                out.append((tuple(str(c["prompt"]) for c in calls), mine == payload))
            return out
        loop = asyncio.new_event_loop()
        try:
            return loop.run_until_complete(go())
        finally:
            loop.close()

    for verdict, vname in (("A", "approving-rail"), (("W", "RW rewritten text"), "rewriting-rail")):
        alone = {n: run_seq([n], mk(), verdict)[0] for n in reqs}
        for n, (prompts, unchanged) in alone.items():
            if not unchanged:
                res["viol"].append((f"callers-message-list-changed:passthrough:{vname}", f"request {n} alone: the list handed to the API differs after the call", {"engine": "E3-world", "prop": "C15", "same_task_passthrough": [n], "verdict": vname}))
        for names in itertools.permutations(reqs, 2):
            res["same_task_passthrough_sequences"] += 1
            try:
                got = run_seq(list(names), mk(), verdict)
            except Exception as e:
                res["viol"].append((f"generate-raised:same-task-passthrough:{'>'.join(names)}", repr(e), {"engine": "E3-world", "prop": "C15", "same_task_passthrough": list(names), "verdict": vname}))
                continue
            for n, g in zip(names, got):
                res["same_task_passthrough_requests"] += 1
                if g[0] != alone[n][0]:
                    res["viol"].append((f"request-state-leaks-into-next-request:passthrough:{reqs[names[0]][0]}-then-{reqs[names[1]][0]}",
                                        f"passthrough mode, {vname}, requests {list(names)} awaited from one task: the LLM prompt(s) of {n} are {str(g[0])[:300]}, alone {str(alone[n][0])[:300]}",
                                        {"engine": "E3-world", "prop": "C15", "same_task_passthrough": list(names), "verdict": vname}))
                    break
    seen, uniq = set(), []
    for v in res["viol"]:
        if v[0] not in seen:
            seen.add(v[0])
            uniq.append(v)
    res["viol"] = uniq
    return res


def run(rep, tier):
    from vf import par
    import vf.engines.world  # noqa

    n_sets = len(conv_sets(False))
    ts = [(d, i) for d in (False, True, "rails", "mutating") for i in range(n_sets)] + [("varmsg", 7), ("varmsg", 3), ("shortprompt", n_sets - 1)]
    agg = {}
    for r in par.pmap(explore, ts):
        for k, v in r.items():
            if isinstance(v, int):
                agg[k] = agg.get(k, 0) + v
        for sig, what, info in r["viol"]:
            rep.violation(sig, what, info)
    for r in par.pmap(explore_v2, list(range(len(v2_conv_sets())))):
        for k, v in r.items():
            if isinstance(v, int):
                agg[k] = agg.get(k, 0) + v
        for sig, what, info in r["viol"]:
            rep.violation(sig, what, info)
    for r in list(par.pmap(same_task_part, [0])) + list(par.pmap(same_task_passthrough_part, [0])):
        for k, v in r.items():
            if isinstance(v, int):
                agg[k] = agg.get(k, 0) + v
        for sig, what, info in r["viol"]:
            rep.violation(sig, what, info)
    for k, v in agg.items():
        rep.set("seq_" + k, v)
    # ---- concurrent part
    conc = {}
    try:
        from vf.props import c15_conc
    except ImportError:
        c15_conc = None
    if c15_conc is not None:
        conc = c15_conc.run_part(rep, tier)
    rep.set("states", agg.get("requests", 0) + conc.get("states", 0))
    rep.set("transitions", agg.get("requests", 0) + conc.get("transitions", 0))
    rep.set("traces_validated_against_impl", agg.get("interleavings", 0) + conc.get("validated", 0))
    rep.set("evaluations", agg.get("requests", 0) + conc.get("executions", 0))
    rep.set("distinct_nontrivial", agg.get("interleavings", 0) + conc.get("executions", 0))
    rep.set("exhaustive", True)
    rep.set("rule", "sequential: every interleaving of the requests of every conversation set (general and dialog world), each request compared with the conversation replayed alone on a fresh instance; "
                    "concurrent: every completion order of the LLM calls of 2 (quick) / 3 (thorough) overlapping generate_async calls")
    rep.assumptions += ["LLM answers are a function of the prompt, so contamination of a prompt shows in the reply as well",
                        "a request may bring its own history (earlier turns served elsewhere) - the documented stateless messages API"]
    rep.sample({"set": "separator-in-user-text", "order": ["A0", "B0", "A1"]})


def replay(rp):
    if rp.get("same_task_passthrough"):
        r = same_task_passthrough_part(0)
        for sig, what, info in r["viol"]:
            print(sig, ":", what)
        print(rp["what"])
        return 0
    if rp.get("same_task"):
        r = same_task_part(0)
        for sig, what, info in r["viol"]:
            print(sig, ":", what)
        print(rp["what"])
        return 0
    if rp.get("engine") == "E2-aio":
        from vf.props import c15_conc
        return c15_conc.replay(rp)
    if rp.get("v2"):
        name, convs = v2_conv_sets()[rp["set_index"]][:2]
        _src = (v2_conv_sets()[rp["set_index"]] + (V2_SRC,))[2]
        mk = lambda: World(_src, 'colang_version: "2.x"\n')  # noqa: E731
        ref = {}
        for cname, texts in convs:
            w, st, out = mk(), {}, []
            for t in texts:
                st, obs = v2_request(w, st, t, (cname, len(out)))
                out.append(obs)
            ref[cname] = out
        w = mk()
        states = {c: {} for c, _ in convs}
        pos = {c: 0 for c, _ in convs}
        for ci in rp["order"]:
            cname, texts = convs[ci]
            k = pos[cname]
            states[cname], obs = v2_request(w, states[cname], texts[k], (cname, k))
            pos[cname] += 1
            print(f"{cname}{k} {texts[k]!r}: reply {obs[0]!r} ({len(obs[1])} LLM calls) | alone {ref[cname][k][0]!r} ({len(ref[cname][k][1])} LLM calls) same={obs == ref[cname][k]}")
            if obs != ref[cname][k]:
                break
        print(rp["what"])
        return 0
    dialog = rp["dialog"]
    name, convs = conv_sets(dialog)[rp["set_index"]]
    ref = {c.name: isolated(dialog, c) for c in convs}
    w = build(dialog)
    hist = {c.name: [] for c in convs}
    pos = {c.name: 0 for c in convs}
    for ci in rp["order"]:
        c = convs[ci]
        k = pos[c.name]
        hist[c.name], obs = run_request(w, hist[c.name], c.steps[k])
        pos[c.name] += 1
        print(f"{c.name}{k}: reply {obs[0]!r} isolated {ref[c.name][k][0]!r} same={obs == ref[c.name][k]}")
        if obs != ref[c.name][k]:
            print("  shared prompt tail :", obs[1][0][-300:] if obs[1] else None)
            print("  isolated prompt tail:", ref[c.name][k][1][0][-300:] if ref[c.name][k][1] else None)
            break
    print(rp["what"])
    return 0
