"""C07 - and/or groups behave like the boolean formula they spell.

Enumerates every and/or tree with <=k leaves (plus one-repeated-leaf variants),
prints it in several statement forms, and runs a BFS over *all* event sequences
(leaf events + an irrelevant one, repeats included) on the real interpreter.
Oracle: the marker is emitted in exactly the step in which the received set first
satisfies the formula.
"""
from __future__ import annotations

import itertools

from vf.engines import v2x
from vf.engines.v2x import Explorer, Violation

PROP = "C07"


# ------------------------------------------------------------------ formulas
def trees(n_leaves):
    """All binary and/or trees over leaves 0..n-1 in left-to-right order, flattened
    to n-ary form (so each distinct n-ary alternating tree appears once)."""
    seen = set()

    def build(lo, hi):
        if hi - lo == 1:
            yield ("L", lo)
            return
        for mid in range(lo + 1, hi):
            for a in build(lo, mid):
                for b in build(mid, hi):
                    for op in ("and", "or"):
                        yield flatten((op, a, b))

    for t in build(0, n_leaves):
        if t not in seen:
            seen.add(t)
            yield t


def flatten(t):
    if t[0] == "L":
        return t
    op = t[0]
    kids = []
    for k in t[1:]:
        k = flatten(k)
        if k[0] == op:
            kids.extend(k[1:])
        else:
            kids.append(k)
    return (op,) + tuple(kids)


def relabel(t, mapping):
    if t[0] == "L":
        return ("L", mapping.get(t[1], t[1]))
    return (t[0],) + tuple(relabel(k, mapping) for k in t[1:])


def leaves(t):
    if t[0] == "L":
        return [t[1]]
    out = []
    for k in t[1:]:
        out.extend(leaves(k))
    return out


def has_or(t):
    return t[0] == "or" or (t[0] != "L" and any(has_or(k) for k in t[1:]))


def evaluate(t, received):
    if t[0] == "L":
        return t[1] in received
    if t[0] == "and":
        return all(evaluate(k, received) for k in t[1:])
    return any(evaluate(k, received) for k in t[1:])


def show(t, leaf, top=True):
    if t[0] == "L":
        return leaf(t[1])
    s = f" {t[0]} ".join(show(k, leaf, False) for k in t[1:])
    return s if top else f"({s})"


def show_min(t, leaf, parent=None):
    """the formula written with only the parentheses the precedence of the language needs (`and` binds tighter than `or`)"""
    if t[0] == "L":
        return leaf(t[1])
    s = f" {t[0]} ".join(show_min(k, leaf, t[0]) for k in t[1:])
    return f"({s})" if (parent == "and" and t[0] == "or") or parent == t[0] else s


def needs_precedence(t):
    """an `and` group directly below an `or` group: written without parentheses only the precedence tells the grouping"""
    if t[0] == "L":
        return False
    return (t[0] == "or" and any(k[0] == "and" for k in t[1:])) or any(needs_precedence(k) for k in t[1:])


def formulas(k, with_repeats=True):
    out = []
    for n in range(1, k + 1):
        for t in trees(n):
            out.append(t)
            if with_repeats and n >= 3:
                # identify the last leaf with the first: one repeated leaf
                out.append(relabel(t, {n - 1: 0}))
    # dedupe
    res, seen = [], set()
    for t in out:
        if t not in seen:
            seen.add(t)
            res.append(t)
    return res


# ------------------------------------------------------------------ programs
FORMS = ("match_events", "await_flows", "when_events", "when_flows", "start_match_flows", "await_actions",
         "await_flows_cancel", "when_flows_cancel", "match_events_loop", "await_flows_loop", "when_else_loop")


def program(t, form):
    lv = sorted(set(leaves(t)))
    if form == "match_events":
        g = show(t, lambda i: f"E{i}()")
        return f"flow main\n  match {g}\n  send Marker()\n  match Done()\n"
    if form == "when_events":
        g = show(t, lambda i: f"E{i}()")
        return f"flow main\n  when {g}\n    send Marker()\n  match Done()\n"
    flows = "".join(f"flow f{i}\n  match E{i}()\n\n" for i in lv)
    if form.startswith(("await_flows_instant:", "when_flows_instant:")):
        # one member flow has no waiting statement: it has finished by the time the statement is in place
        inst = int(form.split(":")[1])
        flows = "".join((f"flow f{i}\n  send Tick{i}()\n\n" if i == inst else f"flow f{i}\n  match E{i}()\n\n") for i in lv)
        g = show(t, lambda i: f"f{i}")
        if form.startswith("await"):
            return flows + f"flow main\n  await {g}\n  send Marker()\n  match Done()\n"
        return flows + f"flow main\n  when {g}\n    send Marker()\n  match Done()\n"
    if form.startswith("minimal_parens:"):
        # the formula written without the parentheses precedence makes superfluous; `bare_flows` = a group of flows as a
        # statement of its own (no keyword: an implicit await)
        inner = form.split(":")[1]
        if inner == "match_events":
            return f"flow main\n  match {show_min(t, lambda i: f'E{i}()')}\n  send Marker()\n  match Done()\n"
        if inner == "when_events":
            return f"flow main\n  when {show_min(t, lambda i: f'E{i}()')}\n    send Marker()\n  match Done()\n"
        g = show_min(t, lambda i: f"f{i}")
        stmt = {"await_flows": f"  await {g}\n", "bare_flows": f"  {g}\n", "when_flows": f"  when {g}\n    pass\n"}[inner]
        return flows + "flow main\n" + stmt + "  send Marker()\n  match Done()\n"
    if form.startswith("body_of_when_or:"):
        # the group statement is a statement of the body of a `when` case whose condition has two alternatives (the
        # body is expanded once per alternative); the case is entered by the event Go before the group's events come
        inner = form.split(":")[1]
        if inner == "match_events":
            stmt, pre = "match " + show(t, lambda i: f"E{i}()"), ""
        else:
            stmt, pre = "await " + show(t, lambda i: f"f{i}"), flows
        return pre + f"flow main\n  when Go() or Go2()\n    {stmt}\n    send Marker()\n  match Done()\n"
    if form == "await_flows":
        g = show(t, lambda i: f"f{i}")
        return flows + f"flow main\n  await {g}\n  send Marker()\n  match Done()\n"
    if form == "when_flows":
        g = show(t, lambda i: f"f{i}")
        return flows + f"flow main\n  when {g}\n    send Marker()\n  match Done()\n"
    if form in ("await_flows_cancel", "when_flows_cancel"):
        # member flows can also FAIL (stopped from outside): a failed flow never delivers its Finished event.
        # The group lives in a flow of its own so that its failure does not restart the main flow.
        g = show(t, lambda i: f"f{i}")
        if form == "await_flows_cancel":
            body = f"  await {g}\n  send Marker()\n  match Done()\n"
        else:
            body = f"  when {g}\n    send Marker()\n  match Done()\n"
        return flows + "flow grp\n" + body + "\nflow main\n  start grp\n  match Done()\n"
    if form == "when_else_loop":
        # when/else on a group of flows inside a loop: members may finish (E_i) or fail (StopFlow); each
        # round ends with Marker (formula satisfied) or ElseMarker (formula can no longer be satisfied)
        g = show(t, lambda i: f"f{i}")
        body = f"  while True\n    when {g}\n      send Marker()\n    else\n      send ElseMarker()\n    match Next()\n"
        return flows + "flow grp\n" + body + "\nflow main\n  start grp\n  match Done()\n"
    if form == "match_events_loop":
        # the statement is executed again and again: every round starts with an empty received set
        g = show(t, lambda i: f"E{i}()")
        return f"flow main\n  while True\n    match {g}\n    send Marker()\n"
    if form == "await_flows_loop":
        g = show(t, lambda i: f"f{i}")
        return flows + f"flow main\n  while True\n    await {g}\n    send Marker()\n"
    if form == "start_match_flows":
        # explicit start + match on the references' Finished events
        starts = "".join(f"  start f{i} as $r{i}\n" for i in lv)
        g = show(t, lambda i: f"$r{i}.Finished()")
        return flows + f"flow main\n{starts}  match {g}\n  send Marker()\n  match Done()\n"
    if form == "await_actions":
        g = show(t, lambda i: f"Act{i}Action()")
        return f"flow main\n  await {g}\n  send Marker()\n  match Done()\n"
    if form.startswith(("x3_events:", "x3_flows:")):
        # the same group statement in three flows at once (own interaction loops, so their `send` do not compete);
        # w1 ends right after its marker (its end produces internal events while the other groups are completing)
        order = form.split(":")[1]
        if form.startswith("x3_events"):
            g = show(t, lambda i: f"E{i}()")
            stmt, pre = f"match {g}", ""
        else:
            g = show(t, lambda i: f"f{i}")
            stmt, pre = f"await {g}", flows
        ws = ""
        for k in (1, 2, 3):
            ws += f'@loop("L{k}")\nflow w{k}\n  {stmt}\n  send Marker()\n' + ("" if k == 1 else "  match Done()\n") + "\n"
        return pre + ws + "flow main\n" + "".join(f"  start w{k}\n" for k in order) + "  match Done()\n"
    raise ValueError(form)


# ------------------------------------------------------------------ explore one program
def explore_when_else_loop(t, src, lv, depth_extra):
    fixed = [("ext", f"E{i}", {}) for i in lv] + [("internal", "StopFlow", {"flow_id": f"f{i}"}) for i in lv] + [("ext", "Next", {})]

    def alphabet(state, node):
        return [("start_main",)] if node.depth == 0 else fixed

    def monitor(ex, prev, aev, conc, taken, nxt, pops):
        recv, dead = set(prev.aux.get("recv", ())), set(prev.aux.get("dead", ()))
        phase = prev.aux.get("phase", "active")
        rounds = prev.aux.get("rounds", 0)
        expect = []
        if aev[0] == "start_main":
            phase = "active"
        elif phase == "active":
            if aev[0] == "ext" and aev[1].startswith("E"):
                i = int(aev[1][1:])
                if i not in dead:
                    recv.add(i)
            elif aev[0] == "internal":
                i = int(aev[2]["flow_id"][1:])
                if i not in recv:
                    dead.add(i)
                    ex.stats.bump("member_flow_failures")
            if evaluate(t, recv):
                expect, phase = ["Marker"], "wait"
                ex.stats.bump("satisfaction_steps")
            elif not evaluate(t, set(lv) - dead):
                expect, phase = ["ElseMarker"], "wait"
                ex.stats.bump("else_steps")
        elif phase == "wait" and aev[0] == "ext" and aev[1] == "Next":
            phase, recv, dead, rounds = "active", set(), set(), rounds + 1
        got = [e["type"] for e in nxt.state.outgoing_events if e["type"] in ("Marker", "ElseMarker")]
        nxt.aux.update({"recv": tuple(sorted(recv)), "dead": tuple(sorted(dead)), "phase": phase, "rounds": rounds})
        if got != expect:
            raise Violation("group:when_else_loop" + (":later-round" if rounds else ""),
                            f"formula {show(t, str)} when/else in a loop, round {rounds + 1}: finished={sorted(recv)} failed={sorted(dead)} "
                            f"expected {expect or 'nothing'}, saw {got or 'nothing'}", {"received": sorted(recv), "dead": sorted(dead)})

    def stop_expand(node):
        return node.aux.get("rounds", 0) >= 2

    ex = Explorer(src, alphabet, monitors=[monitor] + _c09(), depth=1 + 2 * (len(lv) + 1) + 1 + depth_extra, stop_expand=stop_expand, max_states=60000)
    ex.run()
    return _result(ex, t, "when_else_loop")


def explore(task):
    t, form, depth_extra = task
    src = program(t, form)
    lv = sorted(set(leaves(t)))
    if form == "when_else_loop":
        return explore_when_else_loop(t, src, lv, depth_extra)
    if form == "await_actions":
        return explore_actions(t, src, lv, depth_extra)
    names = [(f"E{i}", {}) for i in lv] + [("X", {})]
    fixed = [("ext", n, a) for n, a in names]
    cancel = form.endswith("_cancel")
    loop_form = form.endswith("_loop")
    if cancel:
        fixed += [("internal", "StopFlow", {"flow_id": f"f{i}"}) for i in lv]

    in_body = form.startswith("body_of_when_or:")

    def alphabet(state, node):
        if node.depth == 0:
            return [("start_main",)]
        if in_body and node.depth == 1:
            return [("ext", "Go", {})]      # enter the case: the group statement becomes active now
        return fixed

    def monitor(ex, prev, aev, conc, taken, nxt, pops):
        recv = set(prev.aux.get("recv", ()))
        dead = set(prev.aux.get("dead", ()))
        before = evaluate(t, recv)
        if aev[0] == "start_main" and ":" in form and form.split(":")[0].endswith("_instant"):
            recv.add(int(form.split(":")[1]))   # the member without a waiting statement finishes while the group is started
        if aev[0] == "ext" and aev[1].startswith("E"):
            i = int(aev[1][1:])
            if i not in dead:
                recv.add(i)
        elif aev[0] == "internal":
            i = int(aev[2]["flow_id"][1:])
            if i not in recv:
                dead.add(i)  # this flow failed before finishing: its Finished event can never come
                ex.stats.bump("member_flow_failures")
        after = evaluate(t, recv)
        if loop_form and after:
            recv = set()  # the next round of the loop starts from scratch
        nxt.aux["recv"] = tuple(sorted(recv))
        if dead:
            nxt.aux["dead"] = tuple(sorted(dead))
        n_marker = sum(1 for e in nxt.state.outgoing_events if e["type"] == "Marker")
        expect = (3 if form.startswith("x3_") else 1) if (after and not before) else 0
        total = prev.aux.get("markers", 0) + n_marker
        nxt.aux["markers"] = total
        if after and not before:
            ex.stats.bump("satisfaction_steps")
        if n_marker != expect:
            sig_form = form
            if ":" in form and form.split(":")[0].endswith("_instant"):
                inst = int(form.split(":")[1])
                late = expect == 1 and n_marker == 0 and inst != leaves(t)[-1]
                # the member that finishes at once stands before other members: its Finished event comes before the
                # statement listens for it (recorded finding); any other failure of the family keeps the member index
                sig_form = form.split(":")[0] + (":finished-before-the-later-members-were-started" if late else f":{inst}")
            raise Violation(
                f"group:{sig_form}",
                f"formula {show(t, str)} form={form}: received={sorted(recv)} "
                f"expected {expect} marker(s) in this step, saw {n_marker}",
                {"formula": show(t, lambda i: f'E{i}'), "received": sorted(recv)},
            )

    def stop_expand(node):
        # explore two more events after the marker (loop forms: until the depth bound)
        m = node.aux.get("markers", 0)
        if loop_form:
            return m >= 2 and node.aux.get("_after", 0) >= 1
        if m:
            left = node.aux.get("_after", 0)
            return left >= 2
        return False

    def monitor_after(ex, prev, aev, conc, taken, nxt, pops):
        if prev.aux.get("markers", 0):
            nxt.aux["after"] = prev.aux.get("after", 0) + 1
            nxt.aux["_after"] = nxt.aux["after"]

    ex = Explorer(
        src,
        alphabet,
        monitors=[monitor, monitor_after] + _c09(),
        depth=1 + len(lv) + 2 + depth_extra + (1 if cancel else 0) + (len(lv) + 1 if loop_form else 0) + (1 if in_body else 0),
        stop_expand=stop_expand,
    )
    ex.run()
    return _result(ex, t, form)


def explore_actions(t, src, lv, depth_extra):
    """`await A0() and (A1() or A2())`: leaves are actions; the events are the
    Finished events of the started action instances (found by name)."""

    def alphabet(state, node):
        if node.depth == 0:
            return [("start_main",)]
        evs = [("ext", "X", {})]
        for i in lv:
            evs.append(("actname", f"Act{i}Action", "Finished"))
        return evs

    def monitor(ex, prev, aev, conc, taken, nxt, pops):
        recv = set(prev.aux.get("recv", ()))
        before = evaluate(t, recv)
        if aev[0] == "actname":
            recv.add(int(aev[1][3:-6]))
        after = evaluate(t, recv)
        nxt.aux["recv"] = tuple(sorted(recv))
        n_marker = sum(1 for e in nxt.state.outgoing_events if e["type"] == "Marker")
        expect = 1 if (after and not before) else 0
        nxt.aux["markers"] = prev.aux.get("markers", 0) + n_marker
        if after and not before:
            ex.stats.bump("satisfaction_steps")
        if n_marker != expect:
            raise Violation(
                "group:await_actions",
                f"formula {show(t, str)} form=await_actions: finished={sorted(recv)} "
                f"expected {expect} marker(s), saw {n_marker}",
                {"received": sorted(recv)},
            )

    def stop_expand(node):
        return node.aux.get("markers", 0) and node.aux.get("_after", 0) >= 1

    def monitor_after(ex, prev, aev, conc, taken, nxt, pops):
        if prev.aux.get("markers", 0):
            nxt.aux["after"] = prev.aux.get("after", 0) + 1
            nxt.aux["_after"] = nxt.aux["after"]

    ex = Explorer(
        src, alphabet, monitors=[monitor, monitor_after] + _c09(),
        depth=1 + len(lv) + 1 + depth_extra, stop_expand=stop_expand,
    )
    ex.run()
    return _result(ex, t, "await_actions")


def _c09():
    return []


def _result(ex, t, form):
    return v2x.result_of(ex, {"formula": show(t, lambda i: f"E{i}"), "form": form})


def tasks(tier):
    k = 3 if tier == "quick" else 5
    forms = FORMS
    out = []
    for t in formulas(k):
        for f in forms:
            if tier == "thorough" and len(set(leaves(t))) >= 5 and f not in ("match_events", "await_flows"):
                continue
            if f == "await_actions" and (len(leaves(t)) != len(set(leaves(t))) or has_or(t)):
                # or-groups of *actions* mean "start one of them at random" (not a formula over
                # Finished events) and are outside the statement; and-groups of actions are kept.
                # a repeated action leaf denotes two action *instances* (each needs its own
                # Finished event): same as the formula without repetition, already covered
                continue
            out.append((t, f, 0))
    # member flows without a waiting statement (every position of the instant member)
    for t in formulas(3 if tier == "quick" else 4, with_repeats=False):
        lv_ = sorted(set(leaves(t)))
        if len(lv_) < 2:
            continue
        for inst in lv_:
            out.append((t, f"await_flows_instant:{inst}", 0))
            out.append((t, f"when_flows_instant:{inst}", 0))
    # formulas whose grouping is only given by precedence, written without the superfluous parentheses, in every statement form
    for t in formulas(3 if tier == "quick" else 4):
        if needs_precedence(t):
            for inner in ("match_events", "when_events", "await_flows", "bare_flows", "when_flows"):
                out.append((t, f"minimal_parens:{inner}", 0))
    # the group statement inside the body of a `when` case with a two-alternative condition
    for t in formulas(3 if tier == "quick" else 4):
        out.append((t, "body_of_when_or:match_events", 0))
        out.append((t, "body_of_when_or:await_flows", 0))
    # three flows complete the same group statement on the same event (every position of the flow that ends)
    for t in formulas(2 if tier == "quick" else 3):
        for order in ("123", "213", "231"):
            out.append((t, f"x3_events:{order}", 0))
            if tier == "thorough" or order == "231":
                out.append((t, f"x3_flows:{order}", 0))
    return out


def run(rep, tier):
    from vf.e1run import run_e1
    import vf.props.c07 as me

    rep.assumptions += [
        "formulas with <=3 (quick) / <=5 (thorough) distinct leaves, plus one-repeated-leaf variants",
        "event alphabet: one event per leaf + one irrelevant event; all sequences incl. repeats, state-deduplicated",
        "PYTHONHASHSEED=0; uids from a counter; random.choice enumerated",
    ]
    run_e1(rep, me, tier)
    rep.set("rule", "every and/or tree x statement form; a case is non-trivial when the formula became satisfied in some step (satisfaction_steps)")
    rep.set("distinct_nontrivial", rep.cov.get("satisfaction_steps", 0))
    rep.set("evaluations", rep.cov.get("transitions", 0))


def replay(rp):
    from vf.engines import v2x
    from vf.engines.v2x import Explorer
    v2x.FEED_BACK[0] = bool(rp.get("feed_back"))
    ex = Explorer(rp["source"], lambda s, n: [], depth=0)
    node, outs = ex.replay([(tuple(a) if isinstance(a, list) else a, tuple(v)) for a, v in
                            [(tuple(h[0]), h[1]) for h in rp["history"]]])
    for (a, v), o in zip(rp["history"], outs):
        print(a, v, "->", [e["type"] for e in (o or [])])
    print("detail:", rp.get("detail"), "\nwhat:", rp.get("what"))
    return 0
