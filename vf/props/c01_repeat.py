"""C01, Colang 1.0: conversations in which user texts REPEAT and in which turns may FAIL (and are then hidden).

The other C01 worlds give every turn a fresh text (nonce), so "the text of this turn" and "a text left over from an earlier
turn" can never be told apart, and no turn ever fails.  Here a conversation draws its texts from a two-letter alphabet {X, Y}
(per-conversation nonce), the rail's verdict is a FUNCTION OF THE TEXT THE RAIL ACTION RECEIVES (accept / reject / rewrite), and
in every turn the action invocation at offset 0 / 1 of the turn may raise once (the runtime answers "internal error" and hides
the turn).  Rails have the shape of the shipped library rails: the action takes the text from its `context` (`user_message`),
and - logged as well - as the parameter `text=$user_message`; both views must show the text of THIS turn.

Enumerated completely: text sequences over {X,Y} with X first (the verdict maps are closed under renaming) x fault vector x
verdict map, T turns, for conversations continued by re-sending `messages` and through the `state` object.

Oracle per turn (fold as in c01.py): every rail that runs sees the text of this turn (after the rewrites of earlier rails);
reject -> refusal, no LLM call; failed turn -> no LLM call (the rails did not finish); accept -> a generation follows and the
LAST conversation text quoted by the first prompt is the current one; a text whose verdict is `rewrite` reaches no prompt."""
from __future__ import annotations

import itertools
import os

from vf.props import railsworld as rw

INTERNAL = "I'm sorry, an internal error has occurred."
SEED = int(os.environ.get("VERIF_SEED", "0") or 0)      # salt of the texts only


def ctx_rail(name):
    return f"""
define bot refuse {name}
  "REFUSED-{name}"

define flow {name}
  $r = execute verif_ctx_rail(rail="{name}", text=$user_message)
  if not $r
    if $config.enable_rails_exceptions
      create event InputRailException(message="BLOCKED-{name}")
    else
      bot refuse {name}
    stop
  if $r != True
    $user_message = $r
"""


def build(order, dialog, exceptions):
    from vf.engines.world import World
    colang = "".join(ctx_rail(r) for r in order) + (rw.V1_DIALOG if dialog else "")
    yaml = "rails:\n  input:\n    flows: [" + ", ".join(order) + "]\n" + ("enable_rails_exceptions: True\n" if exceptions else "")
    w = World(colang, yaml)
    w.param_views = []

    async def verif_ctx_rail(rail, text=None, context=None):
        seen = (context or {}).get("user_message")
        w.param_views.append((rail, text, seen))
        return w._rail_sync(rail, seen)

    w.rails.register_action(verif_ctx_rail, name="verif_ctx_rail")
    return w


def verdict_maps(order, kinds):
    """per (rail, letter) one verdict; one rail: every map; two rails: maps with at most one non-accepting (rail, letter) pair"""
    cells = [(r, x) for r in order for x in "XY"]
    if len(order) == 1:
        return [dict(zip(cells, ks)) for ks in itertools.product(kinds, repeat=len(cells))]
    out = [{c: "A" for c in cells}]
    for c in cells:
        for k in kinds:
            if k != "A":
                m = {cc: "A" for cc in cells}
                m[c] = k
                out.append(m)
    return out


def tasks(tier):
    out = []
    turns = 3 if tier == "quick" else 4
    for dialog in (False, True):
        for mode in ("messages", "state"):
            out.append(("repeated-texts", ("in1",), dialog, False, mode, turns, "ARW"))
    out.append(("repeated-texts", ("in1",), False, True, "messages", turns, "AR"))
    out.append(("repeated-texts", ("in1", "in2"), False, False, "messages", turns, "ARW" if tier != "quick" else "AR"))
    if tier != "quick":
        out.append(("repeated-texts", ("in1", "in2"), True, False, "messages", 3, "ARW"))
        out.append(("repeated-texts", ("in1", "in2"), False, False, "state", 3, "ARW"))
    # split the big ones by verdict map so that the pool has something to balance
    split = []
    for t in out:
        n = len(verdict_maps(t[1], t[6]))
        for i in range(n):
            split.append(t + (i,))
    return split


def run_conversation(world, order, dialog, exceptions, mode, vmap, letters, faults, nonce, res, info0):
    from vf.props.c01 import llm_fn_for
    texts = {x: f"{x}{nonce}q text {x.lower()}" for x in "XY"}
    rewritten = {(r, x): f"RW{r}{x}{nonce}q rewritten" for r in order for x in "XY"}
    letter_of = {v: k for k, v in texts.items()}
    origin = dict(letter_of)            # text -> letter it derives from
    for (r, x), v in rewritten.items():
        origin[v] = x
    all_texts = list(texts.values()) + list(rewritten.values())

    def verdict_fn(rail):
        def fn(text):
            x = origin.get(text)
            k = vmap.get((rail, x), "A") if x else "A"
            return ("W", rewritten[(rail, x)]) if k == "W" else k
        return fn

    verdicts = {r: verdict_fn(r) for r in order}
    banned = set()
    msgs, state = [], ({} if mode == "state" else None)
    hist = []
    path = "llm" if dialog else "general"
    hidden_before = False
    for t, (x, f) in enumerate(zip(letters, faults), start=1):
        user_text = texts[x]
        # reference fold
        cur, expected, rejected_by, failed = user_text, [], None, False
        for idx, r in enumerate(order):
            expected.append((r, cur))
            if f == idx:
                failed = True
                break
            k = vmap[(r, origin[cur])] if cur in origin else "A"
            if k == "R":
                rejected_by = r
                break
            if k == "W":
                banned.add(cur)
                cur = rewritten[(r, origin[cur])]
        fset = {len(world.action_log) + f} if f is not None else ()
        world.param_views = []
        if mode == "state":
            turn = rw.run_turn(world, [{"role": "user", "content": user_text}], verdicts, llm_fn_for(path), faults=fset, state=state)
        else:
            msgs = msgs + [{"role": "user", "content": user_text}]
            turn = rw.run_turn(world, msgs, verdicts, llm_fn_for(path), faults=fset)
        res["turns"] += 1
        res["llm_calls"] += len(turn.llm_calls)
        step = {"t": t, "text": x, "fault_at_action": f}
        hist.append(step)
        info = dict(info0, history=list(hist), verdict_map={f"{r}:{xx}": k for (r, xx), k in vmap.items()}, nonce=nonce)
        ctxt = ("dialog" if dialog else "nodialog") + (":state-continued" if mode == "state" else "") + (":rails-exceptions" if exceptions else "")
        ctxt += ":repeated-text" + (":after-a-failed-turn" if hidden_before else "")

        def bad(sig, what):
            res["viol"].append((f"{sig}:v1:{ctxt}", what, info))

        fired = any(a.get("fault") for a in turn.actions)
        if f is not None and fired:
            res["failed_turns"] += 1
        if turn.exc is not None:
            bad("generate-raised", repr(turn.exc))
            return
        got = [(a["rail"], a["text"]) for a in turn.actions if a.get("rail") in order]
        res["rail_calls"] += len(got)
        if t > 1 and x in letters[:t - 1]:
            res["turns_repeating_an_earlier_text"] += 1
            if hidden_before:
                res["turns_repeating_a_text_after_a_failed_turn"] += 1
        ok = True
        if got != expected:
            ok = False
            bad("input-rail-sequence", f"texts {letters[:t]} (X={texts['X']!r}, Y={texts['Y']!r}), faults {faults[:t]}, turn {t}: rails saw {got}, expected {expected}; reply {turn.text!r}")
        else:
            views = [(r, p) for r, p, s in world.param_views if p != s]
            if views:
                ok = False
                bad("rail-parameter-and-context-disagree", f"turn {t}: `text=$user_message` gave {views[0][1]!r} to rail {views[0][0]} while context['user_message'] was the other text")
        if ok:
            if failed:
                if turn.llm_calls:
                    bad("llm-call-in-a-turn-whose-rail-failed", f"turn {t}: the action of rail {expected[-1][0]} raised, yet LLM tasks {[str(c['task']) for c in turn.llm_calls]} ran")
            elif rejected_by:
                res["rejections"] += 1
                want = f"EXC:BLOCKED-{rejected_by}" if exceptions else f"REFUSED-{rejected_by}"
                if turn.text != want:
                    bad("reply-is-not-the-refusal", f"turn {t}: rail {rejected_by} rejected; reply {turn.text!r}, expected {want!r}")
                if turn.llm_calls:
                    bad("llm-call-after-rejection", f"turn {t}: rail {rejected_by} rejected but LLM tasks {[str(c['task']) for c in turn.llm_calls]} ran")
            else:
                if cur != user_text:
                    res["rewrites"] += 1
                if not turn.llm_calls:
                    bad("no-generation-after-accept", f"turn {t}: all rails accepted but no LLM call was made; reply {turn.text!r}")
                else:
                    p = turn.llm_calls[0]["prompt"]
                    last = max(all_texts, key=lambda s: p.rfind(s))
                    if p.rfind(cur) < 0 or last != cur:
                        bad("prompt-works-on-another-user-text", f"turn {t}: the last conversation text quoted by the first prompt ({turn.llm_calls[0]['task']}) is {last!r}, the current message is {cur!r}")
        for c in turn.llm_calls:
            hit = [b for b in banned if b in c["prompt"]]
            if hit:
                bad("pre-rewrite-text-in-prompt", f"turn {t}, task {c['task']}: the prompt contains {hit[0]!r}, which every run of the rails rewrites")
                break
        if not ok:
            return
        if mode == "state":
            state = getattr(turn.reply, "state", None)
            if state is None:
                bad("no-state-returned", f"generate with a state object returned {type(turn.reply).__name__}")
                return
        else:
            reply = turn.reply if isinstance(turn.reply, dict) else {"role": "assistant", "content": str(turn.text)}
            if reply.get("role") != "exception":
                msgs = msgs + [reply]
        hidden_before = hidden_before or failed


def explore(task):
    _tag, order, dialog, exceptions, mode, turns, kinds, map_index = task
    res = {"worlds": 1, "turns": 0, "conversations": 0, "rejections": 0, "rewrites": 0, "llm_calls": 0, "rail_calls": 0, "viol": [],
           "failed_turns": 0, "turns_repeating_an_earlier_text": 0, "turns_repeating_a_text_after_a_failed_turn": 0}
    info0 = {"engine": "E3-world", "prop": "C01", "version": "1.0", "mode": "repeated-texts", "order": list(order), "dialog": dialog, "exceptions": exceptions,
             "continued_by": mode, "kinds": kinds}
    try:
        world = build(order, dialog, exceptions)
    except Exception as e:
        res["viol"].append(("world-rejected:v1:repeated-texts", repr(e), info0))
        return res
    vmap = verdict_maps(order, kinds)[map_index]
    fault_alphabet = [None] + list(range(len(order)))
    n = 0
    for rest in itertools.product("XY", repeat=turns - 1):
        letters = ("X",) + rest
        for faults in itertools.product(fault_alphabet, repeat=turns):
            n += 1
            res["conversations"] += 1
            run_conversation(world, order, dialog, exceptions, mode, vmap, letters, faults, f"s{SEED}m{map_index}c{n}", res, info0)
    seen, uniq = set(), []
    for v in res["viol"]:
        if v[0] not in seen:
            seen.add(v[0])
            uniq.append(v)
    res["viol"] = uniq
    res["sample"] = dict(info0, turns=res["turns"], verdict_map={f"{r}:{x}": k for (r, x), k in vmap.items()})
    return res


def replay(rp):
    order = tuple(rp["order"])
    world = build(order, rp["dialog"], rp["exceptions"])
    vmap = {tuple(k.split(":")): v for k, v in rp["verdict_map"].items()}
    letters = tuple(s["text"] for s in rp["history"])
    faults = tuple(s["fault_at_action"] for s in rp["history"])
    res = {"worlds": 1, "turns": 0, "conversations": 0, "rejections": 0, "rewrites": 0, "llm_calls": 0, "rail_calls": 0, "viol": [],
           "failed_turns": 0, "turns_repeating_an_earlier_text": 0, "turns_repeating_a_text_after_a_failed_turn": 0}
    run_conversation(world, order, rp["dialog"], rp["exceptions"], rp["continued_by"], vmap, letters, faults, rp.get("nonce", "r"), res, {})
    print("texts", letters, "faults", faults, "verdict map", rp["verdict_map"])
    print("rail calls of the conversation:", [(a.get("rail"), a["text"], a.get("fault")) for a in world.action_log])
    for sig, what, _i in res["viol"]:
        print("observed:", sig, ":", what)
    print("expected: every rail call shows the text of its own turn;", rp["what"])
    return 0
