"""C13 part E: whatever the text of a .co file, `RailsConfig.from_path` either succeeds or
raises ColangParsingError naming the file.

Accepted outcome per candidate
  ok            from_path returned a RailsConfig
  parse_error   ColangParsingError (nemoguardrails.colang.v2_x.runtime.errors - config.py raises this
                type for *both* colang versions, see `_parse_colang_files_recursively`) whose message
                contains the path of the offending file
  (an unresolvable but syntactically valid import raises ValueError("Import path `..` could not be
   resolved.") from `_load_imported_paths`: another exception type, hence reported - one signature)
Everything else (other exception types, ColangParsingError without the file, no result in time) is a
violation, classified by (version, exception type, innermost nemoguardrails frame function,
type of the exception it was raised while handling).

Hangs.  A load of these <= 250-character files takes 1-10 ms.  Every load runs under a *CPU-time*
screen (ITIMER_VIRTUAL, SCREEN_CPU seconds - independent of machine load); a load that exceeds it is a
hang *suspect*.  The stack is sampled twice; the deepest nemoguardrails frame alive in both samples
(= the frame that owns the non-terminating loop) names the class, which makes the signature stable.
The parent then re-runs the smallest suspect of every class under the full wall-clock alarm of
TIMEOUT = 10 s; only a confirmed class is reported.  If the representative does terminate, every other
suspect of the class is re-run with the 10 s alarm (terminating ones get their real outcome).
"""
from __future__ import annotations

import itertools
import os
import signal

from vf.props import c13_seeds as S
from vf.props.c13_layout import inner_lib_function

TIMEOUT = 10.0
SCREEN_CPU = 0.25

_SCRATCH = None  # set by the parent before forking
_DIRS = {}
_SAMPLE = {}


class _Hang(BaseException):
    pass


def _is_lib(frame):
    return "nemoguardrails" in frame.f_code.co_filename.replace("\\", "/").split("/")


def _stack(frame):
    out = []
    while frame is not None:
        out.append(frame)
        frame = frame.f_back
    return out


def _handler(which, second_delay):
    def h(signum, frame):
        first = _SAMPLE.get("first")
        if first is None:
            _SAMPLE["first"] = _stack(frame)
            signal.setitimer(which, second_delay)
            return
        alive = {id(f) for f in _stack(frame)}  # frames of `first` are referenced: ids are unique
        fn = "?"
        for f in first:  # innermost first
            if id(f) in alive and _is_lib(f):
                fn = f.f_code.co_name
                break
        _SAMPLE.clear()
        raise _Hang(fn)

    return h


def _one_line(e, n):
    return " ".join(str(e).split())[:n]


def _dir(ver):
    k = (os.getpid(), ver)
    d = _DIRS.get(k)
    if d is None:
        d = os.path.join(_SCRATCH, f"w{os.getpid()}_{ver.replace('.', '_')}")
        os.makedirs(d, exist_ok=True)
        with open(os.path.join(d, "config.yml"), "w") as f:
            f.write(f'colang_version: "{ver}"\n')
        _DIRS[k] = d
    return d


def load(ver, text, mode="screen"):
    """-> (outcome, signature | None, detail);  mode 'screen' (CPU-time) | 'confirm' (10 s wall)."""
    from nemoguardrails import RailsConfig
    from nemoguardrails.colang.v2_x.runtime.errors import ColangParsingError

    d = _dir(ver)
    path = os.path.join(d, "x.co")
    with open(path, "w", encoding="utf-8", newline="") as f:
        f.write(text)
    if mode == "screen":
        which, sig_no, limit, second = signal.ITIMER_VIRTUAL, signal.SIGVTALRM, SCREEN_CPU, 0.05
    else:
        which, sig_no, limit, second = signal.ITIMER_REAL, signal.SIGALRM, TIMEOUT, 0.2
    _SAMPLE.clear()
    old = signal.signal(sig_no, _handler(which, second))
    try:
        try:
            signal.setitimer(which, limit)
            RailsConfig.from_path(d)
            return "ok", None, None
        finally:
            signal.setitimer(which, 0)
            signal.signal(sig_no, old)
            _SAMPLE.clear()
    except _Hang as h:
        what = f"> {SCREEN_CPU}s CPU (suspect)" if mode == "screen" else f"no result after {TIMEOUT:.0f}s"
        return "hang", f"E:{ver}:hang@{h.args[0]}", f"{what}; non-terminating frame: {h.args[0]}"
    except ColangParsingError as e:
        if path in str(e):
            return "parse_error", None, None
        return "violation", f"E:{ver}:ColangParsingError-without-file", _one_line(e, 200)
    except Exception as e:  # noqa
        fn = inner_lib_function(e.__traceback__)
        if isinstance(e, ValueError) and fn == "_load_imported_paths" and "could not be resolved" in str(e):
            # the statement allows exactly one exception type for *any* file content; an import of a
            # missing module (e.g. a typo in `import core`) surfaces as a bare ValueError instead
            return "violation", f"E:{ver}:ValueError@_load_imported_paths:unresolved-import", _one_line(e, 200)
        ctx = e.__cause__ or e.__context__
        sig = f"E:{ver}:{type(e).__name__}@{fn}"
        det = f"{type(e).__name__}: {_one_line(e, 200)}"
        if ctx is not None:
            cfn = inner_lib_function(ctx.__traceback__)
            sig += f"<{type(ctx).__name__}"
            det += f"  (while handling {type(ctx).__name__}@{cfn}: {_one_line(ctx, 120)})"
        return "violation", sig, det


def confirm_task(task):
    ver, text = task
    return (ver, text) + load(ver, text, mode="confirm")


# ------------------------------------------------------------------ candidate spaces
MUT_KINDS = ["prefix", "delete", "dup"] + [f"sub:{i}" for i in range(len(S.SUBST))]


def mutants(seed, kind):
    n = len(seed)
    if kind == "prefix":
        return [seed[:i] for i in range(n)]
    if kind == "delete":
        return [seed[:i] + seed[i + 1 :] for i in range(n)]
    if kind == "dup":
        return [seed[:i] + seed[i] + seed[i:] for i in range(n)]
    ch = S.SUBST[int(kind[4:])]
    return [seed[:i] + ch + seed[i + 1 :] for i in range(n) if seed[i] != ch]


def soups(length, prefix):
    for rest in itertools.product(S.TOKENS, repeat=length - len(prefix)):
        yield tuple(prefix) + rest


# max token-string length per (tier, version, context index)
SOUP_K = {
    "quick": {("2.x", 0): 3, ("2.x", 1): 3, ("1.0", 0): 3, ("1.0", 1): 3},
    "thorough": {("2.x", 0): 4, ("2.x", 1): 4, ("1.0", 0): 4, ("1.0", 1): 4},
}


def e_tasks(tier):
    tasks = []
    for ver in ("2.x", "1.0"):
        for si in range(len(S.E_SEEDS[ver])):
            for kind in MUT_KINDS:
                tasks.append(("mut", ver, si, kind))
        for ci in range(len(S.CONTEXTS[ver])):
            for length in range(1, SOUP_K[tier][(ver, ci)] + 1):
                npre = max(0, length - 2)
                for prefix in itertools.product(S.TOKENS, repeat=npre):
                    tasks.append(("soup", ver, ci, length, prefix))
    return tasks


def e_task(task):
    out = {"loads": 0, "ok": 0, "parse_error": 0, "import_error": 0, "violations": 0, "hang_suspects": 0,
           "dup_texts": 0, "classes": {}, "planned": 0}
    if task[0] == "mut":
        _, ver, si, kind = task
        out["space"] = f"mut:{ver}"
        cands = [(t, {"seed": si, "kind": kind}) for t in mutants(S.E_SEEDS[ver][si], kind)]
    else:
        _, ver, ci, length, prefix = task
        out["space"] = f"soup:{ver}:ctx{ci}:len{length}"
        ctx = S.CONTEXTS[ver][ci]
        cands = [(ctx + S.soup_text(toks), {"ctx": ci, "tokens": list(toks)}) for toks in soups(length, prefix)]
    out["planned"] = len(cands)
    seen = set()
    for text, meta in cands:
        if text in seen:
            out["dup_texts"] += 1
            continue
        seen.add(text)
        outcome, sig, det = load(ver, text)
        out["loads"] += 1
        if outcome not in ("violation", "hang"):
            out[outcome] += 1
            continue
        out["violations" if outcome == "violation" else "hang_suspects"] += 1
        c = out["classes"].get(sig)
        if c is None:
            c = out["classes"][sig] = {"n": 0, "text": text, "detail": det, "ver": ver, "meta": meta, "suspects": []}
        c["n"] += 1
        if outcome == "hang":
            c["suspects"].append(text)
        if (len(text), text) < (len(c["text"]), c["text"]):
            c.update(text=text, detail=det, meta=meta)
    return out
