"""C13 part E: whatever the text of a .co file, `RailsConfig.from_path` either succeeds or
raises ColangParsingError naming the file.

Accepted outcome per candidate
  ok            from_path returned a RailsConfig
  parse_error   ColangParsingError (nemoguardrails.colang.v2_x.runtime.errors - config.py raises this
                type for *both* colang versions, see `_parse_colang_files_recursively`) whose message
                contains the path of the offending file
  import_error  ValueError("Import path `..` could not be resolved.") from `_load_imported_paths`:
                the file parsed, a syntactically valid import names a module that does not exist.
                Counted separately, not a violation (not a statement about the text being parseable).
Everything else (other exception types, ColangParsingError without the file, > TIMEOUT seconds) is a
violation, classified by (version, exception type, innermost nemoguardrails frame function,
type of the exception it was raised while handling).
"""
from __future__ import annotations

import itertools
import os
import signal
import traceback

from vf.props import c13_seeds as S
from vf.props.c13_layout import inner_lib_function

TIMEOUT = 10

_SCRATCH = None  # set by the parent before forking
_DIRS = {}


class _Hang(BaseException):
    pass


def _on_alarm(signum, frame):
    fn = "?"
    f = frame
    while f is not None:
        if "nemoguardrails" in f.f_code.co_filename.replace("\\", "/").split("/"):
            fn = f.f_code.co_name
            break
        f = f.f_back
    raise _Hang(fn)


def _dir(ver):
    k = (os.getpid(), ver)
    d = _DIRS.get(k)
    if d is None:
        d = os.path.join(_SCRATCH, f"w{os.getpid()}_{ver.replace('.', '_')}")
        os.makedirs(d, exist_ok=True)
        with open(os.path.join(d, "config.yml"), "w") as f:
            f.write(f'colang_version: "{ver}"\n')
        _DIRS[k] = d
    return d


def load(ver, text, timeout=TIMEOUT):
    """-> (outcome, signature | None, detail)"""
    from nemoguardrails import RailsConfig
    from nemoguardrails.colang.v2_x.runtime.errors import ColangParsingError

    d = _dir(ver)
    path = os.path.join(d, "x.co")
    with open(path, "w", encoding="utf-8", newline="") as f:
        f.write(text)
    old = signal.signal(signal.SIGALRM, _on_alarm)
    signal.alarm(timeout)
    try:
        try:
            RailsConfig.from_path(d)
            return "ok", None, None
        finally:
            signal.alarm(0)
            signal.signal(signal.SIGALRM, old)
    except _Hang as h:
        return "violation", f"E:{ver}:hang@{h.args[0]}", f"no result after {timeout}s (in {h.args[0]})"
    except ColangParsingError as e:
        if path in str(e):
            return "parse_error", None, None
        return "violation", f"E:{ver}:ColangParsingError-without-file", str(e)[:200]
    except Exception as e:  # noqa
        fn = inner_lib_function(e.__traceback__)
        if isinstance(e, ValueError) and fn == "_load_imported_paths" and "could not be resolved" in str(e):
            return "import_error", None, None
        ctx = e.__cause__ or e.__context__
        sig = f"E:{ver}:{type(e).__name__}@{fn}"
        det = f"{type(e).__name__}: {str(e)[:200]}"
        if ctx is not None:
            cfn = inner_lib_function(ctx.__traceback__)
            sig += f"<{type(ctx).__name__}"
            det += f"  (while handling {type(ctx).__name__}@{cfn}: {str(ctx)[:120]})"
        return "violation", sig, det


# ------------------------------------------------------------------ candidate spaces
MUT_KINDS = ["prefix", "delete", "dup"] + [f"sub:{i}" for i in range(len(S.SUBST))]


def mutants(seed, kind):
    n = len(seed)
    if kind == "prefix":
        return [seed[:i] for i in range(n)]
    if kind == "delete":
        return [seed[:i] + seed[i + 1 :] for i in range(n)]
    if kind == "dup":
        return [seed[:i] + seed[i] + seed[i:] for i in range(n)]
    ch = S.SUBST[int(kind[4:])]
    return [seed[:i] + ch + seed[i + 1 :] for i in range(n) if seed[i] != ch]


def soups(length, prefix):
    for rest in itertools.product(S.TOKENS, repeat=length - len(prefix)):
        yield tuple(prefix) + rest


def e_tasks(tier):
    k = 3 if tier == "quick" else 4
    tasks = []
    for ver in ("2.x", "1.0"):
        for si in range(len(S.E_SEEDS[ver])):
            for kind in MUT_KINDS:
                tasks.append(("mut", ver, si, kind))
        for ci in range(len(S.CONTEXTS[ver])):
            for length in range(1, k + 1):
                npre = max(0, length - 2)
                for prefix in itertools.product(S.TOKENS, repeat=npre):
                    tasks.append(("soup", ver, ci, length, prefix))
    return tasks, k


def e_task(task):
    out = {"loads": 0, "ok": 0, "parse_error": 0, "import_error": 0, "violations": 0, "dup_texts": 0,
           "classes": {}, "space": task[0] + ":" + task[1], "planned": 0}
    if task[0] == "mut":
        _, ver, si, kind = task
        cands = [(t, {"seed": si, "kind": kind}) for t in mutants(S.E_SEEDS[ver][si], kind)]
    else:
        _, ver, ci, length, prefix = task
        ctx = S.CONTEXTS[ver][ci]
        cands = [(ctx + S.soup_text(toks), {"ctx": ci, "tokens": list(toks)}) for toks in soups(length, prefix)]
    out["planned"] = len(cands)
    seen = set()
    for text, meta in cands:
        if text in seen:
            out["dup_texts"] += 1
            continue
        seen.add(text)
        outcome, sig, det = load(ver, text)
        out["loads"] += 1
        if outcome != "violation":
            out[outcome] += 1
            continue
        out["violations"] += 1
        c = out["classes"].get(sig)
        if c is None:
            out["classes"][sig] = {"n": 1, "text": text, "detail": det, "ver": ver, "meta": meta}
        else:
            c["n"] += 1
            if (len(text), text) < (len(c["text"]), c["text"]):
                c.update(text=text, detail=det, meta=meta)
    return out
