"""C16, concurrent part (E2): overlapping rails-only generate_async calls on ONE LLMRails instance.

Two (quick) requests, each with its own `rails` selection (no dialog), its own verdict vector and its own texts, run
on the virtual asyncio loop.  Every rail action awaits an explorer-owned future, so the explorer enumerates EVERY
arrival / rail-completion order of the two calls (all interleavings; quiescence granularity).
Oracle per request = the same table as the sequential part: the rails that were invoked for this request (in order,
with the text they saw), the reply, no LLM call, and `log.activated_rails` = exactly this request's rails, `stop` on
exactly the rail that blocked THIS request.
"""
from __future__ import annotations

import contextvars
import itertools
import time

from vf.engines import aio
from vf.props import railsworld as rw

REQ = contextvars.ContextVar("verif_c16_request_label", default="?")

IN_ORDER = ("in1", "in2")
OUT_ORDER = ("out1", "out2")

# request kinds: (name, selected categories, input outcome, output outcome)   [outcome letters: A accept, R reject, W rewrite]
KINDS = {
    "in-AA": (("input",), "AA", None),
    "in-AR": (("input",), "AR", None),
    "in-WA": (("input",), "WA", None),
    "in-R": (("input",), "R", None),
    "out-AA": (("output",), None, "AA"),
    "out-AR": (("output",), None, "AR"),
    "out-R": (("output",), None, "R"),
    "io-AA-AA": (("input", "output"), "AA", "AA"),
    "io-AA-WR": (("input", "output"), "AA", "WR"),
    "io-AR": (("input", "output"), "AR", "AA"),
}

_WORLD = [None]


def fold(order, oc, text, prefix):
    verdicts, expected, rejected, cur = {}, [], None, text
    for r, k in zip(order, oc):
        expected.append((r, cur))
        if k == "R":
            verdicts[r] = "R"
            rejected = r
            break
        if k == "W":
            cur = f"{prefix}-{r}-rewritten"
            verdicts[r] = ("W", cur)
        else:
            verdicts[r] = "A"
    return verdicts, expected, cur, rejected


def expectation(kind, k):
    """-> dict(messages, options, verdicts, calls, reply, log) of request k of the given kind"""
    sel, in_oc, out_oc = KINDS[kind]
    user, bot = f"UQ{k}Q hello {kind}", f"BQ{k}Q supplied answer {kind}"
    msgs = [{"role": "user", "content": user}]
    if "output" in sel:
        msgs.append({"role": "assistant", "content": bot})
    verdicts, calls, log = {}, [], []
    reply = user
    rej = None
    if in_oc:
        v, exp, cur, rej = fold(IN_ORDER, in_oc, user, f"RWU{k}")
        verdicts.update(v)
        calls += exp
        log += [("input", r, r == rej) for r, _ in exp]
        reply = f"REFUSED-{rej}" if rej else cur
    if out_oc and not rej:
        v, exp, cur, rej_o = fold(OUT_ORDER, out_oc, bot, f"RWB{k}")
        verdicts.update(v)
        calls += exp
        log += [("output", r, r == rej_o) for r, _ in exp]
        reply = f"REFUSED-{rej_o}" if rej_o else cur
    return {"messages": msgs, "options": {"rails": list(sel), "log": {"activated_rails": True}}, "verdicts": verdicts,
            "calls": calls, "reply": reply, "log": log}


def get_world():
    w = _WORLD[0]
    if w is None:
        w = rw.World("".join(rw.v1_rail(r, "input") for r in IN_ORDER) + "".join(rw.v1_rail(r, "output") for r in OUT_ORDER),
                     "rails:\n  input:\n    flows: [in1, in2]\n  output:\n    flows: [out1, out2]\n")
        _WORLD[0] = w
    return w


def reset(w):
    w.llm.calls.clear()
    w.action_log.clear()
    w.rails.events_history_cache.clear()
    w._seq = 0


def make_factory(kinds):
    exps = [expectation(kd, k) for k, kd in enumerate(kinds)]

    def make(env):
        w = get_world()
        reset(w)
        seen = []       # (request label, rail, text) in invocation order

        async def verif_rail(rail: str, text=None):
            label = REQ.get()
            n = len(seen)
            seen.append((label, rail, text))
            k = int(label[3:]) if label.startswith("req") else 0
            v = exps[k]["verdicts"].get(rail, "A")
            result = True if v == "A" else (False if v == "R" else v[1])
            return await env.external(f"rail{n}:{label}:{rail}", result=result)

        w.rails.register_action(verif_rail, name="verif_rail")
        w.llm_fn = lambda task, prompt, i: "UNEXPECTED-LLM-CALL"
        for k in range(len(kinds)):
            async def request(k=k):
                REQ.set(f"req{k}")
                return await w.rails.generate_async(messages=list(exps[k]["messages"]), options=dict(exps[k]["options"]))
            env.arrival(f"req{k}", request)
        return {"w": w, "seen": seen, "exps": exps}
    return make


def _reply_text(r):
    if hasattr(r, "response"):
        r = r.response
        if isinstance(r, list):
            r = r[-1] if r else {}
    if isinstance(r, dict):
        return r.get("content")
    return r


def judge(env, world, info, kinds, bad):
    """the per-request table oracle"""
    trace = list(info["trace"])
    if info["outcome"] != "done":
        bad(f"not-completed:{info['outcome']}", f"execution ended as {info['outcome']}; unfinished {env.unfinished()}")
        return None
    outcome = []
    for k, kd in enumerate(kinds):
        e = world["exps"][k]
        label = f"req{k}"
        res = env.results.get(label)
        if res is None or res[0] != "ok":
            bad("generate-raised", f"{label} ({kd}): {res!r}")
            outcome.append(repr(res)[:80])
            continue
        r = res[1]
        text = _reply_text(r)
        calls = [(rail, t) for lab, rail, t in world["seen"] if lab == label]
        if calls != e["calls"]:
            bad("rail-sequence", f"{label} ({kd}): rails invoked {calls}, expected {e['calls']}")
        if text != e["reply"]:
            bad("reply", f"{label} ({kd}): reply {text!r}, expected {e['reply']!r}")
        lg = getattr(r, "log", None)
        ar = getattr(lg, "activated_rails", None) if lg is not None else None
        if ar is None:
            bad("no-activated-rails-log", f"{label} ({kd}): log.activated_rails missing")
        else:
            got = [(x.type, x.name, bool(x.stop)) for x in ar]
            if got != e["log"]:
                bad("log-lists-other-rails-than-the-call-ran", f"{label} ({kd}): log {got}, this call ran {e['log']}")
        outcome.append((text, tuple(calls)))
    if world["w"].llm.calls:
        bad("llm-generation-without-dialog", f"LLM tasks {[str(c['task']) for c in world['w'].llm.calls]}")
    return tuple(outcome)


def overlapped(trace):
    """the second request arrived while a rail action of the first was still pending (or the other way round)"""
    starts = [i for i, t in enumerate(trace) if t[0] == "start"]
    if len(starts) < 2:
        return False
    first_label = trace[starts[0]][1]
    last_ext_of_first = max((i for i, t in enumerate(trace) if t[0] == "ext" and f":{first_label}:" in str(t[1])), default=-1)
    return starts[1] < last_ext_of_first


def explore(task):
    kinds, budget_s = task
    res = {"executions": 0, "states": 0, "transitions": 0, "validated": 0, "overlapping_executions": 0,
           "requests_judged": 0, "blocked_requests": 0, "distinct_outcomes": set(), "viol": [], "complete": True}
    info0 = {"engine": "E2-aio", "prop": "C16", "part": "conc", "kinds": list(kinds)}

    def on_execution(env, world, info):
        res["executions"] += 1
        trace = list(info["trace"])
        rp = dict(info0, trace=[list(t) if isinstance(t, tuple) else t for t in trace])

        def bad(sig, what):
            sig = sig + ":overlapping-rails-only-calls"
            if not any(v[0] == sig for v in res["viol"]):
                res["viol"].append((sig, what + f" | requests {list(kinds)} | schedule {trace}", rp))

        out = judge(env, world, info, kinds, bad)
        if overlapped(trace):
            res["overlapping_executions"] += 1
            if "sample" not in res and info["outcome"] == "done":
                logs = {}
                for k in range(len(kinds)):
                    r = env.results.get(f"req{k}")
                    lg = getattr(r[1], "log", None) if r and r[0] == "ok" else None
                    logs[f"req{k}"] = {"rails": world["exps"][k]["options"]["rails"], "reply": _reply_text(r[1]) if r and r[0] == "ok" else repr(r),
                                       "activated_rails": [[x.type, x.name, bool(x.stop)] for x in (lg.activated_rails if lg else [])]}
                res["sample"] = {"family": "overlapping-rails-only-calls", "requests": list(kinds), "schedule": [list(t) for t in trace], "observed": logs}
        res["requests_judged"] += len(kinds)
        res["blocked_requests"] += sum(1 for e in world["exps"] if any(st for _t, _n, st in e["log"]))
        res["distinct_outcomes"].add(out)

    def observe(env, world):
        return (tuple(sorted((k, repr(_reply_text(v[1])) if v[0] == "ok" else repr(v)) for k, v in env.results.items())), tuple(world["seen"]))

    ex = aio.Explorer(make_factory(kinds), on_execution, observe=observe, max_choices=200, max_deviations=None, validate_mod=13,
                      deadline=time.time() + budget_s, granularity="quiescence")
    st = ex.run()
    for k in ("states", "transitions", "validated", "complete"):
        res[k] = st[k]
    res["distinct_outcomes"] = len(res["distinct_outcomes"])
    return res


def n_actions(kind):
    """number of rail actions a request of this kind awaits"""
    return len(expectation(kind, 0)["calls"])


def quick_bound(tier):
    """bound on the rail actions of one execution (all requests together)"""
    return 6 if tier == "quick" else 8


def tasks(tier, seed=0):
    """every unordered pair of request kinds (a kind with itself included) within the bound; the explorer enumerates both
    arrival orders.  The seed only decides which of the two is labelled req0.  Largest explorations first."""
    names = list(KINDS)
    bound = quick_bound(tier)
    pairs = [p for p in itertools.combinations_with_replacement(names, 2) if n_actions(p[0]) + n_actions(p[1]) <= bound]
    if seed % 2:
        pairs = [(b, a) for a, b in pairs]
    pairs.sort(key=lambda p: -(n_actions(p[0]) + n_actions(p[1])))
    out = [(p, 120 if tier == "quick" else 600) for p in pairs]
    if tier != "quick":
        out += [(t, 900) for t in itertools.combinations(["in-AR", "in-WA", "out-AR", "in-R"], 3)]
    return out


def replay(rp):
    kinds = tuple(rp["kinds"])
    env, world, outcome = aio.run_script(make_factory(kinds), rp["trace"], granularity="quiescence")
    try:
        print("outcome", outcome)
        for k, kd in enumerate(kinds):
            e = world["exps"][k]
            res = env.results.get(f"req{k}")
            print(f"req{k} {kd}: options {e['options']['rails']}")
            print("   rails invoked:", [(rail, t) for lab, rail, t in world["seen"] if lab == f"req{k}"], "expected", e["calls"])
            if res is not None and res[0] == "ok":
                lg = getattr(res[1], "log", None)
                print("   reply", repr(_reply_text(res[1])), "expected", repr(e["reply"]))
                print("   log", [(x.type, x.name, bool(x.stop)) for x in (lg.activated_rails if lg else [])], "expected", e["log"])
            else:
                print("   result", repr(res))
    finally:
        env.close()
    print(rp["what"])
    return 0
