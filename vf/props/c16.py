"""C16 - generation options run exactly the selected rail categories (Colang 1.0).

All 16 subsets of {input, dialog, retrieval, output} (list form and dict form) x every effective
verdict vector of two input and two output rails x bot message supplied or not x two texts, on a
real LLMRails instance in the scripted environment.  Oracle = the table of
docs/user_guides/advanced/generation-options.md.
"""
from __future__ import annotations

import itertools

import os

from vf.props import railsworld as rw
from vf.props import c16_conc, c16_exc, c16_hist, c16_param, c16_shapes
from vf.props.c01 import outcomes

PROP = "C16"
CATS = ["input", "dialog", "retrieval", "output"]
IN_ORDER = ("in1", "in2")
OUT_ORDER = ("out1", "out2")

RET = """
define flow ret1
  $rr = execute verif_rail(rail="ret1", text="chunks")
"""
RET_YAML = "  retrieval:\n    flows: [ret1]\n"


def llm_fn_for(path):
    def fn(task, prompt, i):
        t = str(task)
        if "generate_user_intent" in t:
            return "  greet" if path == "predef" else "  ask"
        if "generate_next_step" in t:
            return "  bot inform capabilities"
        if "generate_bot_message" in t:
            return f'  "LLMTEXT-{rw.digest(prompt)}x"'
        return f"LLMTEXT-{rw.digest(prompt)}x"
    return fn


def plan(order, oc, text, prefix):
    """fold of a verdict outcome over an ordered rail list -> (verdicts, expected calls, final text, rejected_by)"""
    verdicts, expected, rejected = {}, [], None
    cur = text
    for r, k in zip(order, oc):
        expected.append((r, cur))
        if k == "R":
            verdicts[r] = "R"
            rejected = r
            break
        if k == "W":
            cur = f"{prefix}-{r}-rewritten"
            verdicts[r] = ("W", cur)
        else:
            verdicts[r] = "A"
    return verdicts, expected, cur, rejected


_TRACE_DIR = []


def _tracing_yaml():
    """`tracing.enabled` with the shipped FileSystem adapter writing into a scratch directory"""
    import atexit, shutil, tempfile
    if not _TRACE_DIR:
        _TRACE_DIR.append(tempfile.mkdtemp(prefix="vf_c16_trace_"))
        atexit.register(shutil.rmtree, _TRACE_DIR[0], True)
    return f"tracing:\n  enabled: True\n  adapters:\n    - name: FileSystem\n      filepath: {_TRACE_DIR[0]}/trace.jsonl\n"


def v1_rail_variable_refusal(name):
    """an input rail that refuses with a message taken from a variable (not a predefined bot message)"""
    return f"""
define flow {name}
  $r = execute verif_rail(rail="{name}", text=$user_message)
  if not $r
    $refusal = "REFUSED-{name}"
    bot $refusal
    stop
  if $r != True
    $user_message = $r
"""



SAME_RAIL_TWICE = """
define bot refuse both1
  "REFUSED-both1"

define flow both1
  $r = execute verif_rail(rail="both1", text=$bot_message)
  if not $r
    bot refuse both1
    stop

define flow outv1
  $r = execute verif_rail(rail="outv1", text=$bot_message)
  if not $r
    $refusal = "REFUSED-outv1"
    bot $refusal
    stop
"""


def explore_same_rail_twice(_task):
    """one rail flow runs twice within one call - listed as input AND output rail, or an output rail whose refusal
    (a message taken from a variable) is checked by the output rails again: `stop` belongs to the occurrence that blocked"""
    res = {"evaluations": 0, "rails_only_cases": 0, "blocked_cases": 0, "rewritten_cases": 0, "viol": []}
    cases = [
        ("listed-as-input-and-output", "rails:\n  input:\n    flows: [both1]\n  output:\n    flows: [both1]\n", ["input", "output"], "both1",
         [("input", "both1", False), ("output", "both1", True)]),
        ("refusal-from-variable-rechecked", "rails:\n  output:\n    flows: [outv1]\n", ["output"], "outv1",
         [("output", "outv1", True), ("output", "outv1", False)]),
    ]
    for name, yaml, subset, rail, want_log in cases:
        world = rw.World(SAME_RAIL_TWICE, yaml)
        for verdict_on_bot in ("R", "A"):
            bot_text = f"B-{name}-{verdict_on_bot} supplied answer"
            msgs = [{"role": "user", "content": "U hello"}, {"role": "assistant", "content": bot_text}]
            # the occurrence that judges the bot message: the 2nd one for the flow listed twice (its 1st run is the input
            # rail), the 1st one for the rail whose refusal is checked again
            deciding = 2 if name == "listed-as-input-and-output" else 1
            count = [0]

            def verdict(text, _v=verdict_on_bot, _d=deciding, _c=count):
                _c[0] += 1
                return _v if _c[0] == _d else "A"

            verdicts = {rail: verdict}
            turn = rw.run_turn(world, msgs, verdicts, llm_fn_for("none"), options={"rails": subset, "log": {"activated_rails": True}})
            res["evaluations"] += 1
            res["rails_only_cases"] += 1
            info = {"engine": "E3-world", "prop": "C16", "same_rail_twice": name, "verdict_on_bot_message": verdict_on_bot}
            sig = f":same-rail-twice:{name}"
            if turn.exc is not None:
                res["viol"].append(("generate-raised" + sig, repr(turn.exc), info))
                continue
            log = getattr(turn.reply, "log", None)
            ar = [(r.type, r.name, bool(r.stop)) for r in (log.activated_rails if log is not None else []) if r.type in ("input", "output")]
            if verdict_on_bot == "R":
                res["blocked_cases"] += 1
                if turn.text != f"REFUSED-{rail}":
                    res["viol"].append(("reply-is-not-the-refusal" + sig, f"{rail} blocked the bot message; reply {turn.text!r}", info))
                if ar != want_log:
                    res["viol"].append(("log-stop-flag" + sig, f"log {ar}, expected {want_log} (stop on the occurrence that blocked)", info))
            else:
                if turn.text != bot_text:
                    res["viol"].append(("supplied-bot-message-reply" + sig, f"expected {bot_text!r}, got {turn.text!r}", info))
                if any(st for _t, _n, st in ar):
                    res["viol"].append(("log-stop-flag" + sig, f"nothing blocked but the log has a stop: {ar}", info))
    return res


def explore(task):
    if task[0] == "same-rail-twice":
        return explore_same_rail_twice(task)
    if task[0] == "text-shapes":
        return c16_shapes.explore(task)
    if task[0] == "history":
        return c16_hist.explore(task)
    if task[0] == "param-rails":
        return c16_param.explore(task)
    if task[0] == "blocking-mode":
        return c16_exc.explore(task)
    if task[0] == "conc":
        r = c16_conc.explore(task[1:])
        out = {"conc_" + k: v for k, v in r.items() if k not in ("viol", "complete")}
        out["conc_incomplete"] = 0 if r["complete"] else 1
        out["viol"] = r["viol"]
        out["sample"] = r.get("sample")
        return out
    dialog_world, subsets = task[:2]
    variable_refusal = len(task) > 2 and task[2] == "variable-refusal"
    tracing = len(task) > 2 and task[2] == "tracing"
    res = {"evaluations": 0, "rails_only_cases": 0, "blocked_cases": 0, "rewritten_cases": 0, "viol": []}
    world = rw.World(
        "".join((v1_rail_variable_refusal(r) if variable_refusal else rw.v1_rail(r, "input")) for r in IN_ORDER) + "".join(rw.v1_rail(r, "output") for r in OUT_ORDER)
        + (rw.V1_DIALOG if dialog_world else "") + RET,
        "rails:\n  input:\n    flows: [in1, in2]\n  output:\n    flows: [out1, out2]\n" + RET_YAML + (_tracing_yaml() if tracing else ""),
    )
    outs_in, outs_out = outcomes(IN_ORDER, with_none=False), outcomes(OUT_ORDER, with_none=False)
    n = [0]
    for subset in subsets:
        sel = set(subset)
        for form in ("list", "dict", "object"):
            opt_rails = list(subset) if form in ("list", "object") else {c: (c in sel) for c in CATS}
            options = {"rails": opt_rails, "log": {"activated_rails": True}}
            if form == "object":
                # the caller keeps ONE GenerationOptions object and passes it to every call
                from nemoguardrails.rails.llm.options import GenerationOptions
                options = GenerationOptions(**options)
            in_ocs = outs_in if "input" in sel else [None]
            out_ocs = outs_out if "output" in sel else [None]
            supplied_opts = [True, False] if "dialog" not in sel else [False]
            paths = (["predef", "llm"] if dialog_world else ["general"]) if "dialog" in sel else ["none"]
            firsts = [None] if "dialog" in sel else [None, "blocked-input-only-call", "allowed-input-only-call", "cached-full-call"]
            if form == "object":
                firsts = [None] if "dialog" in sel else ["user-only-call-with-the-same-options-object"]
            for in_oc, out_oc, supplied, path, tk, first in itertools.product(in_ocs, out_ocs, supplied_opts, paths, ("plain", "hostile", "marker"), firsts):
                if first and (tk != "plain" or form == "dict"):
                    continue
                if tk == "marker" and (form != "list" or "dialog" in sel or (in_oc and in_oc != ("A", "A")) or (out_oc and out_oc != ("A", "A"))):
                    continue  # the text the library itself uses as an in-band command, accepted by every rail, rails-only calls
                if variable_refusal and (form != "list" or first or tk == "hostile" or not in_oc or "R" not in in_oc or (out_oc and out_oc != ("A", "A"))):
                    continue  # this world only adds the blocked cases: the refusal text is then checked by the output rails
                if tracing and (form != "list" or first or tk != "plain" or (in_oc and "W" in in_oc) or (out_oc and "W" in out_oc)):
                    continue  # the tracing world repeats the plain list-form cases (accept / reject): the same reply and log are due
                if form == "object" and (tk != "plain" or (in_oc and "W" in in_oc) or (out_oc and "W" in out_oc and in_oc and in_oc != ("A", "A"))):
                    continue  # object form: plain text, reduced verdict vectors
                if "output" in sel and "dialog" not in sel and not supplied:
                    continue  # output rails without any bot message: not covered by the statement
                if out_oc is not None and "dialog" in sel and path == "predef" and any(k != "A" for k in out_oc):
                    continue  # predefined messages may skip output rails (C02); keep accept-only
                if tk == "hostile" and (form == "dict" or (in_oc and "W" in in_oc and out_oc and "W" in out_oc)):
                    continue  # hostile text once per (subset, verdicts) in list form
                n[0] += 1
                user_text = f"U{n[0]}q hello" if tk == "plain" else f'U{n[0]}q said "x" $y {{{{7*7}}}}'
                bot_text = f"B{n[0]}q supplied answer"
                if tk == "marker":
                    # the text is the whole message (user message in input-only calls, supplied bot message otherwise)
                    if supplied:
                        bot_text = "(remove last message)"
                    else:
                        user_text = "(remove last message)"
                v_in, exp_in, cur_user, rej_in = plan(IN_ORDER, in_oc, user_text, f"RWU{n[0]}q") if in_oc else ({}, [], user_text, None)
                msgs = [{"role": "user", "content": user_text}]
                if supplied:
                    msgs.append({"role": "assistant", "content": bot_text})
                verdicts = dict(v_in)
                verdicts["ret1"] = "A"
                # output verdicts are planned on the text the output rails will see
                v_out, exp_out, cur_bot, rej_out = ({}, [], None, None)
                if out_oc is not None and supplied and "dialog" not in sel:
                    v_out, exp_out, cur_bot, rej_out = plan(OUT_ORDER, out_oc, bot_text, f"RWB{n[0]}q")
                elif out_oc is not None:
                    v_out, _, _, _ = plan(OUT_ORDER, out_oc, "?", f"RWB{n[0]}q")
                verdicts.update(v_out)
                state = None
                if first == "cached-full-call":
                    # an earlier ordinary call (all rails, other options) of the same conversation, served from the
                    # instance's events cache when the conversation comes back with one more message
                    first_msgs = [{"role": "user", "content": f"F{n[0]}q first"}]
                    t0 = rw.run_turn(world, first_msgs, {"in1": "A", "in2": "A", "out1": "A", "out2": "A", "ret1": "A"},
                                     llm_fn_for("llm" if dialog_world else "general"), options={"log": {"activated_rails": True}})
                    if t0.exc is not None or t0.reply is None:
                        res["viol"].append((f"generate-raised:first-call", repr(t0.exc), {"first": first}))
                        continue
                    msgs = first_msgs + [{"role": "assistant", "content": t0.text}] + msgs
                    res["two_call_cases"] = res.get("two_call_cases", 0) + 1
                elif first == "user-only-call-with-the-same-options-object":
                    # e.g. a pre-check of a user input that the first input rail blocks (the reply is not judged here)
                    rw.run_turn(world, [{"role": "user", "content": f"F{n[0]}q first"}], {"in1": "R", "in2": "A", "out1": "A", "out2": "A", "ret1": "A"},
                                llm_fn_for(path), options=options)
                    res["two_call_cases"] = res.get("two_call_cases", 0) + 1
                elif first:
                    # an earlier rails-only call of the same conversation (continued through `state`)
                    t0 = rw.run_turn(world, [{"role": "user", "content": f"F{n[0]}q first"}],
                                     {"in1": "R" if first.startswith("blocked") else "A", "in2": "A", "ret1": "A"}, llm_fn_for(path),
                                     options={"rails": ["input"]}, state={})
                    if t0.exc is not None or t0.reply is None:
                        res["viol"].append((f"generate-raised:first-call", repr(t0.exc), {"first": first}))
                        continue
                    state = t0.reply.state
                    res["two_call_cases"] = res.get("two_call_cases", 0) + 1
                turn = rw.run_turn(world, msgs, verdicts, llm_fn_for(path), options=options, state=state)
                res["evaluations"] += 1
                info = {"engine": "E3-world", "prop": "C16", "dialog_world": dialog_world, "variable_refusal": variable_refusal, "subset": list(subset), "form": form,
                        "in_outcome": "".join(in_oc) if in_oc else None, "out_outcome": "".join(out_oc) if out_oc else None,
                        "supplied": supplied, "path": path, "user": user_text, "bot": bot_text if supplied else None, "first_call": first}
                key = "+".join(c for c in CATS if c in sel) or "none"

                def bad(sig, what):
                    res["viol"].append((f"{sig}:{key}" + (f":after-{first}" if first else "") + (":refusal-from-variable" if variable_refusal else "") + (":tracing-enabled" if tracing else "")
                                        + (":text-is-the-in-band-remove-marker" if tk == "marker" else ""), what, info))

                if turn.exc is not None:
                    bad("generate-raised", f"{turn.exc!r}")
                    continue
                in_calls = [(a["rail"], a["text"]) for a in turn.actions if a.get("rail") in rw.IN_RAILS]
                out_calls = [(a["rail"], a["text"]) for a in turn.actions if a.get("rail") in rw.OUT_RAILS]
                ret_calls = [a for a in turn.actions if a.get("rail") == "ret1"]
                # ---- exactly the selected categories run
                if "input" not in sel and in_calls:
                    bad("unselected-input-rails-ran", f"input rails ran: {in_calls}")
                if "input" in sel and in_calls != exp_in:
                    bad("input-rail-sequence", f"rails invoked {in_calls}, expected {exp_in}")
                if "output" not in sel and out_calls:
                    bad("unselected-output-rails-ran", f"output rails ran: {out_calls}")
                if "retrieval" not in sel and ret_calls:
                    bad("unselected-retrieval-rails-ran", "retrieval rail ran")
                if "dialog" not in sel and turn.llm_calls:
                    bad("llm-generation-without-dialog", f"LLM tasks {[str(c['task']) for c in turn.llm_calls]} ran although dialog rails are not selected")
                if rej_in:
                    res["blocked_cases"] += 1
                    if turn.text != f"REFUSED-{rej_in}":
                        bad("reply-is-not-the-refusal", f"input rail {rej_in} blocked; reply {turn.text!r}")
                    if out_calls and "dialog" not in sel and not variable_refusal:
                        bad("output-rails-after-input-block", f"output rails ran after the input was blocked: {out_calls}")
                elif "dialog" not in sel:
                    res["rails_only_cases"] += 1
                    if "output" not in sel:
                        # rails-only input checking: the (possibly rewritten) user text comes back
                        if turn.text != cur_user:
                            bad("input-only-reply", f"expected the {'rewritten' if cur_user != user_text else 'unchanged'} user text {cur_user!r}, got {turn.text!r}")
                        if cur_user != user_text:
                            res["rewritten_cases"] += 1
                    else:
                        if out_calls != exp_out:
                            bad("output-rail-sequence", f"rails invoked {out_calls}, expected {exp_out}")
                        if rej_out:
                            res["blocked_cases"] += 1
                            if turn.text != f"REFUSED-{rej_out}":
                                bad("reply-is-not-the-refusal", f"output rail {rej_out} blocked; reply {turn.text!r}")
                        else:
                            if cur_bot != bot_text:
                                res["rewritten_cases"] += 1
                            if turn.text != cur_bot:
                                bad("supplied-bot-message-reply", f"expected {cur_bot!r}, got {turn.text!r}")
                else:
                    # dialog selected: generation happens, output rails see the generated text
                    if not turn.llm_calls:
                        bad("no-generation-with-dialog", f"dialog selected, input accepted, but no LLM call; reply {turn.text!r}")
                    if "output" in sel and path != "predef" and not out_calls:
                        bad("selected-output-rails-did-not-run", f"reply {turn.text!r}")
                    if "retrieval" in sel and path == "llm" and not ret_calls:
                        bad("selected-retrieval-rails-did-not-run", f"reply {turn.text!r}")
                # ---- the log lists the rails that actually ran, stop exactly on the blocking rail
                log = getattr(turn.reply, "log", None)
                ar = getattr(log, "activated_rails", None) if log is not None else None
                if ar is None:
                    bad("no-activated-rails-log", "log.activated_rails missing")
                    continue
                logged_in = [r.name for r in ar if r.type == "input"]
                logged_out = [r.name for r in ar if r.type == "output"]
                if logged_in != [r for r, _ in in_calls]:
                    bad("log-input-rails", f"log lists input rails {logged_in}, invoked were {[r for r, _ in in_calls]}")
                if logged_out != [r for r, _ in out_calls]:
                    bad("log-output-rails", f"log lists output rails {logged_out}, invoked were {[r for r, _ in out_calls]}")
                stops = [r.name for r in ar if r.stop and r.type in ("input", "output")]
                rej_out_eff = None
                if out_calls and v_out:
                    last = out_calls[-1][0]
                    if verdicts.get(last) == "R":
                        rej_out_eff = last
                want = [x for x in (rej_in, rej_out_eff) if x]
                if stops != want:
                    bad("log-stop-flag", f"stop set on {stops}, blocking rail(s): {want}")
    seen, uniq = set(), []
    for v in res["viol"]:
        if v[0] not in seen:
            seen.add(v[0])
            uniq.append(v)
    res["viol"] = uniq
    return res


def all_subsets():
    out = []
    for n in range(0, 5):
        out.extend(itertools.combinations(CATS, n))
    return out


def run(rep, tier):
    from vf import par
    import vf.engines.world  # noqa

    subs = all_subsets()
    ts = []
    for dw in (False, True):
        for sub in subs:
            ts.append((dw, [sub]))
    # the pool hands tasks out in order: the selections with the largest verdict tables (input and output rails, no dialog) first
    ts.sort(key=lambda t: (-(("input" in t[1][0]) + ("output" in t[1][0])), "dialog" in t[1][0]))
    ts.append((False, [x for x in subs if "input" in x], "variable-refusal"))
    ts.append((False, [x for x in subs if "dialog" not in x], "tracing"))   # configuration with tracing.enabled: same replies and logs
    ts.append(("same-rail-twice",))
    seed = int(os.environ.get("VERIF_SEED", 0) or 0)
    conc = c16_conc.tasks(tier, seed)
    ts += [("conc",) + t for t in conc]
    # the larger tasks of the two sequential families go to the front of the queue, the small ones to the end
    hist_tasks, param_tasks = c16_hist.tasks(), c16_param.tasks()
    ts = hist_tasks[:4] + [t for t in param_tasks if len(t[2]) > 1 and "input" in t[2] and "output" in t[2]] + ts
    ts += c16_shapes.tasks()
    ts += hist_tasks[4:] + [t for t in param_tasks if t not in ts] + c16_exc.tasks()
    agg, extra_samples = {}, {}
    for r in par.pmap(explore, ts):
        for k, v in r.items():
            if isinstance(v, int):
                agg[k] = agg.get(k, 0) + v
        for sig, what, info in r["viol"]:
            rep.violation(sig, what, info)
        if r.get("sample"):
            extra_samples.setdefault(r["sample"]["family"], r["sample"])     # one observed case per new family
    incomplete = agg.pop("conc_incomplete", 0)
    for k, v in agg.items():
        rep.set(k, v)
    rep.set("option_subsets", len(subs))
    rep.set("distinct_nontrivial", agg.get("rails_only_cases", 0) + agg.get("blocked_cases", 0))
    rep.set("rule", "16 subsets x {list, dict} form x every effective verdict vector of 2 input / 2 output rails x supplied bot message y/n x dialog path x {plain, hostile} text; "
                    f"{len(c16_shapes.SHAPES)} text shapes (leading `$`, names of context variables, empty / blank, literals of the language) x position (user text, prompt=, "
                    "supplied bot message, text a rail rewrites into) x {accept, reject}; "
                    "conversation-history family (history_*): the call ends a conversation of 1-2 earlier exchanges that reaches it through {plain messages, the events cache, "
                    "the state object} x {input, input+output, output} x user text / supplied bot message / rewritten text in {fresh, equal to an earlier user or bot turn} "
                    "x {accept, reject, rewrite}; parametrised-rail family (param_rail_*): `content safety check input/output $model=<m>` configured 3 / 2 times with "
                    "different parameters, two configured orders x 6 selections without dialog x {list, dict} x every effective accept/reject vector x every list-form row "
                    "as the first call of a fresh instance; "
                    "blocking-mode family (blocking_mode_*): enable_rails_exceptions on / off x rail sets {stub+stub, shipped self check rail + stub, stub + shipped} "
                    "x 6 selections without dialog x every effective verdict vector; "
                    "non-trivial = rails-only cases (dialog not selected) + cases in which a rail blocked.  "
                    "conc_*: two overlapping rails-only generate_async calls on one instance, every pair of request kinds "
                    f"({', '.join(c16_conc.KINDS)}) with at most {c16_conc.quick_bound(tier)} rail actions in total, every arrival / rail-completion order "
                    "(virtual event loop, quiescence granularity); conc_overlapping_executions = schedules in which the second call arrived while a rail of the first was pending")
    rep.set("text_shapes", len(c16_shapes.SHAPES))
    rep.set("conc_request_kind_sets", len(conc))
    rep.set("exhaustive", not incomplete)
    if incomplete:
        rep.set("cap_hit", f"{incomplete} of {len(conc)} concurrent explorations stopped at their time budget; the sequential families were enumerated completely")
    rep.assumptions += [
        "the supplied bot message uses role `assistant` (the role LLMRails reads; the guide's example says `bot`)",
        "an empty selection and selections with `output` but without a bot message and without dialog are outside the statement",
        "conversation-history family: the earlier turns are accepted unchanged by every rail; one earlier conversation per (source, length, selection), every case continues it",
        "blocking-mode family: the shipped flows `self check input` / `self check output` run unchanged, their actions are stand-ins following the verdict script",
        "parametrised-rail family: the library flows `content safety check input/output` run unchanged, their two actions are stand-ins that judge by context['model']",
        "text-shape family: the instance's events cache is emptied before every call (the shapes are fixed texts; the cache is C15's subject)",
        "concurrent part: the suspension points of a rails-only call are its rail actions (each awaits an explorer-owned future); "
        "external completions land at quiescent points of the loop; a request is attributed to its call through a context variable set by the calling task",
    ]
    rep.sample({"subset": ["input", "output"], "form": "list", "in_outcome": "AW", "out_outcome": "R", "supplied": True})
    rep.sample({"subset": ["input"], "form": "dict", "in_outcome": "WA"})
    for smp in extra_samples.values():
        rep.sample(smp)


def replay(rp):
    if rp.get("part") == "conc":
        return c16_conc.replay(rp)
    if rp.get("part") == "text-shape":
        return c16_shapes.replay(rp)
    if rp.get("part") == "history":
        return c16_hist.replay(rp)
    if rp.get("part") == "param":
        return c16_param.replay(rp)
    if rp.get("part") == "blocking-mode":
        return c16_exc.replay(rp)
    world = rw.World(
        "".join((v1_rail_variable_refusal(r) if rp.get("variable_refusal") else rw.v1_rail(r, "input")) for r in IN_ORDER) + "".join(rw.v1_rail(r, "output") for r in OUT_ORDER)
        + (rw.V1_DIALOG if rp["dialog_world"] else "") + RET,
        "rails:\n  input:\n    flows: [in1, in2]\n  output:\n    flows: [out1, out2]\n" + RET_YAML,
    )
    sel = set(rp["subset"])
    opt = list(rp["subset"]) if rp["form"] == "list" else {c: (c in sel) for c in CATS}
    verdicts = {"ret1": "A"}
    if rp["in_outcome"]:
        verdicts.update(plan(IN_ORDER, rp["in_outcome"], rp["user"], "RWU")[0])
    if rp["out_outcome"]:
        verdicts.update(plan(OUT_ORDER, rp["out_outcome"], rp["bot"] or "?", "RWB")[0])
    msgs = [{"role": "user", "content": rp["user"]}] + ([{"role": "assistant", "content": rp["bot"]}] if rp["supplied"] else [])
    turn = rw.run_turn(world, msgs, verdicts, llm_fn_for(rp["path"]), options={"rails": opt, "log": {"activated_rails": True}})
    print("options", opt, "verdicts", verdicts)
    print("reply", repr(turn.text), "| rails:", [(a.get("rail"), a["text"]) for a in turn.actions], "| llm:", [str(c["task"]) for c in turn.llm_calls])
    log = getattr(turn.reply, "log", None)
    if log is not None:
        print("activated_rails:", [(r.type, r.name, r.stop) for r in log.activated_rails])
    print(rp["what"])
    return 0
