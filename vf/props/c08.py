"""C08 - flow calls bind parameters, defaults and return values; locals are private.

Enumerates signatures (<=3 parameters, every default mask) x call shapes (which parameters are
given, positional/named split, named order) x argument values x call forms; every program is
parsed and run on the real interpreter; oracle = Python-like binder.
Further families live in c08_more.py (overriding flows with another signature, calls inside and/or groups, `global`
declarations that only some instances reach / that follow a local use) and in c08_calls.py (chains of nested calls: direct
and mutual recursion, flows with the same parameter names; argument expressions that give another value per evaluation) and run
in the same quick/thorough tiers.
"""
from __future__ import annotations

import itertools

from vf.engines import v2x

PROP = "C08"

VALUES = [1, 1.5, "s", True, None, [1, "a"], {"k": 1}, "$cv", "pay $USD 5"]  # "$cv" = a variable of the caller (42)
DEFAULTS = ["d0", 20, [3]]  # declared default of parameter i
FORMS = ["assign_await", "await", "implicit", "start_match", "activate", "activate_twice"]


def lit(v):
    if isinstance(v, str):
        return v if v.startswith("$") else f'"{v}"'
    if isinstance(v, bool) or v is None:
        return str(v)
    if isinstance(v, list):
        return "[" + ", ".join(lit(x) for x in v) + "]"
    if isinstance(v, dict):
        return "{" + ", ".join(f'"{k}": {lit(x)}' for k, x in v.items()) + "}"
    return repr(v)


def same(a, b):
    """equal values; scalars must also agree in type (True vs 1 vs 1.0)"""
    if isinstance(b, NotOthers):
        return not any(same(a, o) for o in b.others)
    if isinstance(b, (bool, int, float, str)) or b is None:
        return type(a) is type(b) and a == b
    if isinstance(b, list):
        return isinstance(a, list) and len(a) == len(b) and all(same(x, y) for x, y in zip(a, b))
    if isinstance(b, dict):
        return isinstance(a, dict) and set(a) == set(b) and all(same(a[k], b[k]) for k in b)
    return a == b


def pyval(v):
    return 42 if v == "$cv" else v


def signature_text(k, mask):
    parts = []
    for i in range(k):
        parts.append(f"$p{i}={lit(DEFAULTS[i])}" if mask[i] else f"$p{i}")
    return " ".join(parts)


class NotOthers:
    """expected value of an omitted parameter that declares no default: the statement gives it no value, so the
    only demand is that it does not receive the argument or the default of ANOTHER parameter"""

    def __init__(self, others):
        self.others = others

    def __repr__(self):
        return f"<no value; in particular none of {self.others!r}>"


def call_shapes(k, mask, loose=False):
    """(given tuple of param indices in call order, n_positional); loose: only the shapes that omit a parameter without default"""
    out = []
    for given in itertools.product([False, True], repeat=k):
        if any((not g) and (not mask[i]) for i, g in enumerate(given)) != loose:
            continue  # omitted parameter without default: judged with the weaker NotOthers oracle (loose shapes)
        idx = [i for i in range(k) if given[i]]
        # positional prefix must bind parameters 0..m-1
        max_pos = 0
        while max_pos < k and given[max_pos]:
            max_pos += 1
        for m in range(0, max_pos + 1):
            named = [i for i in idx if i >= m]
            orders = [named]
            if len(named) >= 2:
                orders.append(list(reversed(named)))
            for o in orders:
                out.append((tuple(range(m)), tuple(o)))
    res, seen = [], set()
    for s in out:
        if s not in seen:
            seen.add(s)
            res.append(s)
    return res


def call_text(shape, vals):
    pos, named = shape[0], shape[1]
    layout = shape[2] if len(shape) > 2 else "positional-first"
    p = [lit(vals[i]) for i in pos]
    n = [f"$p{i}={lit(vals[i])}" for i in named]
    if layout == "named-first":
        parts = n + p
    elif layout == "interleaved":
        # named arguments between the positional ones: n0 p0 n1 p1 ...
        parts = []
        for k in range(max(len(p), len(n))):
            parts += n[k:k + 1] + p[k:k + 1]
    else:
        parts = p + n
    return " ".join(parts)


def program(k, mask, shape, vals, form, ret):
    sig = signature_text(k, mask)
    echo = ", ".join(f"p{i}=$p{i}" for i in range(k))
    ret_line = {"last": f"  return $p{k - 1}\n", "const": '  return "rv"\n', "none": "  return\n"}[ret]
    callee = (
        f"flow callee {sig}\n"
        f'  $v = "callee"\n'
        f"  $cv = \"callee-local\"\n"
        f"  send Echo({echo}, v=$v)\n"
        + ("  match Go()\n" if not form.startswith("activate") else "")
        + f'  $v = "callee2"\n'
        + ret_line
    )
    sib = '@loop("sib")\nflow sib\n  $v = "sib"\n  match Go()\n  send SibEcho(v=$v)\n  match Never()\n'
    args = call_text(shape, vals)
    call = {
        "assign_await": f"  $x = await callee {args}\n",
        "await": f"  await callee {args}\n",
        "implicit": f"  callee {args}\n",
        "start_match": f"  start callee {args} as $r\n  match $r.Finished()\n",
        "activate": f"  activate callee {args}\n",
        # a second activation that differs from the first one only in its first given argument
        "activate_twice": f"  activate callee {args}\n  activate callee {call_text(shape, second_vals(shape, vals))}\n",
    }[form]
    main = (
        "flow main\n"
        '  $v = "caller"\n'
        "  $cv = 42\n"
        '  $x = "unset"\n'
        "  start sib\n"
        + call
        + "  send After(v=$v, x=$x, cv=$cv)\n"
        "  match Never()\n"
    )
    return callee + "\n" + sib + "\n" + main


def second_vals(shape, vals):
    given = sorted(set(shape[0]) | set(shape[1]))
    v2 = list(vals)
    if given:
        v2[given[0]] = "other"
    return v2


def expected_binding(k, mask, shape, vals):
    pos, named = shape[0], shape[1]
    b = {}
    for i in range(k):
        if i in pos or i in named:
            b[f"p{i}"] = pyval(vals[i])
        elif mask[i]:
            b[f"p{i}"] = DEFAULTS[i]
        else:
            b[f"p{i}"] = NotOthers([pyval(vals[j]) for j in range(k) if j != i and (j in pos or j in named)] + [DEFAULTS[j] for j in range(k) if j != i and mask[j]])
    return b


def check(task):
    k, mask, shape, vals, form, ret = task
    src = program(k, mask, shape, vals, form, ret)
    res = {"programs": 1, "steps": 0, "viol": [], "defaults_used": 0, "named": len(shape[1]), "positional": len(shape[0])}
    info = {"engine": "C08", "source": src, "task": [k, list(mask), [list(shape[0]), list(shape[1])] + list(shape[2:]), vals, form, ret]}

    def bad(sig, what):
        res["viol"].append((sig, what, info))

    try:
        st = v2x.init_state(src)
    except Exception as e:
        bad("program-rejected", f"{e!r}")
        return res
    exp = expected_binding(k, mask, shape, vals)
    res["defaults_used"] = sum(1 for i in range(k) if i not in shape[0] and i not in shape[1])
    try:
        v2x.step(st, v2x.resolve_event(st, ("start_main",)), [], v2x.UIDS.n)
    except Exception as e:
        bad(f"call-raised:{form}", f"callee {signature_text(k, mask)} called `{call_text(shape, vals)}`: the interpreter raised {type(e).__name__}: {str(e)[:120]}")
        return res
    res["steps"] += 1
    outs = {e["type"]: e for e in st.outgoing_events}
    if form == "activate_twice":
        echoes = [e for e in st.outgoing_events if e["type"] == "Echo"]
        exp2 = expected_binding(k, mask, shape, second_vals(shape, vals))
        given = sorted(set(shape[0]) | set(shape[1]))
        want = [exp] + ([exp2] if given and not same(vals[given[0]], "other") else [])
        got = [{n: e.get(n) for n in exp} for e in echoes]
        if len(got) != len(want) or any(not all(same(g[n], w[n]) for n in w) for g, w in zip(got, want)):
            bad("binding:activate_twice", f"callee {signature_text(k, mask)} activated with `{call_text(shape, vals)}` and then `{call_text(shape, second_vals(shape, vals))}`: "
                                          f"instances echoed {got}, expected {want}")
        if "After" not in outs:
            bad("activate-did-not-return", "no After event after the second activation")
        return res
    echo = outs.get("Echo")
    if echo is None:
        bad(f"callee-not-started:{form}", f"no Echo event after start; outgoing={list(outs)}")
        return res
    for name, val in exp.items():
        if name not in echo or not same(echo[name], val):
            bad(f"binding:{form}:{('omitted-without-default-took-anothers-value' if isinstance(val, NotOthers) else 'default') if (int(name[1:]) not in shape[0] and int(name[1:]) not in shape[1]) else ('positional' if int(name[1:]) in shape[0] else 'named')}",
                f"callee {signature_text(k, mask)} called `{call_text(shape, vals)}`: parameter {name} = {echo.get(name)!r}, expected {val!r}")
    if echo.get("v") != "callee":
        bad("locals:callee", f"callee local $v = {echo.get('v')!r}")
    if form == "activate":
        after = outs.get("After")
        if after is None:
            bad("activate-did-not-return", "no After event")
        elif after.get("v") != "caller" or after.get("cv") != 42:
            bad("locals:caller", f"caller locals after call: v={after.get('v')!r} cv={after.get('cv')!r}")
        return res
    if "After" in outs:
        bad(f"caller-continued-before-callee-finished:{form}", "After emitted before the callee finished")
    try:
        v2x.step(st, {"type": "Go"}, [], v2x.UIDS.n)
    except Exception as e:
        bad(f"call-raised:{form}", f"callee {signature_text(k, mask)} called `{call_text(shape, vals)}`: the interpreter raised {type(e).__name__} on Go: {str(e)[:120]}")
        return res
    res["steps"] += 1
    outs = {e["type"]: e for e in st.outgoing_events}
    after, sibe = outs.get("After"), outs.get("SibEcho")
    if after is None:
        bad(f"caller-not-resumed:{form}", f"no After event; outgoing={list(outs)}")
        return res
    if after.get("v") != "caller" or after.get("cv") != 42:
        bad("locals:caller", f"caller locals after call: v={after.get('v')!r} cv={after.get('cv')!r} (callee assigned its own $v/$cv)")
    if sibe is None or sibe.get("v") != "sib":
        bad("locals:sibling", f"sibling local $v = {None if sibe is None else sibe.get('v')!r}")
    if form == "assign_await":
        want = {"last": exp[f"p{k - 1}"], "const": "rv", "none": None}[ret]
        got = after.get("x", "<missing>")
        if isinstance(want, NotOthers):
            want = echo.get(f"p{k - 1}")    # whatever the callee saw is what it returns
        if not same(got, want):
            bad(f"return-value:{ret}", f"`$x = await callee ...` with `return` ({ret}) assigned {got!r}, expected {want!r}")
    else:
        if after.get("x") != "unset":
            bad("locals:caller-x", f"caller $x changed to {after.get('x')!r} without assignment")
    return res


# parameter names: ordinary identifiers plus the names the interpreter uses for its own bookkeeping in StartFlow events
PARAM_NAMES = ["p0", "uid", "name", "status", "loop_id", "priority", "arguments", "return_value", "text", "script", "event",
               "activated", "flow_id", "source_flow_instance_uid", "flow_instance_uid", "source_head_uid", "flow_hierarchy_position"]


def check_param_name(nm):
    res = {"programs": 0, "steps": 0, "viol": [], "defaults_used": 0, "named": 0, "positional": 0}
    for call, how in ((f'await callee({nm}="yes")', "named"), ('await callee "yes"', "positional"),
                      (f'$x = await callee({nm}="yes")', "named-assign"), ('$x = await callee "yes"', "positional-assign")):
        assign = how.endswith("-assign")
        src = (f"flow callee ${nm}\n  send Echo(a=${nm})\n  match Go()\n" + ('  return "rv"\n' if assign else "") + "\n"
               f"flow main\n" + ('  $x = "unset"\n' if assign else "") + f"  {call}\n  send After(" + ("x=$x" if assign else "") + ")\n  match Never()\n")
        info = {"engine": "C08-name", "source": src, "param_name": nm}
        sig = f"binding:parameter-name-used-by-the-interpreter:{nm}"
        res["programs"] += 1
        res["named" if how.startswith("named") else "positional"] += 1
        try:
            st = v2x.init_state(src)
            v2x.step(st, v2x.resolve_event(st, ("start_main",)), [], v2x.UIDS.n)
            echo = [e.get("a") for e in st.outgoing_events if e["type"] == "Echo"]
            v2x.step(st, {"type": "Go"}, [], v2x.UIDS.n)
            after = any(e["type"] == "After" for e in st.outgoing_events)
            got_x = [e.get("x", "<missing>") for e in st.outgoing_events if e["type"] == "After"]
            res["steps"] += 2
        except Exception as e:
            res["viol"].append((sig, f"`flow callee ${nm}` called `{call}`: the interpreter raised {type(e).__name__}: {str(e)[:100]}", info))
            break
        if echo != ["yes"]:
            res["viol"].append((sig, f"`flow callee ${nm}` called `{call}`: the parameter is {echo!r} in the callee, expected ['yes']", info))
            break
        if not after:
            res["viol"].append((sig, f"`flow callee ${nm}` called `{call}`: the caller was not resumed after the callee finished", info))
            break
        if assign and got_x != ["rv"]:
            res["viol"].append((sig, f"`flow callee ${nm}` (ends with `return \"rv\"`) called `{call}`: the caller's $x is {got_x!r} afterwards, expected ['rv']", info))
            break
    return res


def check_mutable_default(form):
    """a declared default that is a container: every instance that omits the argument gets the declared value, whatever an
    earlier instance did to ITS value in place"""
    res = {"programs": 1, "steps": 0, "viol": [], "defaults_used": 2, "named": 0, "positional": 0}
    call = {"await-twice": "  await callee\n  await callee\n", "start-two": "  start callee\n  start callee\n",
            "await-then-given": "  await callee\n  await callee $items=[\"g\"]\n  await callee\n"}[form]
    # (the events carry scalars: an event argument that IS the list would show the later in-place change as well)
    src = ('flow callee $items=[] $store={"n": 0}\n  send Echo(a=len($items), b=len($store))\n  ($items.append("x"))\n  ($store.update({"k": 1}))\n'
           '  send Echo2(a=len($items), b=len($store))\n\n'
           "flow main\n" + call + "  send After()\n  match Never()\n")
    info = {"engine": "C08-mut", "source": src, "form": form}
    try:
        st = v2x.init_state(src)
        v2x.step(st, v2x.resolve_event(st, ("start_main",)), [], v2x.UIDS.n)
        res["steps"] += 1
    except Exception as e:
        res["viol"].append((f"mutable-default:{form}:raised", f"{type(e).__name__}: {str(e)[:120]}", info))
        return res
    echoes = [(e.get("a"), e.get("b")) for e in st.outgoing_events if e["type"] == "Echo"]
    echoes2 = [(e.get("a"), e.get("b")) for e in st.outgoing_events if e["type"] == "Echo2"]
    want = {"await-twice": [(0, 1)] * 2, "start-two": [(0, 1)] * 2, "await-then-given": [(0, 1), (1, 1), (0, 1)]}[form]
    if form == "start-two" and len(echoes) == 1:
        want = want[:1]      # two identical starts in one step may be one event
    if echoes != want:
        res["viol"].append((f"mutable-default:{form}", f"`flow callee $items=[] $store={{\"n\": 0}}` mutates its parameters in place; the instances saw {echoes}, expected {want}", info))
    elif not echoes2 or any(a < 1 or b != 2 for a, b in echoes2):
        res["viol"].append((f"mutable-default:{form}:harness-mutation-not-visible", f"after the in-place change the callee saw {echoes2}", info))
    return res



# ----------------------------------------------------------------------------- scenarios with explicit expectations
def _scenarios():
    out = []
    # (a) an activated callee assigns to its own parameter and finishes: the restarted instance is bound from the
    #     activator's arguments / the declared default again
    for sig, call, first in (("$p=10", "activate callee", 10), ("$p=10", "activate callee $p=3", 3), ("$p", "activate callee 3", 3),
                             ("$p $q=5", "activate callee 1", (1, 5)), ("$p $q=5", "activate callee $q=7 $p=1", (1, 7))):
        two = isinstance(first, tuple)
        echo = "send Echo(p=$p, q=$q)" if two else "send Echo(p=$p)"
        assign = ["$p = 99"] + (["$q = 98"] if two else [])
        src = (f"flow callee {sig}\n  {echo}\n  match E1()\n" + "".join(f"  {a}\n" for a in assign) + "  match E2()\n\n"
               f"flow main\n  {call}\n  match Never()\n")
        want = [first, first, first]
        out.append((f"activated-restart-rebinds:{call.replace('activate callee', '').strip() or 'default'}", src, ["E1", "E2", "E1", "E2"], "Echo",
                    (lambda e, two=two: (e.get("p"), e.get("q")) if two else e.get("p")), want))
    # (b) the callee (or a flow it starts before its first wait) changes the global the caller passed as an argument
    for how in ("await", "start"):
        call = "$r = await callee $g" if how == "await" else "start callee $g as $ref\n  match $ref.Finished() as $ev\n  $r = $ev.return_value"
        src = ("flow callee $v\n  global $g\n  $g = $g + 1\n  send Echo(p=$v)\n  match E1()\n  return $v\n\n"
               f"flow main\n  global $g\n  $g = 1\n  {call}\n  send After(r=$r, g=$g)\n  match Never()\n")
        out.append((f"argument-expression-changes-after-the-call:{how}", src, ["E1"], ("Echo", "After"),
                    (lambda e: (e["type"], e.get("p"), e.get("r"), e.get("g"))), [("Echo", 1, None, None), ("After", None, 1, 2)]))
    # (b2) same clause, other ways in which the argument expression of the call does not give an equal value when it is evaluated
    #      again: a fresh value per evaluation, a value that is not equal to itself, a dict the callee changes in place
    for how, pre, arg, body, seen in (("await-uid", "", "uid()", "  send Echo(p=type($v))\n", "str"), ("await-nan", "", 'float("nan")', "  send Echo(p=type($v))\n", "float"),
                                      ("await-dict-changed-in-place", '  $d = {"k": 1}\n', "$d", '  $dummy = $v.update({"k": 2})\n  send Echo(p=$v["k"])\n', 2)):
        src = (f"flow callee $v\n{body}  match E1()\n  return 1\n\n"
               f'flow main\n{pre}  $r = "unset"\n  $r = await callee({arg})\n  send After(r=$r)\n  match Never()\n')
        out.append((f"argument-expression-changes-after-the-call:{how}", src, ["E1"], ("Echo", "After"),
                    (lambda e: (e["type"], e.get("p"), e.get("r"))), [("Echo", seen, None), ("After", None, 1)]))
    # (c) return member named like a parameter
    for sig, call, want in (("$x -> $x", "await callee 4", 4), ("$x -> $x", "await callee $x=3", 3), ("$x=7 -> $x", "await callee", 7), ("$x -> $y", "await callee $x=3", 3)):
        src = f"flow callee {sig}\n  send Echo(p=$x)\n\nflow main\n  {call}\n  send After()\n  match Never()\n"
        out.append((f"return-member-named-like-a-parameter:{sig}:{call.replace('await callee', '').strip() or 'default'}", src, [], "Echo", (lambda e: e.get("p")), [want]))
    # (d) activations that differ only in the TYPE of an argument are different calls
    for vals in ((1, True), (True, 1), (0, False), (1, 1.0), ("1", 1), (None, 0), (0, None)):
        acts = "".join(f"  activate callee {lit(v)}\n" for v in vals)
        src = f"flow callee $v\n  send Echo(p=$v, t=type($v))\n  match Never()\n\nflow main\n{acts}  match Never()\n"
        out.append((f"activations-differing-in-type:{'-'.join(lit(v) for v in vals)}", src, [], "Echo", (lambda e: (type(e.get("p")).__name__, e.get("p"))),
                    [(type(v).__name__, v) for v in vals]))
    return out


def check_scenarios(_):
    res = {"programs": 0, "steps": 0, "viol": [], "defaults_used": 0, "named": 0, "positional": 0}
    for name, src, events, evtypes, proj, want in _scenarios():
        info = {"engine": "C08-scn", "source": src, "scenario": name}
        res["programs"] += 1
        evtypes = (evtypes,) if isinstance(evtypes, str) else evtypes
        try:
            st = v2x.init_state(src)
            got = []
            v2x.step(st, v2x.resolve_event(st, ("start_main",)), [], v2x.UIDS.n)
            got += [proj(e) for e in st.outgoing_events if e["type"] in evtypes]
            for ev in events:
                v2x.step(st, {"type": ev}, [], v2x.UIDS.n)
                res["steps"] += 1
                got += [proj(e) for e in st.outgoing_events if e["type"] in evtypes]
        except Exception as e:
            res["viol"].append((f"scenario:{name}:raised", f"{type(e).__name__}: {str(e)[:160]}", info))
            continue
        if got != want:
            res["viol"].append((f"scenario:{name}", f"observed {got}, expected {want}", info))
    return res


def tasks(tier):
    out = []
    kmax = 3
    for k in range(1, kmax + 1):
        for mask in itertools.product([False, True], repeat=k):
            if tier == "quick" and k == 3 and mask not in ((False, False, False), (False, True, True), (True, True, True)):
                continue
            for shape in call_shapes(k, mask):
                given = sorted(set(shape[0]) | set(shape[1]))
                if len(given) <= 2:
                    combos = itertools.product(VALUES, repeat=len(given))
                else:
                    base = [VALUES[0], VALUES[2], VALUES[5]]
                    combos, seen_c = [], set()
                    for j in range(len(given)):
                        for v in range(len(VALUES)):
                            c = tuple(VALUES[v] if jj == j else base[jj] for jj in range(3))
                            if repr(c) not in seen_c:
                                seen_c.add(repr(c))
                                combos.append(c)
                for combo in combos:
                    if any(isinstance(v, (list, dict)) and gi in shape[0] and gi > 0 for gi, v in zip(given, combo)):
                        continue  # `f 1.5 [1, "a"]` reads as a subscript: ambiguous surface syntax, use the named form
                    vals = [None] * k
                    for i, v in zip(given, combo):
                        vals[i] = v
                    first = True
                    for form in FORMS:
                        # full value product for the assigning form, reduced for the others
                        if form != "assign_await" and not first_combo(combo):
                            continue
                        rets = ["last", "const", "none"] if form == "assign_await" and first_combo(combo) else ["last"]
                        for ret in rets:
                            out.append((k, mask, shape, vals, form, ret))
            # calls without parentheses that write a named argument in front of / between the positional ones
            for shape in call_shapes(k, mask):
                if not shape[0] or not shape[1]:
                    continue
                given = sorted(set(shape[0]) | set(shape[1]))
                vals = [None] * k
                for i, v in zip(given, (1, "s", True)):
                    vals[i] = v
                for layout in ("named-first", "interleaved"):
                    for form in ("assign_await", "start_match", "activate"):
                        out.append((k, mask, (shape[0], shape[1], layout), vals, form, "last"))
            # shapes that omit a parameter without declared default (weaker oracle, distinct non-None values)
            for shape in call_shapes(k, mask, loose=True):
                given = sorted(set(shape[0]) | set(shape[1]))
                vals = [None] * k
                for i, v in zip(given, (1, "s", {"k": 1})):
                    vals[i] = v
                for form in FORMS:
                    if form == "activate_twice":
                        continue
                    out.append((k, mask, shape, vals, form, "last"))
    return out


def first_combo(combo):
    """reduced value set for the non-assigning forms: combos made of the first, third and sixth value"""
    return all(v in (VALUES[0], VALUES[2], VALUES[4], VALUES[5]) for v in combo)


def _more(tagged):
    from vf.props import c08_calls, c08_more

    kind, task = tagged
    return kind, {"ovr": c08_more.check_override, "group": c08_more.check_group, "scope": c08_more.check_scope,
                  "nested": c08_calls.check_nested, "eval": c08_calls.check_eval}[kind](task)


def run(rep, tier):
    from vf import par

    ts = tasks(tier)
    agg = {"programs": 0, "steps": 0, "defaults_used": 0, "named": 0, "positional": 0}
    nontrivial = 0
    for r in par.pmap(check, ts, chunksize=max(1, len(ts) // 200)):
        for k in agg:
            agg[k] += r[k]
        if r["defaults_used"] or r["named"] or r["positional"]:
            nontrivial += 1
        for sig, what, info in r["viol"]:
            rep.violation(sig, what, info)
    for r in par.pmap(check_param_name, PARAM_NAMES):
        for k in agg:
            agg[k] += r[k]
        for sig, what, info in r["viol"]:
            rep.violation(sig, what, info)
    for r in par.pmap(check_mutable_default, ["await-twice", "start-two", "await-then-given"]):
        for k in agg:
            agg[k] += r[k]
        for sig, what, info in r["viol"]:
            rep.violation(sig, what, info)
    for r in par.pmap(check_scenarios, [0]):
        for k in agg:
            agg[k] += r[k]
        rep.set("scenario_programs", r["programs"])
        for sig, what, info in r["viol"]:
            rep.violation(sig, what, info)
    from vf.props import c08_calls, c08_more

    ots, gts, sts = c08_more.ovr_tasks(tier), c08_more.group_tasks(tier), c08_more.scope_tasks(tier)
    nts, ets = c08_calls.nested_tasks(tier), c08_calls.eval_tasks(tier)
    tagged = [("ovr", t) for t in ots] + [("group", t) for t in gts] + [("scope", t) for t in sts] + [("nested", t) for t in nts] + [("eval", t) for t in ets]
    ovr_differs = scope_steps = scope_mixed = nested_omitting = nested_steps = eval_steps = 0
    for kind, r in par.pmap(_more, tagged, chunksize=max(1, len(tagged) // 300)):
        agg["programs"] += r["programs"]
        agg["steps"] += r["steps"]
        if kind == "scope":
            scope_steps += r["steps"]
            scope_mixed += r["mixed"]
            nontrivial += r["mixed"]
        else:
            for k in ("defaults_used", "named", "positional"):
                agg[k] += r[k]
            ovr_differs += r.get("differs", 0)
            nested_omitting += r.get("inner_omits_what_the_caller_holds", 0)
            nested_steps += r["steps"] if kind == "nested" else 0
            eval_steps += r["steps"] if kind == "eval" else 0
            nontrivial += 1 if (r["defaults_used"] or r["named"] or r["positional"]) else 0
        for sig, what, info in r["viol"]:
            rep.violation(sig, what, info)
    rep.set("group_member_programs", len(gts))
    rep.set("override_programs", len(ots))
    rep.set("override_programs_with_a_different_signature", ovr_differs)
    rep.set("nested_call_programs", len(nts))
    rep.set("nested_call_programs_whose_inner_calls_omit_a_parameter_the_caller_holds", nested_omitting)
    rep.set("nested_call_interpreter_steps", nested_steps)
    rep.set("argument_evaluation_programs", len(ets))
    rep.set("argument_evaluation_interpreter_steps", eval_steps)
    rep.set("scope_cases", len(sts))
    rep.set("scope_interpreter_steps", scope_steps)
    rep.set("scope_cases_with_declared_and_local_readers", scope_mixed)
    rep.set("parameter_names_checked", len(PARAM_NAMES))
    rep.set("evaluations", agg["programs"])
    rep.set("interpreter_steps", agg["steps"])
    rep.set("defaults_exercised", agg["defaults_used"])
    rep.set("named_arguments_bound", agg["named"])
    rep.set("positional_arguments_bound", agg["positional"])
    rep.set("distinct_nontrivial", nontrivial)
    rep.set("rule", "signatures (<=2 quick / <=3 thorough params, every default mask) x call shapes (given subset, positional prefix, named order) x values "
                    f"{[lit(v) for v in VALUES]} (full product for <=2 arguments, one-varying for 3) x forms {FORMS}; each program is distinct; non-trivial = binds >=1 argument or default. "
                    f"Override family: {len(c08_more.signatures())} override signatures (1-2 parameters of {list(c08_more.NAMES)}, either order, every default mask) x overridden signatures "
                    f"(quick: uniform default masks, thorough: all) x placements {list(c08_more.PLACEMENTS)} x strict call shapes of the override signature x forms {list(c08_more.OVR_FORMS)} "
                    "(quick: 4 fixed placement/form pairs per shape, thorough: the product). Group family: <=2 parameters x masks x strict shapes x "
                    f"{list(c08_more.GROUP_FORMS)}. Scope family (case = program + event order): `global $x` slots of the worker {list(c08_more.SLOT_KINDS)}^3 (quick: at most one slot filled) x workers taking the "
                    f"conditional declaration x caller {list(c08_more.MAIN_VARIANTS)} x helper {list(c08_more.HELPERS)} x event orders (quick 2, thorough all 6 interleavings), a Tick after every event; "
                    "non-trivial there = an instance that has declared the global and one that has not both read $x. "
                    f"Nested family: chains main -> L0 -> L1 -> L2 of kinds {list(c08_calls.NEST_KINDS)} (flows {[list(v) for v in c08_calls.NEST_KINDS.values()]}, all with the parameters `$d $p0 [$p1]`, main holds locals "
                    f"of these names) x <=2 parameters x default masks x shape of the outermost call (quick: all positional / all named / nothing given; thorough: every strict shape) x shape of the inner calls (every strict "
                    f"and loose shape) x inner call forms {list(c08_calls.NEST_FORMS)}; per level: binding, unchanged variables after the callee assigned to its own, return value. "
                    f"Argument-evaluation family: argument patterns {list(c08_calls.PATTERNS)} (E = expression that gives another value per evaluation, L = literal) x expressions {[v[0] for v in c08_calls.EXPR_KINDS.values()]} x "
                    f"texts {list(c08_calls.TEXTS)} x call forms {list(c08_calls.EVAL_FORMS)} x number of positional arguments x named order")
    rep.set("exhaustive", True)
    rep.assumptions += ["group members that only serve as the other member of an or-group run in their own interaction loop (their `send` would compete with the callee's)",
                        "what `$x = await a or b` assigns and what a flow that ends without `return` hands to `$x = await flow` are not covered by the statement (it speaks of `$x = await flow` and of the value given to `return`)",
                        "override / scope families: an overriding flow is bound by its own declaration; a variable is global for an instance from the moment that instance executes `global $x`",
                        "calls that pass surplus arguments are outside the statement (C10 has them as fault kinds); a parameter omitted without declared default is only required not to take another parameter's value",
                        "`$self`, `$system` and `$context` are documented / explicitly rejected special names and are not used as parameter names "
                        "(docs/colang_2/language_reference/working-with-variables-and-expressions.rst, 'Built-in Flow Variables': names that 'cannot be used as custom variable names in a flow'; `$self` is the built-in reference to the instance)",
                        "argument-evaluation family: n argument expressions are n evaluations in the caller; the ORDER in which the arguments of one call are evaluated is not part of the statement (any order is accepted); "
                        "for `start` / `await` only what the callee received is judged there (the caller staying parked when an argument expression is not repeatable is the recorded finding argument-expression-changes-after-the-call)",
                        "nested family: a parameter omitted without declared default must in particular not take the value the calling instance holds under that name (same weak oracle as the loose shapes)",
                        "callee echoes its parameters in an event; sibling runs in its own interaction loop so that its `send` does not compete"]
    rep.sample({"program": program(*ts[len(ts) // 2])})
    rep.sample({"call": call_text(ts[-1][2], ts[-1][3]), "signature": signature_text(ts[-1][0], ts[-1][1]), "form": ts[-1][4]})
    o = ots[len(ots) // 2]
    osrc, oextra = c08_more.ovr_sources(*o)
    rep.sample({"family": "override", "program": osrc, "second_source": list(oextra)})
    nt = nts[len(nts) // 2]
    rep.sample({"family": "nested", "program": c08_calls.nested_program(*nt)})
    et = ets[len(ets) // 3]
    rep.sample({"family": "argument-evaluation", "program": c08_calls.eval_program(*et)[0]})
    sc = sts[len(sts) // 2]
    rep.sample({"family": "scope", "program": c08_more.scope_program(*sc[:4]), "events": [list(e) for e in sc[4]],
                "expected_per_step": [[list(ev), [list(x) for x in out]] for ev, out in c08_more.scope_model(*sc)[0]]})


def replay(rp):
    if rp.get("engine") == "C08-mut":
        r = check_mutable_default(rp["form"])
        print(rp["source"])
        for sig, what, _i in r["viol"]:
            print(sig, ":", what)
        print(rp.get("what"))
        return 0
    if rp.get("engine") == "C08-scn":
        r = check_scenarios(0)
        print(rp["source"])
        for sig, what, _i in r["viol"]:
            if rp.get("scenario") in sig:
                print(sig, ":", what)
        print(rp.get("what"))
        return 0
    if rp.get("engine") == "C08-name":
        r = check_param_name(rp["param_name"])
        print(rp["source"])
        for sig, what, _i in r["viol"]:
            print(sig, ":", what)
        print(rp.get("what"))
        return 0
    if rp.get("engine") in ("C08-nested", "C08-eval"):
        from vf.props import c08_calls
        return c08_calls.replay(rp)
    if rp.get("engine") in ("C08-ovr", "C08-scope", "C08-group"):
        from vf.props import c08_more
        return c08_more.replay(rp)
    k, mask, shape, vals, form, ret = rp["task"]
    r = check((k, tuple(mask), (tuple(shape[0]), tuple(shape[1])) + tuple(shape[2:]), vals, form, ret))
    print(rp["source"])
    for sig, what, _ in r["viol"]:
        print(sig, ":", what)
    return 0
