"""C02: LLM-generated bot messages (and rewritten forms) whose TEXT LOOKS LIKE A REFERENCE to a context variable or like a
template - `$name`, `{{ name }}`, `{$name}`, `$name and more`, `see $name` - in conversations in which such variables exist
(given by the caller in a `context` message, set by the library itself: `$user_message`, `$bot_message`, `$relevant_chunks`
..., or not defined at all).  The text of a bot message is data: what the output rails approved is what is returned, character
by character; it is never looked up / rendered again on its way from the rails to the caller.

Worlds: Colang 1.0 without dialog rails (general mode), with dialog rails (intent -> next step -> generated bot message), and
Colang 2.x (guardrails library, variables are globals of the main flow); one output rail; 2 turns, the reference-shaped
text in turn 1 or in turn 2 (when `$last_bot_message` etc. exist), the other turn an ordinary one.
Verdicts for the shaped text: accepted / rejected / (1.0) an ordinary text rewritten INTO the shaped text.

Oracle per turn: the output rail was invoked exactly once, on the literal LLM text; accepted -> the reply is that text,
rewritten -> the reply is the rewritten text, rejected -> the refusal; the value of a caller-given variable never occurs in a
reply (no LLM answer and no rail ever produced it)."""
from __future__ import annotations

from vf.props import railsworld as rw

SECRET = "SECRETVAL-vault-7731"
CONTEXT = {"vault_code": SECRET, "alias": "$vault_code", "alias2": "$alias"}
NAMES = ("vault_code", "alias", "alias2", "user_message", "last_user_message", "bot_message", "last_bot_message", "relevant_chunks", "no_such_variable")
CONTROL_NAMES = ("vault_code", "user_message", "no_such_variable")
SHAPES = {
    "whole-dollar": "${n}",
    "jinja": "{{{{ {n} }}}}",
    "braced-dollar": "{{${n}}}",
    "dollar-then-words": "${n} and more",
    "words-then-dollar": "see ${n}",
}

V2_MAIN = """
flow main
  global $vault_code
  $vault_code = "%s"
  activate handling

flow handling
  global $user_message
  user said something
  $text = ..."Answer the user: {$user_message}"
  bot say $text
""" % SECRET


def tasks(tier):
    out = []
    for version, dialog in (("1.0", False), ("1.0", True), ("2.x", False)):
        for shape in SHAPES:
            out.append(("refs", version, dialog, shape))
    return out


def _llm_fn(version, dialog, text):
    def fn(task, prompt, i):
        t = str(task)
        if "generate_user_intent" in t:
            return "  ask"
        if "generate_next_step" in t:
            return "  bot inform capabilities"
        if "generate_bot_message" in t:
            return f'  "{text}"'
        if version == "2.x":
            return f'"{text}"'
        return text
    return fn


def explore(task):
    _t, version, dialog, shape = task
    v2 = version == "2.x"
    res = {"worlds": 1, "turns": 0, "conversations": 0, "rejections": 0, "rewrites": 0, "llm_text_turns": 0, "rail_calls": 0,
           "reference_shaped_texts": 0, "reference_shaped_texts_naming_a_defined_variable": 0, "viol": []}
    tag = f"{'v2' if v2 else 'v1'}:{'dialog' if dialog else 'nodialog'}:reference-shaped-text:{shape}"
    info0 = {"engine": "E3-world", "prop": "C02", "part": "refs", "version": version, "dialog": dialog, "shape": shape}
    try:
        if v2:
            # the rail is the shipped `self check output` flow (its action, a stub here, reads the message from the context as the
            # shipped action does; a rail that hands the text to its action as a PARAMETER is subject to the action dispatcher's
            # own `$name` parameter lookup, which is not the subject of this property)
            world = rw.v2_world(in_order=("in1",), out_order=("out1",), main=V2_MAIN, library=True)
        else:
            world = rw.v1_world(in_order=("in1",), out_order=("out1",), dialog=dialog)
    except Exception as e:
        res["viol"].append((f"world-rejected:{tag}", repr(e), info0))
        return res
    n = 0
    for name in NAMES:
        if v2 and name in ("alias", "alias2"):
            continue
        if shape != "whole-dollar" and name not in CONTROL_NAMES:
            continue      # the other shapes are controls (never a reference): three names each
        shaped = SHAPES[shape].format(n=name)
        for pos in (1, 2):
            for verdict in (("A", "R") if v2 else ("A", "R", "W")):
                if verdict == "R" and pos == 2:
                    continue
                n += 1
                res["conversations"] += 1
                res["reference_shaped_texts"] += 1
                if name != "no_such_variable":
                    res["reference_shaped_texts_naming_a_defined_variable"] += 1
                ctx = {} if v2 else [{"role": "context", "content": dict(CONTEXT)}]
                for t in (1, 2):
                    user_text = ("ask" if (v2 and dialog) else f"R{n}t{t}q what can you do")
                    plain = f"PLAIN-{n}-{t} answer"
                    if t == pos:
                        llm_text = plain if verdict == "W" else shaped
                        verdicts = {"in1": "A", "out1": {"A": "A", "R": "R", "W": ("W", shaped)}[verdict]}
                        want = rw.LIB_REFUSAL if (verdict == "R" and v2) else ("REFUSED-out1" if verdict == "R" else shaped)
                    else:
                        llm_text, verdicts, want = plain, {"in1": "A", "out1": "A"}, plain
                    fn = _llm_fn(version, dialog, llm_text)
                    if v2:
                        turn = rw.run_turn(world, [{"role": "user", "content": user_text}], verdicts, fn, state=ctx)
                    else:
                        msgs = ctx + [{"role": "user", "content": user_text}]
                        turn = rw.run_turn(world, msgs, verdicts, fn)
                    res["turns"] += 1
                    res["llm_text_turns"] += 1
                    info = dict(info0, variable=name, text=shaped, position=pos, verdict=verdict, turn=t, context=(None if v2 else CONTEXT))

                    def bad(sig, what):
                        res["viol"].append((f"{sig}:{tag}" + (":later-turn" if t > pos else ""), what, info))

                    if turn.exc is not None:
                        bad("generate-raised", f"LLM text {llm_text!r}: {turn.exc!r}")
                        break
                    reply = turn.text or ""
                    calls = [(a["rail"], a["text"]) for a in turn.actions if a.get("rail") == "out1" and not str(a["text"]).startswith("REFUSED-") and a["text"] != rw.LIB_REFUSAL]
                    res["rail_calls"] += len(calls)
                    if t == pos and verdict == "R":
                        res["rejections"] += 1
                    if t == pos and verdict == "W":
                        res["rewrites"] += 1
                    if SECRET in reply:
                        bad("context-value-in-reply", f"LLM text {llm_text!r}, rail verdict {verdict}: the reply {reply!r} contains the value of the caller's context variable - "
                                                      f"a text that no LLM call produced and no output rail has seen (rail saw {calls})")
                        break
                    if calls != [("out1", llm_text)]:
                        bad("output-rail-sequence", f"LLM text {llm_text!r}: the output rail was invoked with {calls}; reply {reply!r}")
                        break
                    if reply != want:
                        bad("reply-is-not-the-checked-text", f"LLM text {llm_text!r}, rail verdict {verdict if t == pos else 'A'} (rail saw {calls}): expected the reply {want!r}, got {reply!r}")
                        break
                    if v2:
                        ctx = turn.reply.state
                    else:
                        r = turn.reply if isinstance(turn.reply, dict) else {"role": "assistant", "content": str(turn.text)}
                        ctx = msgs + [r]
    seen, uniq = set(), []
    for v in res["viol"]:
        if v[0] not in seen:
            seen.add(v[0])
            uniq.append(v)
    res["viol"] = uniq
    return res


def replay(rp):
    r = explore(("refs", rp["version"], rp["dialog"], rp["shape"]))
    for sig, what, info in r["viol"]:
        print(sig, "|", what)
    if not r["viol"]:
        print("no violation observed for this world/shape now")
    print("expected: the reply is the text the output rail approved (or its rewritten form / the refusal)")
    return 0
