"""C15, concurrent part (E2): overlapping generate_async calls on one shared LLMRails instance.

Tasks = 2 (quick) / 3 (thorough) generate_async calls, each with its own `options.llm_params`
(temperature) and its own conversation, on the virtual asyncio loop; every LLM call awaits an
explorer-owned future, so the explorer enumerates every arrival / completion order (and, with
granularity="iteration", arrivals between any two loop iterations).
Oracle: (a) every LLM call runs with the parameters of the request it belongs to, (b) reply and
prompts of every request equal the isolated run, (c) when no request is in flight the LLM object's
parameters are the configured ones.
"""
from __future__ import annotations

import time

from vf.engines import aio
from vf.engines.world import World
from vf.props import railsworld as rw

import contextvars

REQ = contextvars.ContextVar("verif_request_label", default="?")

CONFIGURED_T = 0.5
TEMPS = [0.9, 0.1, 0.7]

_WORLDS = {}


STREAMING = [False]     # set per task: every request brings its own StreamingHandler
TEMP_SETS = {"distinct": [0.9, 0.1, 0.7], "equal": [0.2, 0.2, 0.2], "two-equal": [0.2, 0.9, 0.2], "kwarg": [0.3, 0.6, 0.8]}
PARAM = ["temperature"]   # "kwarg": the requests set `top_p`, which the LLM object only knows through its model_kwargs


def get_world(dialog):
    key = (dialog, STREAMING[0])
    w = _WORLDS.get(key)
    if w is None:
        y = "rails:\n  dialog:\n    single_call:\n      enabled: False\n" + ("streaming: True\n" if STREAMING[0] else "")
        w = World(rw.V1_DIALOG if dialog else "", y)
        w.llm.streaming = STREAMING[0]
        _WORLDS[key] = w
    return w


async def _serve(w, k, chunks_out):
    """one request; with STREAMING the caller's handler is consumed by a task of its own, like a streaming client"""
    kw = dict(messages=[{"role": "user", "content": f"UQ{k}Q hello"}], options={"llm_params": {PARAM[0]: TEMPS[k]}})
    if not STREAMING[0]:
        return await w.rails.generate_async(**kw)
    import asyncio

    from nemoguardrails.streaming import StreamingHandler

    h = StreamingHandler()
    got = chunks_out.setdefault(k, [])

    async def consume():
        async for c in h:
            got.append(c)

    t = asyncio.ensure_future(consume())
    res = await w.rails.generate_async(streaming_handler=h, **kw)
    await t
    return res


def reset(w):
    w.llm.calls.clear()
    w.action_log.clear()
    w.llm.temperature = CONFIGURED_T
    w.llm.model_kwargs = {}
    w.rails.events_history_cache.clear()
    w._seq = 0


def answer_for(task, prompt):
    t = str(task)
    d = rw.digest(prompt)
    if "generate_user_intent" in t:
        return "  ask"
    if "generate_next_step" in t:
        return "  bot inform capabilities"
    if "generate_bot_message" in t:
        return f'  "R{d} said {d[:2]}"'
    return f"R{d} said {d[:2]}"


def make_factory(dialog, n_tasks):
    def make(env):
        w = get_world(dialog)
        reset(w)
        owner = {}  # llm call index -> request label
        chunks = {}  # request -> streamed chunks received by its own handler

        def responder(task, prompt, i):
            # which request does this call belong to?  the user text carries the request label
            label = REQ.get()  # request tasks carry their label in a context variable
            owner[i] = label
            fut = env.external(f"llm{i}:{label}", result=answer_for(task, prompt))
            return fut

        w.llm_fn = responder
        for k in range(n_tasks):
            async def request(k=k):
                REQ.set(f"req{k}")
                return await _serve(w, k, chunks)
            env.arrival(f"req{k}", request)
        return {"w": w, "owner": owner, "chunks": chunks}
    return make


def isolated_reference(dialog, n_tasks):
    """each request alone on the (reset) instance, default schedule"""
    ref = {}
    for k in range(n_tasks):
        def make(env, k=k):
            w = get_world(dialog)
            reset(w)

            def responder(task, prompt, i):
                return env.external(f"llm{i}", result=answer_for(task, prompt))
            w.llm_fn = responder
            chunks = {}
            env.arrival(f"req{k}", lambda: _serve(w, k, chunks))
            return {"w": w, "chunks": chunks}
        env, world = _run_default(make)
        w = world["w"]
        res = env.results.get(f"req{k}")
        ref[k] = (_text(res), tuple(c["prompt"] for c in w.llm.calls), tuple((str(c["task"]), c["temperature"]) for c in w.llm.calls),
                  list(world["chunks"].get(k, [])))
        env.close()
    return ref


def _run_default(make):
    """run one execution always taking the first enabled choice"""
    env = aio.Env(granularity="quiescence")
    world = make(env)
    env.settle()
    n = 0
    while env.enabled() and n < 500:
        env.take(env.enabled()[0])
        env.settle()
        n += 1
    return env, world


def _text(res):
    if res is None:
        return None
    r = res
    if isinstance(r, tuple) and r and r[0] in ("ok", "exc", "cancelled"):
        if r[0] != "ok":
            return "<" + repr(r) + ">"
        r = r[1]
    if hasattr(r, "response"):
        r = r.response
        if isinstance(r, list) and r:
            r = r[-1]
    if isinstance(r, dict):
        return r.get("content")
    return repr(r)


def explore(task):
    dialog, n_tasks, granularity, max_dev, budget_s = task[:5]
    STREAMING[0] = bool(task[5]) if len(task) > 5 else False
    TEMPS[:] = TEMP_SETS[task[6] if len(task) > 6 else "distinct"]
    PARAM[0] = "top_p" if (len(task) > 6 and task[6] == "kwarg") else "temperature"
    res = {"executions": 0, "states": 0, "transitions": 0, "validated": 0, "overlapping_executions": 0,
           "distinct_outcomes": set(), "viol": [], "complete": True, "bound_pruned": 0}
    ref = isolated_reference(dialog, n_tasks)
    info0 = {"engine": "E2-aio", "prop": "C15", "dialog": dialog, "n_tasks": n_tasks, "granularity": granularity, "streaming": STREAMING[0],
             "temps": task[6] if len(task) > 6 else "distinct"}
    if STREAMING[0] and any(not ref[k][3] for k in ref):
        res["viol"].append(("harness:isolated-streaming-run-received-no-chunks", repr({k: ref[k] for k in ref})[:600], info0))
        res["distinct_outcomes"] = 0
        return res

    def on_execution(env, world, info):
        w = world["w"]
        res["executions"] += 1
        trace = list(info["trace"])
        rp = dict(info0, trace=[list(t) if isinstance(t, tuple) else t for t in trace])

        def bad(sig, what):
            if not any(v[0] == sig for v in res["viol"]):
                res["viol"].append((sig, what + f" | schedule {trace}", rp))

        if info["outcome"] != "done":
            bad(f"not-completed:{info['outcome']}", f"execution ended as {info['outcome']}; unfinished {env.unfinished()}")
            return
        # overlap: a request arrived while another request's LLM call was still pending
        pending, overlap = set(), False
        for t in trace:
            if t[0] == "start":
                if pending:
                    overlap = True
                pending.add(t[1])
            elif t[0] == "ext":
                owner_label = str(t[1]).split(":")[-1]
                # the request may issue further calls; it stays pending until its result is in
        started = [t[1] for t in trace if t[0] == "start"]
        first_ext = next((i for i, t in enumerate(trace) if t[0] == "ext"), len(trace))
        overlap = sum(1 for i, t in enumerate(trace) if t[0] == "start" and i < first_ext) >= 2 or overlap and False
        if not overlap:
            # a later arrival between two completions of an earlier multi-call request
            seen_ext = False
            for t in trace:
                if t[0] == "ext":
                    seen_ext = True
                if t[0] == "start" and seen_ext and len(env.results) and any(
                        trace.index(("start", r)) < trace.index(t) for r in started if r != t[1]):
                    last_of_other = max((i for i, x in enumerate(trace) if x[0] == "ext" and str(x[1]).endswith(":" + started[0])), default=-1)
                    if trace.index(t) < last_of_other:
                        overlap = True
        if overlap:
            res["overlapping_executions"] += 1
        # (a) parameters at call time
        for c in w.llm.calls:
            label = world["owner"].get(c["i"], "?")
            if not label.startswith("req"):
                continue
            k = int(label[3:])
            t = str(c["task"])
            want = TEMPS[k] if ("general" in t or "generate_bot_message" in t) else None
            had = c["temperature"] if PARAM[0] == "temperature" else c["model_kwargs"].get("top_p")
            if want is not None and had != want:
                bad("llm_params:call-ran-with-another-requests-parameters",
                    f"LLM call {c['i']} ({t}) of {label} ran with {PARAM[0]} {had}, requested {want}")
        # (b) replies and prompts vs isolated
        outcome = []
        for k in range(n_tasks):
            got_text = _text(env.results.get(f"req{k}"))
            mine = tuple(c["prompt"] for c in w.llm.calls if world["owner"].get(c["i"]) == f"req{k}")
            outcome.append(got_text)
            if got_text != ref[k][0] or mine != ref[k][1]:
                bad("cross-request-influence", f"req{k}: reply {got_text!r} vs isolated {ref[k][0]!r}; prompts equal: {mine == ref[k][1]}")
            if STREAMING[0]:
                res["streamed_chunks_checked"] = res.get("streamed_chunks_checked", 0) + len(world["chunks"].get(k, []))
                if world["chunks"].get(k, []) != ref[k][3]:
                    bad("streaming:chunks-differ-from-isolated-run",
                        f"req{k}: its streaming handler received {world['chunks'].get(k)!r}, alone {ref[k][3]!r}")
        # (c) parameters at rest
        leftover = {k: v for k, v in (w.llm.model_kwargs or {}).items() if v is not None}
        if w.llm.temperature != CONFIGURED_T or leftover:
            # one LLM call per request (no dialog rails): were the parameter blocks of the requests properly nested,
            # i.e. did the requests finish in the reverse order of their LLM calls' starts?  Then plain save/restore
            # around the call is enough and the configured value must be back.
            nested = False
            if not dialog and granularity == "quiescence":
                # bracket sequence: a request opens when it arrives and closes when its LLM call is answered (with
                # quiescence granularity everything a choice enables has run before the next choice is taken)
                open_, nested = [], True
                for t in trace:
                    if t[0] == "start":
                        open_.append(t[1])
                    elif t[0] == "ext":
                        lab = str(t[1]).split(":")[-1]
                        if not open_ or open_[-1] != lab:
                            nested = False
                            break
                        open_.pop()
            if nested:
                bad("llm_params:not-restored-after-properly-nested-requests",
                    f"all requests finished (their LLM calls properly nested) but llm.temperature is {w.llm.temperature} (configured {CONFIGURED_T}), model_kwargs {w.llm.model_kwargs}")
            else:
                bad("llm_params:not-restored-after-overlapping-requests",
                    f"all requests finished but llm.temperature is {w.llm.temperature} (configured {CONFIGURED_T}), model_kwargs {w.llm.model_kwargs}")
        if w.llm.model_kwargs and not leftover:
            bad("llm_params:model-kwargs-key-left-behind-as-none",
                f"no request in flight, model_kwargs = {w.llm.model_kwargs} (configured: empty); later calls carry the extra key")
        res["distinct_outcomes"].add((tuple(outcome), w.llm.temperature))

    def observe(env, world):
        w = world["w"]
        return (tuple(sorted((k, _text(v)) for k, v in env.results.items())), tuple((c["i"], c["temperature"]) for c in w.llm.calls), w.llm.temperature)

    ex = aio.Explorer(make_factory(dialog, n_tasks), on_execution, observe=observe, max_choices=400,
                      max_deviations=max_dev, validate_mod=5, deadline=time.time() + budget_s, granularity=granularity)
    st = ex.run()
    res["states"] = st["states"]
    res["transitions"] = st["transitions"]
    res["validated"] = st["validated"]
    res["complete"] = st["complete"]
    res["bound_pruned"] = st["bound_pruned"]
    res["distinct_outcomes"] = len(res["distinct_outcomes"])
    return res


def run_part(rep, tier):
    from vf import par

    if tier == "quick":
        ts = [(False, 2, "quiescence", None, 60), (True, 2, "quiescence", None, 60), (False, 2, "iteration", 3, 60),
              (False, 2, "quiescence", None, 60, True), (True, 2, "quiescence", None, 60, True),
              (False, 2, "quiescence", None, 60, False, "equal"), (False, 3, "quiescence", 3, 60, False, "two-equal"),
              (False, 2, "quiescence", None, 60, False, "kwarg")]
    else:
        ts = [(False, 2, "quiescence", None, 300), (True, 2, "quiescence", None, 300), (False, 3, "quiescence", None, 600),
              (True, 3, "quiescence", 4, 600), (False, 2, "iteration", None, 600), (True, 2, "iteration", 4, 600),
              (False, 2, "quiescence", None, 300, True), (True, 2, "quiescence", None, 300, True), (False, 3, "quiescence", None, 600, True),
              (False, 2, "iteration", 3, 600, True),
              (False, 2, "quiescence", None, 300, False, "equal"), (False, 3, "quiescence", None, 600, False, "two-equal"), (False, 3, "quiescence", None, 600, False, "equal"),
              (False, 2, "quiescence", None, 300, False, "kwarg"), (True, 2, "quiescence", None, 300, False, "kwarg")]
    agg = {"executions": 0, "states": 0, "transitions": 0, "validated": 0, "overlapping_executions": 0, "distinct_outcomes": 0, "streamed_chunks_checked": 0}
    complete = True
    for r in par.pmap(explore, ts):
        for k in agg:
            agg[k] += r.get(k, 0)
        complete = complete and r["complete"]
        for sig, what, info in r["viol"]:
            rep.violation(sig, what, info)
    for k, v in agg.items():
        rep.set("conc_" + k, v)
    rep.set("conc_complete_within_bounds", complete)
    rep.set("conc_configs", [f"dialog={t[0]} tasks={t[1]} granularity={t[2]} max_deviations={t[3]} streaming={len(t) > 5 and t[5]} temperatures={t[6] if len(t) > 6 else 'distinct'}" for t in ts])
    return agg


def replay(rp):
    STREAMING[0] = bool(rp.get("streaming"))
    TEMPS[:] = TEMP_SETS[rp.get("temps", "distinct")]
    PARAM[0] = "top_p" if rp.get("temps") == "kwarg" else "temperature"
    make = make_factory(rp["dialog"], rp["n_tasks"])
    env = aio.Env(granularity=rp["granularity"])
    world = make(env)
    env.settle()
    for lab in rp["trace"]:
        lab = tuple(lab) if isinstance(lab, list) else lab
        if lab not in env.enabled():
            print("choice", lab, "not enabled; enabled:", env.enabled())
            break
        env.take(lab)
        env.settle()
        w = world["w"]
        print("take", lab, "-> llm.temperature =", w.llm.temperature, "| calls so far:", [(c["i"], c["temperature"]) for c in w.llm.calls])
    print("results:", {k: _text(v) for k, v in env.results.items()}, "final temperature:", world["w"].llm.temperature)
    print(rp["what"])
    return 0
