"""C10 - further families driven through the real `RuntimeV2_x.process_events` (helper module of c10.py).

Part E (error texts): the text of a ColangError is data - it quotes the faulty expression and the offending
value.  Programs with an error-reporting flow (the library's `warning of colang errors`, `debugging helpers`,
`notification of colang errors`, the `escape(...)` idioms of the test-suite) x the routes by which a text gets
into an error message (string literal of the faulty expression, value in `int(..)`, value interpolated into a
string expression, value as a missing key) x every text over an alphabet of special characters up to the
length bound.  Processing must terminate (step budget + error-cascade budget), nothing may escape, the
bystander reacts to the same and to the next event, the ColangError is observable.

Part V (verbose mode): the same literal route with the library's own `VerboseHandler` installed on the root
logger (what `LLMRails(verbose=True)` / `nemoguardrails chat --verbose` do), texts over an alphabet of
log-title / rich-markup tokens.

Part D (parameter defaults): a flow with a parameter default that raises when evaluated x how the flow is
started (activate / start / await; value given by name / position / not at all; activated twice with the same
/ another value) x how its instances end (finish, fail, `start_new_flow_instance:` label) x all histories up
to the length bound.  When every start provides the value the default is never needed: no exception may
leave run_to_completion when the flow is looked up again for its restart / second activation.
"""
from __future__ import annotations

import asyncio
import itertools
import logging
import os
import re
import signal
import warnings

from vf import seams
from vf.engines import v2x
from vf.engines.v2x import sm
from vf.props import c10 as base

ind = base.ind


# ----------------------------------------------------------------------------- cascade counting deque
class ErrorCascadeExceeded(BaseException):
    """BaseException so that the library's `except Exception` cannot swallow it."""


class ErrCountingDeque(seams.CountingDeque):
    """step budget of seams.CountingDeque + a count of the ColangError events taken from the internal queue"""
    errs = 0
    err_budget = None
    sizes: list = []

    def popleft(self):
        ev = super().popleft()
        if getattr(ev, "name", None) == "ColangError":
            ErrCountingDeque.errs += 1
            try:
                ErrCountingDeque.sizes.append(len(str(ev.arguments.get("error", ""))))
            except Exception:
                pass
            sz = ErrCountingDeque.sizes
            if (ErrCountingDeque.err_budget is not None and ErrCountingDeque.errs > ErrCountingDeque.err_budget
                    and len(sz) >= 3 and sz[-1] > sz[-2] > sz[-3]):
                # (texts that do not grow are left to the step budget)
                raise ErrorCascadeExceeded(ErrCountingDeque.errs)
        return ev


class _Drive:
    """Feeds events, one process_events call each, to copies of one started state."""

    def __init__(self, rt, budget, err_budget=None):
        self.rt, self.budget, self.err_budget = rt, budget, err_budget
        self.loop = asyncio.new_event_loop()
        self.state0 = None
        self.uid0 = 0
        self.start_out = None

    def _call(self, evs, state):
        seams.CountingDeque.pops = 0
        seams.CountingDeque.budget = self.budget
        ErrCountingDeque.errs = 0
        ErrCountingDeque.sizes = []
        ErrCountingDeque.err_budget = self.err_budget
        old = sm.deque
        sm.deque = ErrCountingDeque
        try:
            signal.signal(signal.SIGALRM, base._alarm)
            signal.alarm(30)
            return self.loop.run_until_complete(self.rt.process_events(evs, state))
        except BaseException:
            # the loop may be left in the middle of a coroutine
            try:
                self.loop.close()
            except Exception:
                pass
            self.loop = asyncio.new_event_loop()
            raise
        finally:
            signal.alarm(0)
            sm.deque = old
            seams.CountingDeque.budget = None
            ErrCountingDeque.err_budget = None

    def start(self):
        v2x.UIDS.n = 0
        v2x.CHOICE.begin([])
        out, st = self._call([], None)
        self.state0, self.uid0, self.start_out = st, v2x.UIDS.n, out
        return out

    def run(self, events):
        """-> list (one per event) of lists of output event dicts; raises what process_events raises"""
        st = v2x.copy_state(self.state0)
        v2x.UIDS.n = self.uid0
        v2x.CHOICE.begin([])
        outs, errs = [], []
        for ev in events:
            out, st = self._call([dict(ev)], st)
            outs.append(out)
            errs.append(ErrCountingDeque.errs)
        return outs, errs, st

    def close(self):
        try:
            self.loop.close()
        except Exception:
            pass


def _uniq(viol):
    seen, out = set(), []
    for v in viol:
        if v[0] not in seen:
            seen.add(v[0])
            out.append(v)
    return out


def _n_elements(rt, src, extra=()):
    """compiled elements of the flows written in the program text (+ the named library flows)"""
    ids = set(m.group(1).strip() for m in re.finditer(r"^flow ([^$\n]+?)(?: \$.*)?$", src, re.M)) | set(extra)
    return sum(len(c.elements) for fid, c in rt.flow_configs.items() if fid in ids), len(ids)


def _colang_error_listeners(state):
    n = 0
    for fs in state.flow_states.values():
        if not sm.is_listening_flow(fs):
            continue
        cfg = state.flow_configs[fs.flow_id]
        for h in fs.heads.values():
            if 0 <= h.position < len(cfg.elements) and "ColangError" in str(cfg.elements[h.position]):
                n += 1
                break
    return n


# ----------------------------------------------------------------------------- part E
REPORTERS = {
    # name: (needs `import core`, flow definitions, statements of main, library flows taking part)
    "library:warning-of-colang-errors": (True, "", ["activate warning of colang errors"], ["warning of colang errors"]),
    "library:debugging-helpers": (True, "", ["activate debugging helpers"],
                                  ["debugging helpers", "warning of colang errors", "warning of undefined flow start"]),
    "library:notification-of-colang-errors": (True, "", ["activate notification of colang errors"],
                                              ["notification of colang errors", "bot say", "_bot_say", "await_flow_by_name"]),
    "idiom:escape-in-event-argument": (False, 'flow reporter\n  match ColangError() as $event\n'
                                       '  send Report(text="Warning: {$event.type} - {escape($event.error)}")\n', ["activate reporter"], []),
    "idiom:escape-assigned": (False, 'flow reporter\n  match ColangError() as $event\n  $t = escape($event.error)\n'
                              '  send Report(text=$t)\n', ["activate reporter"], []),
    "idiom:escape-in-log": (False, 'flow reporter\n  match ColangError() as $event\n  log "E: {escape($event.error)}"\n'
                            '  send Report(text="logged")\n', ["activate reporter"], []),
}
VALUE_ROUTES = {
    "value-in-int": "$x = int($e.p)",
    "value-interpolated-into-string-expression": '$x = "{$e.p}" + 1',
    "value-as-missing-key": '$x = {"k": 1}[$e.p]',
}
# characters of the value texts / source tokens of the string literals
E_ALPHABET = {"quick": ["\\", '"', "'", "{", "}"], "thorough": ["\\", '"', "'", "{", "}", "a", "$"]}
E_CONTROL_TEXTS = ["a", "plain text"]   # (texts without any special character, every tier)
QUICK_REPORTERS = ["library:warning-of-colang-errors", "library:debugging-helpers", "idiom:escape-in-event-argument", "idiom:escape-assigned"]
E_LEN = {"quick": 3, "thorough": 4}
LIT_TOKENS = {"quick": ['\\"', "\\'", "'", "{{", "}}", "\\\\", "a"], "thorough": ['\\"', "\\'", "'", "{{", "}}", "\\\\", "a", "$", "{", "\\n"]}
LIT_LEN = {"quick": 2, "thorough": 2}

_E_BY = ('@loop("by")\nflow bystander\n  match FVal() or FLit()\n  send By1()\n\n'
         '@loop("by2")\nflow bystander2\n  match Later()\n  send By2()\n')
_E_WATCH = '@loop("watch")\nflow errwatch\n  match ColangError() as $ev\n  send ErrSeen(t=$ev.error)\n'


def _texts(alpha, maxlen):
    return ["".join(t) for n in range(1, maxlen + 1) for t in itertools.product(alpha, repeat=n)]


def _literal_ok(lit):
    """is `"<lit>"` accepted by the Colang parser as a string literal of an expression?"""
    src = 'flow main\n  $x = "%s" + 1\n  match Never()\n' % lit
    try:
        base._runtime(src)
        return True
    except Exception:
        return False


LITERAL_ROUTE = "string-literal-of-the-faulty-expression"


def e_program(reporter, route, literals=()):
    core, defs, main_stmts, _lib = REPORTERS[reporter]
    flows, acts = [], []
    if route in VALUE_ROUTES:
        flows.append(f"flow f_{route.replace('-', '_')}\n  match FVal(route=\"{route}\") as $e\n  {VALUE_ROUTES[route]}\n  send NotReached()\n")
        acts.append(f"activate f_{route.replace('-', '_')}")
    else:
        for k, lit in enumerate(literals):
            flows.append(f"flow f_lit_{k}\n  match FLit(k={k})\n  $x = \"{lit}\" + 1\n  send NotReached()\n")
            acts.append(f"activate f_lit_{k}")
    main = "flow main\n" + ind(main_stmts + ["activate errwatch", "activate bystander", "activate bystander2"] + acts + ["match Never()"])
    return ("import core\n\n" if core else "") + "\n".join(flows) + "\n" + defs + "\n" + _E_BY + "\n" + _E_WATCH + "\n" + main


HUNG = "hung"


def _judge_case(res, drive, events, family, sig_tail, what_head, info, budget, want_by=("By1", "By2"), expect_error=True):
    """one history [faulty event, Later]; returns the outputs (or None)"""
    res["histories"] += 1
    res["events"] += len(events)
    try:
        outs, errs, _st = drive.run(events)
    except ErrorCascadeExceeded:
        res["viol"].append((f"non-termination:{family}:{sig_tail}",
                            f"{what_head}: more than {drive.err_budget} ColangError events were processed within one process_events call "
                            f"(error-cascade budget; lengths of their texts {ErrCountingDeque.sizes[:14]}) - each report of an error fails "
                            f"and is reported again", info))
        return None
    except (seams.StepBudgetExceeded, base.WallClockExceeded) as e:
        res["viol"].append((f"non-termination:{family}:{sig_tail}",
                            f"{what_head}: one run_to_completion exceeded the step budget {budget}: {type(e).__name__} {e}", info))
        if isinstance(e, base.WallClockExceeded):
            res["stopped_early"] = 1   # (the remaining cases of this program are not run)
            return HUNG
        return None
    except Exception as e:
        res["viol"].append((f"exception-escapes-process_events:{family}:{sig_tail}", f"{what_head}: {type(e).__name__}: {str(e)[:300]}", info))
        return None
    types = [[o["type"] for o in step] for step in outs]
    for i, wb in enumerate(want_by):
        got = [t for t in types[i] if t.startswith("By")]
        if got != [wb]:
            res["viol"].append((f"bystander-disturbed:{family}:{sig_tail}",
                                f"{what_head}: on event #{i + 1} {events[i]['type']} the unrelated flow emitted {got}, expected {[wb]}; outputs {types}", info))
            return None
        res["bystander_reactions"] += 1
    if any("NotReached" in t for t in types):
        res["viol"].append((f"victim-continued-after-fault:{family}:{sig_tail}", f"{what_head}: NotReached emitted; outputs {types}", info))
    if expect_error:
        n_err = types[0].count("ErrSeen")
        if n_err == 0:
            res["viol"].append((f"colang-error-not-reported:{family}:{sig_tail}",
                                f"{what_head}: the faulty statement was reached but no ColangError was observable; outputs {types}", info))
        else:
            res["fault_reached"] += 1
            if n_err > 1:
                res["secondary_errors"] += n_err - 1
        if "ErrSeen" in types[1]:
            res["viol"].append((f"colang-error-without-fault:{family}:{sig_tail}", f"{what_head}: ErrSeen on the later event; outputs {types}", info))
    return outs


def e_task(task):
    with warnings.catch_warnings():
        warnings.simplefilter("ignore")  # (SyntaxWarning "invalid escape sequence" of the expressions under test)
        return _e_task(task)


def _e_task(task):
    reporter, route, tier = task
    res = {"programs": 1, "histories": 0, "events": 0, "fault_reached": 0, "bystander_reactions": 0, "secondary_errors": 0,
           "texts_found_in_error_text": 0, "reporter_reactions": 0, "literals_rejected_by_parser": 0, "stopped_early": 0, "viol": []}
    lits = []
    if route == LITERAL_ROUTE:
        lits_all = _texts(LIT_TOKENS[tier], LIT_LEN[tier])
        lits = [l for l in lits_all if _literal_ok(l)]
        res["literals_rejected_by_parser"] = len(lits_all) - len(lits)
    src = e_program(reporter, route, lits)
    fam = "error-text-with-special-characters"
    info0 = {"engine": "C10-M", "prop": "C10", "source": src, "family": fam, "reporter": reporter}
    try:
        rt = base._runtime(src)
    except Exception as e:
        res["viol"].append((f"harness:program-rejected:{fam}:{reporter}", repr(e)[:300], info0))
        return res
    n_el, _n_fl = _n_elements(rt, src, REPORTERS[reporter][3])
    budget = 50 * (n_el + 10)
    drive = _Drive(rt, budget)
    try:
        try:
            drive.start()
        except BaseException as e:
            if isinstance(e, (KeyboardInterrupt, SystemExit)):
                raise
            res["viol"].append((f"harness:start-failed:{fam}:{reporter}", repr(e)[:300], info0))
            return res
        drive.err_budget = 2 + 2 * _colang_error_listeners(drive.state0)
        info0 = dict(info0, budget=budget, err_budget=drive.err_budget)
        cases = []
        if route in VALUE_ROUTES:
            for t in E_CONTROL_TEXTS + _texts(E_ALPHABET[tier], E_LEN[tier]):
                cases.append((route, t, {"type": "FVal", "route": route, "p": t}))
        for k, lit in enumerate(lits):
            cases.append((LITERAL_ROUTE, lit, {"type": "FLit", "k": k}))
        salt = seams.SEED % 3
        if salt:  # the order of the cases must not matter (every case starts from a copy of the started state)
            cases = cases[::-1] if salt == 1 else cases[len(cases) // 2:] + cases[:len(cases) // 2]
        for route, text, ev in cases:
            events = [ev, {"type": "Later"}]
            info = dict(info0, events=events, route=route, text=text)
            outs = _judge_case(res, drive, events, fam, f"{reporter}:{route}",
                               f"reporter {reporter}, error text via {route}, text {text!r}", info, budget)
            if outs is HUNG:
                break
            if outs is None:
                continue
            seen = [o.get("t", "") for o in outs[0] if o["type"] == "ErrSeen"]
            if route != LITERAL_ROUTE and seen and (text in seen[0] or repr(text)[1:-1] in seen[0]):
                res["texts_found_in_error_text"] += 1
            res["reporter_reactions"] += sum(1 for o in outs[0] if o["type"] in ("Report", "StartUtteranceBotAction"))
    finally:
        drive.close()
    res["viol"] = _uniq(res["viol"])
    return res


# ----------------------------------------------------------------------------- part V
V_TOKENS = {"quick": [" :: ", "[/a]", "[a]", "[", "a"], "thorough": [" :: ", "[/a]", "[a]", "[", "]", "[/]", "a"]}
V_LEN = {"quick": 2, "thorough": 3}
V_REPORTERS = ["none", "library:warning-of-colang-errors"]


def v_program(reporter, literals):
    core, defs, main_stmts = (False, "", []) if reporter == "none" else REPORTERS[reporter][:3]
    flows = [f"flow f_lit_{k}\n  match FLit(k={k})\n  $x = \"{lit}\" + 1\n  send NotReached()\n" for k, lit in enumerate(literals)]
    acts = [f"activate f_lit_{k}" for k in range(len(literals))]
    main = "flow main\n" + ind(main_stmts + ["activate errwatch", "activate bystander", "activate bystander2"] + acts + ["match Never()"])
    # (the error watcher does not copy the text into its own event: outgoing events are logged, too)
    return ("import core\n\n" if core else "") + "\n".join(flows) + "\n" + defs + "\n" + _E_BY + "\n" + _D_WATCH + "\n" + main


class _VerboseMode:
    """the library's verbose handler on the root logger, as `set_verbose(True)` installs it; console output discarded"""

    def __enter__(self):
        from nemoguardrails.logging.simplify_formatter import SimplifyFormatter
        from nemoguardrails.logging.verbose import VerboseHandler
        import nemoguardrails.utils as nu

        self.root = logging.getLogger()
        self.level = self.root.level
        self.disabled = self.root.manager.disable
        self.h = VerboseHandler()
        self.h.setLevel(logging.INFO)
        self.h.setFormatter(SimplifyFormatter())
        self.devnull = open(os.devnull, "w")
        self.console, self.old_file = nu.console, nu.console.file
        nu.console.file = self.devnull
        self.root.addHandler(self.h)
        if self.root.level > logging.INFO or self.root.level == logging.NOTSET:
            self.root.setLevel(logging.INFO)
        logging.disable(logging.NOTSET)
        return self

    def __exit__(self, *a):
        logging.disable(self.disabled)
        self.root.removeHandler(self.h)
        self.root.setLevel(self.level)
        self.console.file = self.old_file
        self.devnull.close()
        return False


V_GROUPS = {"quick": 3, "thorough": 16}   # the literals are spread over that many programs per reporter


def v_task(task):
    with warnings.catch_warnings():
        warnings.simplefilter("ignore")
        return _v_task(task)


def _v_task(task):
    reporter, group, tier = task
    res = {"programs": 1, "histories": 0, "events": 0, "fault_reached": 0, "bystander_reactions": 0, "secondary_errors": 0,
           "literals_rejected_by_parser": 0, "handler_records": 0, "stopped_early": 0, "viol": []}
    lits_all = _texts(V_TOKENS[tier], V_LEN[tier])[group::V_GROUPS[tier]]
    lits = [l for l in lits_all if _literal_ok(l)]
    res["literals_rejected_by_parser"] = len(lits_all) - len(lits)
    src = v_program(reporter, lits)
    fam = "verbose-mode-error-text-with-log-markup"
    info0 = {"engine": "C10-M", "prop": "C10", "source": src, "family": fam, "reporter": reporter, "verbose": True}
    try:
        rt = base._runtime(src)
    except Exception as e:
        res["viol"].append((f"harness:program-rejected:{fam}:{reporter}", repr(e)[:300], info0))
        return res
    n_el, _n = _n_elements(rt, src, REPORTERS[reporter][3] if reporter != "none" else ())
    budget = 50 * (n_el + 10)
    drive = _Drive(rt, budget)
    try:
        with _VerboseMode() as vm:
            emitted = [0]
            orig_emit = vm.h.emit

            def counting_emit(record):
                emitted[0] += 1
                return orig_emit(record)

            vm.h.emit = counting_emit
            try:
                drive.start()
            except BaseException as e:
                if isinstance(e, (KeyboardInterrupt, SystemExit)):
                    raise
                res["viol"].append((f"harness:start-failed:{fam}:{reporter}", repr(e)[:300], info0))
                return res
            drive.err_budget = 2 + 2 * _colang_error_listeners(drive.state0)
            info0 = dict(info0, budget=budget, err_budget=drive.err_budget)
            cases = list(enumerate(lits))
            if seams.SEED % 2:
                cases.reverse()
            for k, lit in cases:
                events = [{"type": "FLit", "k": k}, {"type": "Later"}]
                info = dict(info0, events=events, text=lit)
                if _judge_case(res, drive, events, fam, f"reporter={reporter}",
                               f"verbose mode, reporter {reporter}, faulty expression \"{lit}\" + 1", info, budget) is HUNG:
                    break
            res["handler_records"] = emitted[0]
    finally:
        drive.close()
    res["viol"] = _uniq(res["viol"])
    return res


# ----------------------------------------------------------------------------- part D
BAD_DEFAULTS = {"div-zero": "1/0", "len-of-undefined": "len($nolimits)", "unknown-function": "nofunc(1)", "str-plus-int": '"a" + 1'}
D_BODIES = {
    "finishes": ["match E1()", "send Report(limit=$limit)"],
    "fails": ["match E1()", "send Report(limit=$limit)", "abort"],
    "label": ["match E1()", "start_new_flow_instance:", "send Report(limit=$limit)", "match E2()"],
}
# how the flow is started: (statements of the launcher, does some start rely on the default?)
D_STARTS = {
    "activate-named": (["activate mon $limit=3"], False),
    "activate-positional": (["activate mon {POS}3"], False),
    "activate-twice-same-value": (["activate mon $limit=3", "activate mon $limit=3"], False),
    "activate-twice-other-value": (["activate mon $limit=3", "activate mon $limit=4"], False),
    "activate-named-and-positional": (["activate mon $limit=3", "activate mon {POS}3"], False),
    "start-named": (["start mon $limit=3"], False),
    "await-named": (["await mon $limit=3"], False),
    "activate-default": (["activate mon"], True),
    "start-default": (["start mon"], True),
    "await-default": (["await mon"], True),
    "activate-named-then-default": (["activate mon $limit=3", "activate mon"], True),
}
D_HEADERS = {"one-parameter": ("flow mon $limit={D}", ""), "second-parameter": ("flow mon $a=1 $limit={D}", "1 ")}
_D_BY = ('@loop("by")\nflow bystander\n  match E1()\n  send By1()\n\n@loop("by2")\nflow bystander2\n  match E2()\n  send By2()\n')
_D_WATCH = '@loop("watch")\nflow errwatch\n  match ColangError()\n  send ErrSeen()\n'


def d_program(default, body, start, header):
    hdr, pos = D_HEADERS[header]
    mon = hdr.replace("{D}", BAD_DEFAULTS[default]) + "\n" + ind(D_BODIES[body])
    stmts = [s.replace("{POS}", pos) for s in D_STARTS[start][0]]
    launcher = "flow launcher\n" + ind(stmts + ["send Launched()", "match Never()"])
    main = ("flow main\n  activate errwatch\n  activate bystander\n  activate bystander2\n  when launcher\n    send L1()\n  else\n    send L2()\n"
            "  match Never()\n")
    return "\n".join([mon, launcher, _D_BY, _D_WATCH, main])


def d_task(task):
    default, body, start, header, maxlen = task
    src = d_program(default, body, start, header)
    needs_default = D_STARTS[start][1]
    fam = "faulty-parameter-default"
    tail = f"{start}:{body}:{header}:{default}"
    res = {"programs": 1, "histories": 0, "events": 0, "fault_reached": 0, "bystander_reactions": 0, "victim_reactions": 0,
           "errors_although_value_given": 0, "histories_with_restart_of_the_flow": 0, "stopped_early": 0, "viol": []}
    info0 = {"engine": "C10-M", "prop": "C10", "source": src, "family": fam, "case": tail}
    try:
        rt = base._runtime(src)
    except Exception as e:
        res["viol"].append((f"harness:program-rejected:{fam}:{tail}", repr(e)[:300], info0))
        return res
    n_el, _n = _n_elements(rt, src)
    budget = 50 * (n_el + 10)
    drive = _Drive(rt, budget)
    what0 = (f"`{D_HEADERS[header][0].replace('{D}', BAD_DEFAULTS[default])}` ({body}), started by "
             f"{[x.replace('{POS}', D_HEADERS[header][1]) for x in D_STARTS[start][0]]}")
    try:
        try:
            out0 = drive.start()
        except (seams.StepBudgetExceeded, base.WallClockExceeded) as e:
            res["viol"].append((f"non-termination:{fam}:{tail}", f"{what0}: starting main exceeded the step budget {budget}: {type(e).__name__}", dict(info0, events=[])))
            return res
        except Exception as e:
            res["viol"].append((f"exception-escapes-process_events:{fam}:{tail}", f"{what0}: starting main: {type(e).__name__}: {e}", dict(info0, events=[])))
            return res
        t0 = [o["type"] for o in out0]
        if needs_default:
            # the default is needed when the launcher runs: the fault is reached at the start
            if "ErrSeen" in t0:
                res["fault_reached"] += 1
            else:
                res["viol"].append((f"colang-error-not-reported:{fam}:{tail}",
                                    f"{what0}: the faulty default is needed at the start but no ColangError was observable; outputs {t0}", dict(info0, events=[])))
        elif "ErrSeen" in t0:
            res["errors_although_value_given"] += 1
            res["viol"].append((f"colang-error-although-the-default-is-not-needed:{fam}:{start}:{header}",
                                f"{what0}: every start gives the parameter a value, yet a ColangError was reported at the start (the faulty default was evaluated); outputs {t0}", dict(info0, events=[])))
        alpha = ["E1", "E2", "X"]
        hists = [h for n in range(1, maxlen + 1) for h in itertools.product(alpha, repeat=n)]
        if seams.SEED % 2:
            hists.reverse()
        for hist in hists:
            events = [{"type": t} for t in hist]
            info = dict(info0, events=events)
            res["histories"] += 1
            res["events"] += len(events)
            try:
                outs, errs, _st = drive.run(events)
            except (seams.StepBudgetExceeded, base.WallClockExceeded) as e:
                res["viol"].append((f"non-termination:{fam}:{tail}", f"{what0}, history {list(hist)}: one run_to_completion exceeded the step budget {budget}: {type(e).__name__}", info))
                if isinstance(e, base.WallClockExceeded):
                    res["stopped_early"] = 1
                    break
                continue
            except Exception as e:
                res["viol"].append((f"exception-escapes-process_events:{fam}:{tail}", f"{what0}, history {list(hist)}: {type(e).__name__}: {e}", info))
                continue
            types = [[o["type"] for o in step] for step in outs]
            for i, t in enumerate(hist):
                want = {"E1": ["By1"], "E2": ["By2"], "X": []}[t]
                got = [x for x in types[i] if x.startswith("By")]
                if got != want:
                    res["viol"].append((f"bystander-disturbed:{fam}:{tail}",
                                        f"{what0}, history {list(hist)}: on event #{i + 1} {t} the unrelated flows emitted {got}, expected {want}; outputs {types}", info))
                    break
                res["bystander_reactions"] += len(want)
            else:
                res["victim_reactions"] += sum(t.count("Report") for t in types)
                if "E1" in hist:
                    res["histories_with_restart_of_the_flow"] += 1
                if not needs_default and any("ErrSeen" in t for t in types):
                    res["errors_although_value_given"] += 1
                    res["viol"].append((f"colang-error-although-the-default-is-not-needed:{fam}:{start}:{header}:later",
                                        f"{what0}, history {list(hist)}: every start gives the parameter a value, yet a ColangError was reported (the faulty default was evaluated); outputs {types}", info))
    finally:
        drive.close()
    res["viol"] = _uniq(res["viol"])
    return res


# ----------------------------------------------------------------------------- dispatcher / run
def more_task(task):
    kind, payload = task
    return kind, {"E": e_task, "V": v_task, "D": d_task}[kind](payload)


def _d_quick(default, body, start, header):
    if default == "div-zero":
        return header == "one-parameter" or body == "finishes"
    if default == "len-of-undefined":
        return header == "one-parameter" and body == "finishes"
    return header == "one-parameter" and body == "finishes" and start in ("activate-named", "activate-twice-same-value", "activate-default")


def more_task_indexed(t):
    kind, r = more_task(t[1])
    return t[0], kind, r


def more_tasks(tier):
    ts = [("E", (r, route, tier)) for r in (QUICK_REPORTERS if tier == "quick" else REPORTERS) for route in list(VALUE_ROUTES) + [LITERAL_ROUTE]]
    ts += [("V", (r, g, tier)) for r in V_REPORTERS for g in range(V_GROUPS[tier])]
    maxlen = 3 if tier == "quick" else 4
    for default, body, start, header in itertools.product(BAD_DEFAULTS, D_BODIES, D_STARTS, D_HEADERS):
        if tier == "quick" and not _d_quick(default, body, start, header):
            continue  # (the full product goes through the thorough tier)
        ts.append(("D", (default, body, start, header, maxlen)))
    return ts


def run_more(rep, tier, par):
    agg = {}
    ts = more_tasks(tier)
    results = sorted(par.pmap(more_task_indexed, list(enumerate(ts))), key=lambda x: x[0])   # (report in the order of the tasks)
    for _i, kind, r in results:
        for sig, what, info in r.pop("viol"):
            rep.violation(sig, what, info)
        a = agg.setdefault(kind, {})
        for k, v in r.items():
            a[k] = a.get(k, 0) + v
    stopped = sum(a.get("stopped_early", 0) for a in agg.values())
    if stopped:
        rep.set("exhaustive", False)
        rep.set("cap_hit", f"parts E/V/D: {stopped} program(s) ran into the 30 s wall-clock back-stop; their remaining cases were not run "
                           f"(every other program was enumerated completely)")
    names = {"E": "error_text_", "V": "verbose_mode_", "D": "param_default_"}
    for kind, a in agg.items():
        for k, v in a.items():
            rep.set(names[kind] + k, v)
    rep.set("error_text_alphabet", E_ALPHABET[tier])
    rep.set("error_text_reporters", QUICK_REPORTERS if tier == "quick" else list(REPORTERS))
    rep.set("error_text_max_len", E_LEN[tier])
    rep.assumptions.append(
        "families E/V (error texts): error-cascade budget per process_events call = 2 + 2 x (flow instances waiting for ColangError) "
        "ColangError events taken from the internal queue, besides the step budget (texts that grow with every round would exhaust "
        "memory long before the step budget)")
    rep.assumptions.append(
        "family V: the library's VerboseHandler (SimplifyFormatter, level INFO) is installed on the root logger as set_verbose(True) "
        "does, its rich console writes to os.devnull")
    return agg


def replay(rp):
    print(rp["source"])
    rt = base._runtime(rp["source"])
    drive = _Drive(rt, 200000, 40)

    def go():
        try:
            print("<start> ->", [o["type"] for o in drive.start()])
            st = drive.state0
            for ev in rp.get("events", []):
                out, st = drive._call([dict(ev)], st)
                print(ev, "->", [(o["type"], o.get("t")) if o["type"] == "ErrSeen" and "t" in o else o["type"] for o in out],
                      "| ColangError events processed:", ErrCountingDeque.errs)
        except ErrorCascadeExceeded as e:
            print("more than 40 ColangError events within one call; lengths of the error texts:", ErrCountingDeque.sizes)
        except seams.StepBudgetExceeded as e:
            print("step budget (200000 internal events) exceeded:", e)
        except Exception as e:
            print("raised", repr(e)[:500])

    if rp.get("verbose"):
        with _VerboseMode():
            go()
    else:
        go()
    drive.close()
    print("expected:", rp["what"])
    return 0
