"""C01, Colang 2.x worlds (guardrails library): see c01.py."""
from __future__ import annotations

import itertools

from vf.props import railsworld as rw


def outcomes(order):
    res = []

    def rec(i, acc):
        if i == len(order):
            res.append(tuple(acc))
            return
        res.append(tuple(acc + ["R"]))
        rec(i + 1, acc + ["A"])

    rec(0, [])
    return res


def llm_fn(task, prompt, i):
    return f'"LLMTEXT-{rw.digest(prompt)}"'


def reply_events(reply):
    r = getattr(reply, "response", None)
    if isinstance(r, list) and r:
        r = r[-1]
    if isinstance(r, dict):
        return r.get("events", []) or []
    return []


YAML_RAIL = '''
flow in1
  global $user_message
  $ok = await VerifRailAction(rail="in1", text=$user_message)
  if not $ok
    bot say "REFUSED-in1"
    abort
'''


def explore_yaml_world(task):
    """Colang 2.x with the input rail configured in config.yml (`rails.input.flows`, deprecated but supported: the
    loader generates `flow input rails`), with / without an `import guardrails` in the user's own Colang"""
    from vf.engines.world import World

    _v, with_import = task[0], task[1]
    res = {"worlds": 1, "turns": 0, "conversations": 0, "rejections": 0, "rewrites": 0, "llm_calls": 0, "rail_calls": 0, "viol": []}
    info0 = {"engine": "E3-world", "prop": "C01", "version": "2.x-yaml", "with_import": with_import}
    colang = "import core\n" + ("import guardrails\n" if with_import else "") + YAML_RAIL + rw.V2_MAIN_NODIALOG
    import warnings
    try:
        with warnings.catch_warnings():
            warnings.simplefilter("ignore")
            w = World(colang, 'colang_version: "2.x"\nrails:\n  input:\n    flows: [in1]\n')
    except Exception as e:
        res["viol"].append(("world-rejected:v2:yaml-configured-rail", repr(e), info0))
        return res
    w.rails.register_action(w._rail_action, name="VerifRailAction")
    w.rails.register_action(w._dialog_action, name="VerifLookupAction")
    tag = "v2:yaml-configured-rail" + ("" if with_import else ":without-own-import-of-guardrails")
    for seq in itertools.product("AR", repeat=2):
        state = {}
        res["conversations"] += 1
        for t, k in enumerate(seq, start=1):
            user_text = f"U{t}y{''.join(seq)}q hello"
            turn = rw.run_turn(w, [{"role": "user", "content": user_text}], {"in1": k}, llm_fn, state=state)
            res["turns"] += 1
            info = dict(info0, verdicts=list(seq), turn=t)
            if turn.exc is not None:
                res["viol"].append((f"generate-raised:{tag}", repr(turn.exc), info))
                break
            calls = [(a["rail"], a["text"]) for a in turn.actions if a.get("rail") == "in1"]
            res["rail_calls"] += len(calls)
            if calls != [("in1", user_text)]:
                res["viol"].append((f"input-rail-sequence:{tag}", f"turn {t} of verdicts {seq}: the configured input rail was invoked {calls}, expected once on {user_text!r}; reply {turn.text!r}", info))
                break
            if k == "R":
                res["rejections"] += 1
                if turn.text != "REFUSED-in1" or turn.llm_calls:
                    res["viol"].append((f"reply-is-not-the-refusal:{tag}", f"reply {turn.text!r}, {len(turn.llm_calls)} LLM call(s)", info))
                    break
            state = turn.reply.state
    seen, uniq = set(), []
    for v in res["viol"]:
        if v[0] not in seen:
            seen.add(v[0])
            uniq.append(v)
    res["viol"] = uniq
    return res


def explore_world(task):
    if task[0] == "2.x-yaml":
        return explore_yaml_world(task)
    version, order, dialog, exceptions, turns = task[:5]
    library = len(task) > 5 and task[5] == "library"
    res = {"worlds": 1, "turns": 0, "conversations": 0, "rejections": 0, "rewrites": 0, "llm_calls": 0, "rail_calls": 0, "viol": []}
    info0 = {"engine": "E3-world", "prop": "C01", "version": "2.x", "order": list(order), "dialog": dialog, "exceptions": exceptions, "library_rails": library}
    try:
        world = rw.v2_world(in_order=order, dialog=dialog, exceptions=exceptions, library=library)
    except Exception as e:
        res["viol"].append(("world-rejected:v2", repr(e), info0))
        return res
    outs = outcomes(order)
    paths = ["hello", "ask"] if dialog else ["free"]
    nonce = [0]

    def expand(state, t, hist):
        if t > turns:
            res["conversations"] += 1
            return
        for oc, path in itertools.product(outs, paths):
            nonce[0] += 1
            user_text = path if dialog else f"U{t}x{nonce[0]}q hello"
            verdicts, expected, rejected_by = {}, [], None
            for r, k in zip(order, oc):
                expected.append((r, user_text))
                verdicts[r] = k
                if k == "R":
                    rejected_by = r
                    break
            turn = rw.run_turn(world, [{"role": "user", "content": user_text}], verdicts, llm_fn, state=state)
            res["turns"] += 1
            res["llm_calls"] += len(turn.llm_calls)
            step = {"t": t, "user": user_text, "outcome": "".join(oc), "path": path}
            info = dict(info0, history=hist + [step])

            def bad(sig, what):
                res["viol"].append((f"{sig}:v2:{'dialog' if dialog else 'nodialog'}{':library-rails' if library else ''}", what, info))

            if turn.exc is not None:
                bad("generate-raised", f"{turn.exc!r}")
                continue
            in_calls = [(a["rail"], a["text"], a["seq"]) for a in turn.actions if a.get("rail") in rw.IN_RAILS]
            res["rail_calls"] += len(in_calls)
            got = [(r, x) for r, x, _ in in_calls]
            anything_ran = bool(turn.llm_calls) or any(a["action"] == "verif_lookup" for a in turn.actions) or bool(turn.text)
            if not got and not anything_ran and t > 1:
                # no flow was listening for this utterance: nothing at all processed it (no rail, but
                # also no dialog / generation step) - outside the statement; counted
                res["ignored_turns"] = res.get("ignored_turns", 0) + 1
                expand(turn.reply.state, t + 1, hist + [step])
                continue
            if got != expected:
                bad("input-rail-sequence", f"order={order} outcome={oc}: rails invoked {got}, expected {expected}")
                continue
            last = max([s for _, _, s in in_calls], default=0)
            dialog_steps = [a for a in turn.actions if a["action"] == "verif_lookup"]
            early = [c for c in turn.llm_calls if c["seq"] < last] + [a for a in dialog_steps if a["seq"] < last]
            if early:
                bad("dialog-or-generation-before-input-rails-finished", "a dialog action / LLM call ran before the last input rail")
            if rejected_by:
                res["rejections"] += 1
                if turn.llm_calls or dialog_steps:
                    bad("dialog-or-generation-after-rejection", f"rail {rejected_by} rejected but dialog action / LLM call ran ({len(dialog_steps)} / {len(turn.llm_calls)})")
                if exceptions:
                    evs = [e for e in reply_events(turn.reply) if e.get("type") == "InputRailException"]
                    if not evs or evs[0].get("message") != rw.v2_exc_message(rejected_by, library):
                        bad("reply-is-not-the-rail-exception", f"rail {rejected_by} rejected; response events {[e.get('type') for e in reply_events(turn.reply)]}, text {turn.text!r}")
                    if turn.text:
                        bad("text-despite-rail-exception", f"rail {rejected_by} raised its exception but the reply text is {turn.text!r}")
                elif turn.text != rw.v2_refusal(rejected_by, library):
                    bad("reply-is-not-the-refusal", f"rail {rejected_by} rejected; reply {turn.text!r}")
            else:
                if path != "hello" and not turn.llm_calls:
                    bad("no-generation-after-accept", f"all rails accepted but no generation happened; reply {turn.text!r}")
                if path == "hello" and turn.text != "PREDEF-greet-back":
                    bad("no-dialog-after-accept", f"all rails accepted but reply is {turn.text!r}")
                for c in turn.llm_calls:
                    if user_text not in c["prompt"]:
                        bad("prompt-lacks-user-text", "generation prompt does not contain the user text")
                        break
            expand(turn.reply.state, t + 1, hist + [step])

    expand({}, 1, [])
    seen, uniq = set(), []
    for v in res["viol"]:
        if v[0] not in seen:
            seen.add(v[0])
            uniq.append(v)
    res["viol"] = uniq
    res["sample"] = dict(info0, turns=res["turns"])
    return res


def tasks(tier):
    from vf.props.c01 import orders
    out = []
    plan = [(2, 2)] if tier == "quick" else [(3, 2), (2, 3)]
    seen = set()
    for max_rails, turns in plan:
        for order in orders(max_rails, reduced=(tier == "quick")):
            for dialog in (False, True):
                for exc in (False, True):
                    if (order, dialog, exc) in seen and turns <= 2:
                        continue
                    seen.add((order, dialog, exc))
                    out.append(("2.x", order, dialog, exc, turns))
    out.append(("2.x-yaml", True))
    out.append(("2.x-yaml", False))
    # the shipped `self check input` rail (its action replaced by a stub)
    for dialog in (False, True):
        for exc in (False, True):
            out.append(("2.x", ("in1",), dialog, exc, 2 if tier == "quick" else 3, "library"))
    return out


def replay(rp):
    if rp.get("version") == "2.x-yaml":
        r = explore_yaml_world(("2.x-yaml", rp["with_import"]))
        for sig, what, _i in r["viol"]:
            print(sig, ":", what)
        print(rp["what"])
        return 0
    world = rw.v2_world(in_order=tuple(rp["order"]), dialog=rp["dialog"], exceptions=rp["exceptions"], library=rp.get("library_rails", False))
    state = {}
    for step in rp["history"]:
        verdicts = {r: k for r, k in zip(rp["order"], step["outcome"])}
        turn = rw.run_turn(world, [{"role": "user", "content": step["user"]}], verdicts, llm_fn, state=state)
        print(step, "->", repr(turn.text), "events:", [e.get("type") for e in reply_events(turn.reply)],
              "| actions:", [(a.get("rail") or a["action"], a["text"]) for a in turn.actions], "| llm calls:", len(turn.llm_calls))
        if turn.reply is not None:
            state = turn.reply.state
    print(rp["what"])
    return 0
