"""C16, blocking-mode family: HOW a rail reports a block is a property of the configuration (`enable_rails_exceptions`:
a rail exception event instead of a refusal message), and the rail may be one of the SHIPPED Colang 1.0 rails
(`self check input`, `self check output`) instead of a flow of the application.  The table of the statement is the same:
the rails run in the configured order up to the one that blocks, nothing runs on a blocked text, the reply is the
refusal (exception mode: the exception message), the log lists the rails that ran with `stop` on exactly the blocking one.

Enumeration: rail sets {stub+stub (exception mode), shipped+stub, stub+shipped (both modes)} x the 6 selections without
`dialog` that contain `input` or `output` x every effective verdict vector (shipped rails: accept / reject; stub rails
also rewrite) of the two input / two output rails.  The shipped flows run unchanged; their actions `self_check_input` /
`self_check_output` are stand-ins that follow the verdict script (the real ones ask the LLM).
"""
from __future__ import annotations

import itertools

from vf.props import railsworld as rw

CATS = ["input", "dialog", "retrieval", "output"]
SUBSETS = [("input",), ("input", "retrieval"), ("output",), ("retrieval", "output"), ("input", "output"), ("input", "retrieval", "output")]
SHIPPED = {"in1": "self check input", "out1": "self check output"}
LIB_EXC = {"in1": "Input not allowed. The input was blocked by the 'self check input' flow.",
           "out1": "Output not allowed. The output was blocked by the 'self check output' flow."}
# (rail set, exceptions)
WORLDS = [("stub-stub", True), ("shipped-stub", False), ("shipped-stub", True), ("stub-shipped", False), ("stub-shipped", True)]
PROMPTS = ("prompts:\n  - task: self_check_input\n    content: \"check input: {{ user_input }}\"\n"
           "  - task: self_check_output\n    content: \"check output: {{ bot_response }}\"\n")


def orders(railset):
    """-> (input rails, output rails) as verdict-script names; in1 / out1 are the shipped rails when the set has them"""
    if railset == "stub-shipped":
        return ("in2", "in1"), ("out2", "out1")
    return ("in1", "in2"), ("out1", "out2")


def is_shipped(railset, r):
    return railset != "stub-stub" and r in SHIPPED


def flow_name(railset, r):
    return SHIPPED[r] if is_shipped(railset, r) else r


def make_world(railset, exceptions):
    from vf.props.c16 import RET, RET_YAML
    ins, outs = orders(railset)
    colang = "".join(rw.v1_rail(r, "input") for r in ins if not is_shipped(railset, r)) + "".join(rw.v1_rail(r, "output") for r in outs if not is_shipped(railset, r)) + RET
    yaml = ("rails:\n  input:\n    flows:\n" + "".join(f"      - {flow_name(railset, r)}\n" for r in ins)
            + "  output:\n    flows:\n" + "".join(f"      - {flow_name(railset, r)}\n" for r in outs) + RET_YAML
            + ("enable_rails_exceptions: True\n" if exceptions else "") + (PROMPTS if railset != "stub-stub" else ""))
    w = rw.World(colang, yaml)
    if railset != "stub-stub":
        async def self_check_input(context=None):
            return w._rail_sync("in1", (context or {}).get("user_message")) is not False

        async def self_check_output(context=None):
            return w._rail_sync("out1", (context or {}).get("bot_message")) is not False

        w.rails.register_action(self_check_input, name="self_check_input")
        w.rails.register_action(self_check_output, name="self_check_output")
    return w


def vectors(railset, order):
    """effective verdict vectors; a shipped rail accepts or rejects, a stub rail may also rewrite"""
    res = []

    def rec(i, acc):
        if i == len(order):
            res.append(tuple(acc))
            return
        for k in ("AR" if is_shipped(railset, order[i]) else "ARW"):
            if k == "R":
                res.append(tuple(acc + [k]))
            else:
                rec(i + 1, acc + [k])
    rec(0, [])
    return res


def blocked_reply(railset, exceptions, r):
    if exceptions:
        return "EXC:" + (LIB_EXC[r] if is_shipped(railset, r) else f"BLOCKED-{r}")
    return rw.LIB_REFUSAL if is_shipped(railset, r) else f"REFUSED-{r}"


def fold(railset, order, vec, text, prefix):
    verdicts, calls, cur, rej = {}, [], text, None
    for r, k in zip(order, vec):
        calls.append((r, cur))
        if k == "R":
            verdicts[r] = "R"
            rej = r
            break
        if k == "W":
            cur = f"{prefix}-{r}-rewritten"
            verdicts[r] = ("W", cur)
        else:
            verdicts[r] = "A"
    return verdicts, calls, cur, rej


def run_case(world, railset, exceptions, subset, in_vec, out_vec, nonce):
    sel = set(subset)
    ins, outs = orders(railset)
    user, bot = f"UX{nonce}q hello", f"BX{nonce}q supplied answer"
    verdicts, calls, log, reply, rej = {"ret1": "A"}, [], [], None, None
    if "input" in sel:
        v, c, cur, rej = fold(railset, ins, in_vec, user, f"RWU{nonce}q")
        verdicts.update(v)
        calls += c
        log += [("input", flow_name(railset, r), r == rej) for r, _ in c]
        reply = cur
    if "output" in sel and not rej:
        v, c, cur, rej = fold(railset, outs, out_vec, bot, f"RWB{nonce}q")
        verdicts.update(v)
        calls += c
        log += [("output", flow_name(railset, r), r == rej) for r, _ in c]
        reply = cur
    if rej:
        reply = blocked_reply(railset, exceptions, rej)
    msgs = [{"role": "user", "content": user}]
    if "output" in sel:
        msgs.append({"role": "assistant", "content": bot})
    turn = rw.run_turn(world, msgs, verdicts, lambda task, prompt, i: "UNEXPECTED-LLM-CALL", options={"rails": list(subset), "log": {"activated_rails": True}})
    return turn, {"calls": calls, "log": log, "reply": reply, "rejected": rej, "verdicts": verdicts, "messages": msgs}


def judge(turn, exp):
    if turn.exc is not None:
        return [("generate-raised", repr(turn.exc))]
    out = []
    calls = [(a["rail"], a["text"]) for a in turn.actions if a.get("rail") != "ret1"]
    if calls != exp["calls"]:
        out.append(("rail-sequence", f"rails invoked {calls}, expected {exp['calls']}"))
    if turn.llm_calls:
        out.append(("llm-generation-without-dialog", f"LLM tasks {[str(c['task']) for c in turn.llm_calls]}"))
    if turn.text != exp["reply"]:
        out.append(("reply-is-not-the-refusal" if exp["rejected"] else "reply-is-not-the-text", f"expected {exp['reply']!r}, got {turn.text!r}"))
    log = getattr(turn.reply, "log", None)
    ar = getattr(log, "activated_rails", None) if log is not None else None
    if ar is None:
        out.append(("no-activated-rails-log", "log.activated_rails missing"))
    else:
        got = [(r.type, r.name, bool(r.stop)) for r in ar if r.type in ("input", "output")]
        if got != exp["log"]:
            out.append(("log-activated-rails", f"log {got}, expected {exp['log']}"))
    return out


def cases(railset, subset):
    sel = set(subset)
    ins, outs = orders(railset)
    in_vs = vectors(railset, ins) if "input" in sel else [None]
    out_vs = vectors(railset, outs) if "output" in sel else [None]
    res = []
    for iv, ov in itertools.product(in_vs, out_vs):
        if iv is not None and "R" in iv and ov is not None and any(k != "A" for k in ov):
            continue    # the output rails do not run after a blocked input: one row per blocking input vector
        res.append((iv, ov))
    return res


def explore(task):
    _tag, railset, exceptions = task
    res = {"evaluations": 0, "rails_only_cases": 0, "blocked_cases": 0, "rewritten_cases": 0, "blocking_mode_cases": 0, "blocked_through_exception_cases": 0, "viol": []}
    world = make_world(railset, exceptions)
    seen = set()
    n = 0
    mode = "exception-mode" if exceptions else "refusal-mode"
    for subset in SUBSETS:
        key = "+".join(subset)
        for iv, ov in cases(railset, subset):
            n += 1
            turn, exp = run_case(world, railset, exceptions, subset, iv, ov, f"{railset[:2]}{int(exceptions)}n{n}")
            res["evaluations"] += 1
            res["blocking_mode_cases"] += 1
            res["blocked_cases" if exp["rejected"] else "rails_only_cases"] += 1
            if exp["rejected"] and exceptions:
                res["blocked_through_exception_cases"] += 1
            if any("W" in (v or ()) for v in (iv, ov)):
                res["rewritten_cases"] += 1
            if "sample" not in res and turn.exc is None and exp["rejected"] and exceptions:
                res["sample"] = {"family": "blocking-mode", "rails": railset, "enable_rails_exceptions": exceptions, "subset": list(subset),
                                 "in_vector": "".join(iv) if iv else None, "out_vector": "".join(ov) if ov else None, "observed_reply": turn.text,
                                 "rails_invoked": [[a.get("rail"), a["text"]] for a in turn.actions]}
            for stem, what in judge(turn, exp)[:1]:
                blocker = exp["rejected"]
                who = (f"blocked-by-{flow_name(railset, blocker).replace(' ', '-')}" if blocker else "nothing-blocked")
                sig = f"{stem}:{mode}:{railset}-rails:{who}:{key}"
                if sig in seen:
                    continue
                seen.add(sig)
                info = {"engine": "E3-world", "prop": "C16", "part": "blocking-mode", "railset": railset, "exceptions": exceptions, "subset": list(subset),
                        "in_vector": "".join(iv) if iv else None, "out_vector": "".join(ov) if ov else None}
                res["viol"].append((sig, f"rails {railset} (in1 / out1 = the shipped self check rails where 'shipped'), enable_rails_exceptions={exceptions}, "
                                         f"options rails {list(subset)}, verdicts in={iv} out={ov}: {what}", info))
    return res


def tasks():
    return [("blocking-mode", rs, exc) for rs, exc in WORLDS]


def replay(rp):
    world = make_world(rp["railset"], rp["exceptions"])
    iv = tuple(rp["in_vector"]) if rp["in_vector"] else None
    ov = tuple(rp["out_vector"]) if rp["out_vector"] else None
    turn, exp = run_case(world, rp["railset"], rp["exceptions"], tuple(rp["subset"]), iv, ov, "replay")
    print("rails", rp["railset"], "| enable_rails_exceptions", rp["exceptions"], "| options rails", rp["subset"], "| verdicts", exp["verdicts"])
    print("reply", repr(turn.text), "expected", repr(exp["reply"]), "| exception:", repr(turn.exc))
    print("rails invoked:", [(a.get("rail"), a["text"]) for a in turn.actions if a.get("rail") != "ret1"], "expected", exp["calls"], "| llm:", [str(c["task"]) for c in turn.llm_calls])
    log = getattr(turn.reply, "log", None)
    if log is not None:
        print("activated_rails:", [(r.type, r.name, r.stop) for r in log.activated_rails if r.type in ("input", "output")], "expected", exp["log"])
    for stem, what in judge(turn, exp):
        print("  ", stem, what)
    print(rp["what"])
    return 0
