"""C01, Colang 2.x (guardrails library): SEVERAL user messages handed over in ONE call
(`generate(messages=[user u1, user u2, ...], state=...)` - every user message of the list becomes an
`UtteranceUserActionFinished` event of the same processing cycle; `process_events([...])` with several utterance events is
the same thing).  Each of them is a user message: none may reach a dialog / generation step unless the input rails have seen
ITS text and accepted it.

Worlds: rail shape {stub rail that gets the text as the flow parameter `$input_text`, the SHIPPED `self check input` flow
(its action - replaced by a stub - takes the text from `context["user_message"]` exactly as the real one does)} x rail
exceptions {off,on}; a bot with one flow waiting for the next utterance and one activated flow that reacts to utterances nobody
waits for (what `llm continuation` does), both working on the transcript of THEIR event.
Enumerated: k utterances per call (2; thorough also 3), every verdict vector (the verdict is a function of the text the rail
action receives), the call being the first one of the conversation or following an ordinary accepted turn.

Oracle per utterance u_i: if a dialog action ran on u_i / a prompt quotes u_i / the reply quotes u_i, then a rail invocation
on u_i precedes it and its verdict was accept; no rail invocation is spent twice on one text while another message of the call
is judged on it.  Utterances that nothing at all processed (no listener) are outside the statement and counted."""
from __future__ import annotations

import itertools
import os

from vf.props import railsworld as rw

SEED = int(os.environ.get("VERIF_SEED", "0") or 0)      # salt of the texts only

MAIN = '''
flow handling unexpected
  user said something unexpected as $ref
  $ans = await VerifLookupAction(q=$ref.transcript)
  bot say "B:{$ref.transcript}"

flow main
  activate handling unexpected
  user said something as $ref
  $ans = await VerifLookupAction(q=$ref.transcript)
  bot say "A:{$ref.transcript}"
  match RestartEvent()
'''


def tasks(tier):
    out = []
    for library in (False, True):
        for exc in (False, True):
            out.append(("2.x-several-utterances", library, exc, 2))
            if tier != "quick":
                out.append(("2.x-several-utterances", library, exc, 3))
    return out


def run_case(library, exceptions, seq, after_a_turn, res, info0):
    from vf.props.c01_v2 import llm_fn, reply_events
    # (the refusal form - bot message or rail exception - is not part of the signature: the defect class is the same)
    tag = "v2:several-utterances-in-one-call" + (":library-rails" if library else "")
    w = rw.v2_world(in_order=("in1",), main=MAIN, library=library, exceptions=exceptions)
    state = {}
    info = dict(info0, verdicts="".join(seq), after_a_turn=after_a_turn)
    if after_a_turn:
        turn = rw.run_turn(w, [{"role": "user", "content": "U0 hello"}], {"in1": "A"}, llm_fn, state=state)
        res["turns"] += 1
        if turn.exc is not None or turn.reply is None:
            res["viol"].append((f"generate-raised:{tag}", repr(turn.exc), info))
            return
        state = turn.reply.state
    texts = [f"U{i}{k}q{'t' if after_a_turn else 'f'}s{SEED} text" for i, k in enumerate(seq, 1)]
    vm = dict(zip(texts, seq))
    turn = rw.run_turn(w, [{"role": "user", "content": t} for t in texts], {"in1": (lambda text: vm.get(text, "A"))}, llm_fn, state=state)
    res["turns"] += 1
    res["calls_with_several_utterances"] += 1
    res["llm_calls"] += len(turn.llm_calls)
    if turn.exc is not None:
        res["viol"].append((f"generate-raised:{tag}", repr(turn.exc), info))
        return
    rail_calls = [(a["text"], a["seq"]) for a in turn.actions if a.get("rail") == "in1"]
    res["rail_calls"] += len(rail_calls)
    if len(rail_calls) >= 2:
        res["calls_in_which_the_rails_ran_for_two_or_more_utterances"] += 1
    reply = turn.text or ""
    obs = (f"utterances {texts} with verdicts {''.join(seq)}{' (second call of the conversation)' if after_a_turn else ''}: rail action saw {[t for t, _ in rail_calls]}, "
           f"dialog actions ran on {[a['text'] for a in turn.actions if a['action'] == 'verif_lookup']}, reply {reply!r}")
    flagged = False
    for u, k in zip(texts, seq):
        handled = [a["seq"] for a in turn.actions if a["action"] == "verif_lookup" and a["text"] == u] + [c["seq"] for c in turn.llm_calls if u in c["prompt"]]
        in_reply = f":{u}" in reply
        seen = [s for t, s in rail_calls if t == u]
        if k == "R" and seen:
            res["rejections"] += 1
        if not handled and not in_reply:
            if not seen:
                res["ignored_utterances"] += 1
            continue
        if not seen or (handled and min(seen) > min(handled)):
            flagged = True
            res["viol"].append((f"unchecked-user-message-reached-dialog:{tag}", f"{u!r} was handled by the bot but no input rail invocation saw it before; {obs}", info))
        elif k == "R":
            flagged = True
            res["viol"].append((f"dialog-or-generation-after-rejection:{tag}", f"the rail rejected {u!r} but the bot handled it; {obs}", info))
    if not flagged:
        seen_texts = [t for t, _ in rail_calls]
        dup = [t for t in set(seen_texts) if seen_texts.count(t) > 1]
        foreign = [t for t in seen_texts if t not in texts]
        if foreign or (dup and any(u not in seen_texts for u in texts)):
            res["viol"].append((f"input-rail-sequence:{tag}", f"{len(rail_calls)} rail invocations for {len(texts)} messages, but not one per message; {obs}", info))
        elif exceptions and "R" in seq and any(vm[t] == "R" for t in seen_texts):
            evs = [e for e in reply_events(turn.reply) if e.get("type") == "InputRailException"]
            if not evs:
                res["viol"].append((f"reply-is-not-the-rail-exception:{tag}", obs, info))
        elif not exceptions and any(vm[t] == "R" for t in seen_texts) and rw.v2_refusal("in1", library) not in reply:
            res["viol"].append((f"reply-is-not-the-refusal:{tag}", obs, info))


def explore(task):
    _tag, library, exceptions, k = task
    res = {"worlds": 0, "turns": 0, "conversations": 0, "rejections": 0, "rewrites": 0, "llm_calls": 0, "rail_calls": 0, "viol": [],
           "calls_with_several_utterances": 0, "calls_in_which_the_rails_ran_for_two_or_more_utterances": 0, "ignored_utterances": 0}
    info0 = {"engine": "E3-world", "prop": "C01", "version": "2.x", "mode": "several-utterances", "library_rails": library, "exceptions": exceptions}
    for seq in itertools.product("RA", repeat=k):
        for after in (False, True):
            res["worlds"] += 1
            res["conversations"] += 1
            try:
                run_case(library, exceptions, seq, after, res, info0)
            except Exception as e:     # a world the library refuses to build
                res["viol"].append(("world-rejected:v2:several-utterances-in-one-call", repr(e), dict(info0, verdicts="".join(seq))))
                break
    seen, uniq = set(), []
    for v in res["viol"]:
        if v[0] not in seen:
            seen.add(v[0])
            uniq.append(v)
    res["viol"] = uniq
    res["sample"] = dict(info0, utterances_per_call=k, turns=res["turns"])
    return res


def replay(rp):
    res = {"worlds": 0, "turns": 0, "conversations": 0, "rejections": 0, "rewrites": 0, "llm_calls": 0, "rail_calls": 0, "viol": [],
           "calls_with_several_utterances": 0, "calls_in_which_the_rails_ran_for_two_or_more_utterances": 0, "ignored_utterances": 0}
    run_case(rp["library_rails"], rp["exceptions"], tuple(rp["verdicts"]), rp["after_a_turn"], res, {})
    for sig, what, _i in res["viol"]:
        print("observed:", sig, ":", what)
    print("expected: every utterance the bot handles was seen and accepted by the input rail before;", rp["what"])
    return 0
