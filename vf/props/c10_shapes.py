"""C10 - parts A / B / Y (helper module of c10.py), all driven through the real `RuntimeV2_x.process_events`.

Part A (activation in a sheltered position): part T activates its flows directly in `main` - when the activated flow fails
at once, `main` fails with it and the whole program stops, which hides what the restart logic does.  Here the activated
flow `w` is sheltered (`@active` decorator; `activate w` in a launcher that main starts below `when ... else`) and its
first statement activates / starts / awaits a child x every immediate child body (fails at once in different ways,
finishes at once, waits) x short histories; unrelated flows must still react.

Part B (faulty match inside a group): the faulty match statement of parts F / G as a member of an and- / or-group, of a
`when ... or when` statement - on plain events and on flow events - in a started / an activated flow.

Part Y (event shapes): "all events" - match statements with and without a reference (`as $r`), in groups and `when`
statements x event names around the UMIM action-event naming convention (the runtime turns every event whose name contains
`Action` into an action event) x the presence / type of an `action_uid` field.  Whatever the runtime makes of the event,
an unrelated flow that matches it reacts to it and to later events.
"""
from __future__ import annotations

import asyncio
import itertools
import signal

from vf import seams
from vf.props import c10 as base
from vf.props import c10_more as more

ind = base.ind

_BY = ('@loop("by")\nflow bystander\n  match E1()\n  send By1()\n  match E2()\n  send By2()\n  match Never()\n')
_WATCH = '@loop("watch")\nflow errwatch\n  match ColangError()\n  send ErrSeen()\n'

# ----------------------------------------------------------------------------- part A
A_FIRST = {
    "activate-child": ["activate c"],
    "start-child": ["start c"],
    "await-child": ["await c"],
    "start-child-then-wait-for-its-end": ["start c as $c", "match $c.Finished()"],
    "when-child": ["when c", "  send M1()", "else", "  send M2()"],
    "start-two-children": ["start c and d"],
}
A_CHILD = {
    "fails:abort": ["abort"],
    "fails:div-zero": ["$limit = 1 / 0"],
    "fails:bad-priority": ['priority "x"'],
    "fails:invalid-match": ["match $nope.Finished()"],
    "fails:after-action-start": ["start ActAAction()", "abort"],
    "finishes:send": ["send Tick()"],
    "finishes:return": ["return 1"],
    "waits": ["match E1()", "send ChildGotE1()"],
}
A_LAUNCH = ["active-decorator", "activate-in-guarded-launcher", "active-decorator-on-the-parent"]


def a_program(first, child, launch):
    c = "flow c\n" + ind(A_CHILD[child])
    d = "flow d\n  match Never()\n"
    w = "flow w\n" + ind(A_FIRST[first] + ["match Never()"])
    if launch == "active-decorator":
        w = "@active\n" + w
        rest = "flow main\n  activate errwatch\n  start bystander\n  match Never()\n"
    elif launch == "active-decorator-on-the-parent":
        rest = ("@active\nflow w0\n  activate w\n  match Never()\n\n"
                "flow main\n  activate errwatch\n  start bystander\n  match Never()\n")
    else:
        rest = ("flow launcher\n  activate w\n  match Never()\n\n"
                "flow main\n  activate errwatch\n  start bystander\n  when launcher\n    send L1()\n  else\n    send L2()\n  match Never()\n")
    return "\n".join([c, d, w, _BY, _WATCH, rest])


KNOWN_CLASS = "non-termination:activated-flow-waiting-only-for-immediately-finishing-child"


def a_task(task):
    first, child, launch = task
    src = a_program(first, child, launch)
    res = {"programs": 1, "histories": 0, "events": 0, "bystander_reactions": 0, "child_failures_reported": 0, "viol": []}
    info0 = {"engine": "C10-F", "source": src, "family": f"sheltered-activation:{first}:{child}:{launch}", "history": []}
    what0 = f"activated flow w = {A_FIRST[first] + ['match Never()']} ({launch}), child c = {A_CHILD[child]}"
    try:
        rt = base._runtime(src)
    except Exception as e:
        res["viol"].append((f"harness:program-rejected:sheltered-activation:{first}:{child}", repr(e)[:300], info0))
        return res
    n_elements = sum(len(cf.elements) for cf in rt.flow_configs.values())
    budget = 50 * (n_elements + 10)
    hists = [[], ["E1"], ["E1", "E2"], ["X", "E1", "E2"], ["E2", "E1", "E1"]]
    if seams.SEED % 2:
        hists.reverse()
    for hist in hists:
        res["histories"] += 1
        res["events"] += len(hist)
        loop = asyncio.new_event_loop()
        info = dict(info0, history=hist)
        try:
            signal.signal(signal.SIGALRM, base._alarm)
            signal.alarm(30)
            outs, _ = base.run_history(rt, [{"type": t} for t in hist], loop, budget)
        except (seams.StepBudgetExceeded, base.WallClockExceeded) as e:
            if child.startswith("finishes") and first in ("await-child", "when-child", "start-child-then-wait-for-its-end"):
                sig = KNOWN_CLASS
            elif child.startswith("fails"):
                sig = "non-termination:top-level-activated-flow-whose-child-fails-at-once"
            else:
                sig = f"non-termination:sheltered-activation:{first}:{child}"
            res["viol"].append((sig, f"process_events exceeded the step budget {budget} (history {hist}): {what0}: {type(e).__name__}", info))
            break
        except Exception as e:
            res["viol"].append((f"exception-escapes-process_events:sheltered-activation:{first}:{child}:{launch}", f"{what0}: {type(e).__name__}: {e}", info))
            continue
        finally:
            signal.alarm(0)
            loop.close()
        by = 0
        for i, t in enumerate(hist, start=1):
            want = []
            if by < 2 and t == f"E{by + 1}":
                by += 1
                want = [f"By{by}"]
            got = [o for o in outs[i] if o.startswith("By")]
            if got != want:
                res["viol"].append((f"bystander-disturbed:sheltered-activation:{first}:{child}:{launch}",
                                    f"{what0}; history {hist}: on event #{i} {t} the unrelated flow emitted {got}, expected {want}; outputs {outs}", info))
                break
            res["bystander_reactions"] += len(want)
        # (`@active` flows run before main has activated the error watcher)
        if launch == "activate-in-guarded-launcher" and child in ("fails:div-zero", "fails:bad-priority", "fails:invalid-match"):
            if "ErrSeen" in outs[0]:
                res["child_failures_reported"] += 1
            else:
                res["viol"].append((f"colang-error-not-reported:sheltered-activation:{first}:{child}:{launch}",
                                    f"{what0}: the child's faulty statement is evaluated at the start but no ColangError was observable; outputs {outs}", info))
    res["viol"] = more._uniq(res["viol"])
    return res


# ----------------------------------------------------------------------------- part B
B_SUBJECTS = {"E1": "E1(p={F})", "FlowStarted": "FlowStarted(flow_id={F})", "FlowFinished": "FlowFinished(flow_id={F})", "FlowFailed": "FlowFailed(flow_id={F})"}
B_FAULTS = {"div-zero": "1/0", "attribute-of-undefined-variable": "$settings.name"}
B_GROUPS = {
    "and-group": ["match {M} and Tick()"],
    "or-group": ["match {M} or Tick()"],
    "and-group-second-member": ["match Tick() and {M}"],
    "nested-group": ["match ({M} and Tick()) or Tock()"],
    "when-or-when": ["when {M}", "  send W1()", "or when Tick()", "  send W2()"],
}


def b_programs():
    out = []
    for subj, fault, group, vstart in itertools.product(B_SUBJECTS, B_FAULTS, B_GROUPS, ("start victim", "activate victim")):
        m = B_SUBJECTS[subj].replace("{F}", B_FAULTS[fault])
        body = [l.replace("{M}", m) for l in B_GROUPS[group]]
        src = ("flow ticker\n  match E1()\n\nflow failer\n  match E2()\n  abort\n\n"
               "flow victim\n" + ind(body + ["send VictimAfter()", "match Never()"]) + "\n"
               "flow launcher\n  " + vstart + "\n  match Never()\n\n" + base._G_BY + "\n" + base._G_WATCH + "\n"
               + base._g_main(["activate ticker", "activate failer", "when launcher", "  send L1()", "else", "  send L2()"]))
        out.append((f"faulty-match-in-a-group:{subj}:{fault}:{group}:{vstart.split()[0]}", src, None))
    return out


def b_task(task):
    name, src, err_on, maxlen = task
    r = base.g_task(task)
    _fam, subj, fault, group, vstart = name.split(":")
    viol = []
    for sig, what, info in r["viol"]:
        if sig.startswith("non-termination:") and vstart == "activate" and subj.startswith("Flow"):
            # one class: the restarted instance emits flow events, its own faulty statement is a candidate for them again
            sig = "non-termination:activated-flow-with-faulty-flow-event-match-in-a-group"
            what = (f"victim = {[l for l in src.split('flow victim')[1].split('flow launcher')[0].strip().splitlines()]} (activate victim): " + what)
        viol.append((sig, what, info))
    r["viol"] = more._uniq(viol)
    return r


# ----------------------------------------------------------------------------- part Y
# (a name ENDING with `Action` is an action, not an event: `match SensorAction()` is rejected by the parser)
Y_NAMES = ["Reading", "SensorActionReading", "ActionSensor", "PingActionPong", "StartSensorAction", "SensorActionStarted",
           "SensorActionFinished", "SensorActionValueUpdated", "StopSensorAction", "ChangeSensorAction"]
Y_FIELDS = {
    "no-action_uid": {},
    "action_uid-string": {"action_uid": "sensor-1"},
    "action_uid-none": {"action_uid": None},
    "action_uid-number": {"action_uid": 7},
}
Y_READERS = {
    "match-with-reference": ["match {N}() as $r", "send ReaderGotIt()"],
    "match-without-reference": ["match {N}()", "send ReaderGotIt()"],
    "match-with-reference-and-argument": ["match {N}(value=3) as $r", "send ReaderGotIt(v=$r.value)"],
    "or-group-with-references": ["match {N}() as $r or Other() as $o", "send ReaderGotIt()"],
    "and-group-with-references": ["match {N}() as $r and Later() as $o", "send ReaderGotIt()"],
    "when-with-reference": ["when {N}() as $r", "  send ReaderGotIt()", "or when Other()", "  send ReaderOther()"],
}


def y_program(name, reader, rstart):
    rd = "flow reader\n" + ind([l.replace("{N}", name) for l in Y_READERS[reader]] + ["match Never()"])
    other = f'@loop("other")\nflow other\n  match {name}()\n  send OtherReacted()\n'
    later = '@loop("later")\nflow later\n  match Later()\n  send LaterReacted()\n'
    main = f"flow main\n  activate errwatch\n  activate other\n  activate later\n  {rstart} reader\n  match Never()\n"
    return "\n".join([rd, other, later, _WATCH, main])


def y_task(task):
    name, reader, rstart = task
    src = y_program(name, reader, rstart)
    fam = "event-shape"
    res = {"programs": 1, "histories": 0, "events": 0, "bystander_reactions": 0, "reader_reactions": 0, "errors_reported": 0, "viol": []}
    info0 = {"engine": "C10-M", "prop": "C10", "source": src, "family": fam, "reader": reader, "name": name}
    try:
        rt = base._runtime(src)
    except Exception as e:
        res["viol"].append((f"harness:program-rejected:{fam}:{name}:{reader}", repr(e)[:300], info0))
        return res
    n_el, _n = more._n_elements(rt, src)
    budget = 50 * (n_el + 10)
    drive = more._Drive(rt, budget)
    try:
        try:
            drive.start()
        except BaseException as e:
            if isinstance(e, (KeyboardInterrupt, SystemExit)):
                raise
            res["viol"].append((f"harness:start-failed:{fam}:{name}:{reader}", repr(e)[:300], dict(info0, events=[])))
            return res
        fields = list(Y_FIELDS)
        if seams.SEED % 2:
            fields.reverse()
        for f in fields:
            ev = dict({"type": name, "value": 3}, **Y_FIELDS[f])
            events = [ev, {"type": "Later"}, dict(ev)]
            info = dict(info0, events=events, fields=f)
            what0 = f"reader = {[l.replace('{N}', name) for l in Y_READERS[reader]]} ({rstart} reader), events {events}"
            is_action_event = "Action" in name
            umim = any(k in name for k in ("Start", "Updated", "Finished", "Change", "Stop"))
            shape = ("action-event-name" if is_action_event else "plain-name") + (":umim" if is_action_event and umim else ":not-umim" if is_action_event else "")
            # one signature per class of input: kind of name x is there an action_uid x does the statement take a reference
            tail = (f"{shape}:{'with' if Y_FIELDS[f].get('action_uid') is not None else 'without'}-action_uid:"
                    f"{'with' if ' as $r' in Y_READERS[reader][0] else 'without'}-reference")
            res["histories"] += 1
            res["events"] += len(events)
            try:
                outs, _errs, _st = drive.run(events)
            except (seams.StepBudgetExceeded, base.WallClockExceeded) as e:
                res["viol"].append((f"non-termination:{fam}:{tail}", f"{what0}: one run_to_completion exceeded the step budget {budget}: {type(e).__name__}", info))
                if isinstance(e, base.WallClockExceeded):
                    break
                continue
            except Exception as e:
                res["viol"].append((f"exception-escapes-process_events:{fam}:{tail}", f"{what0}: {type(e).__name__}: {e}", info))
                continue
            types = [[o["type"] for o in step] for step in outs]
            want = [["OtherReacted"], ["LaterReacted"], ["OtherReacted"]]
            for i in range(3):
                got = [t for t in types[i] if t in ("OtherReacted", "LaterReacted")]
                if got != want[i]:
                    res["viol"].append((f"bystander-disturbed:{fam}:{tail}",
                                        f"{what0}: on event #{i + 1} {events[i]['type']} the unrelated flows emitted {got}, expected {want[i]}; outputs {types}", info))
                    break
                res["bystander_reactions"] += 1
            res["reader_reactions"] += sum(t.count("ReaderGotIt") for t in types)
            res["errors_reported"] += sum(t.count("ErrSeen") for t in types)
    finally:
        drive.close()
    res["viol"] = more._uniq(res["viol"])
    return res


# ----------------------------------------------------------------------------- dispatcher
def shape_task(t):
    idx, kind, payload = t
    return idx, kind, {"A": a_task, "B": b_task, "Y": y_task}[kind](payload)


def shape_tasks(tier):
    ts = [("A", (f, c, l)) for f, c, l in itertools.product(A_FIRST, A_CHILD, A_LAUNCH)]
    ts += [("B", (n, src, err_on, 2 if tier == "quick" else 3)) for n, src, err_on in b_programs()]
    ts += [("Y", (n, r, s)) for n, r, s in itertools.product(Y_NAMES, Y_READERS, ("start", "activate"))]
    return ts


def run_shapes(rep, tier, par):
    agg = {}
    ts = [(i, k, p) for i, (k, p) in enumerate(shape_tasks(tier))]
    for _i, kind, r in sorted(par.pmap(shape_task, ts), key=lambda x: x[0]):
        for sig, what, info in r.pop("viol"):
            rep.violation(sig, what, info)
        a = agg.setdefault(kind, {})
        for k, v in r.items():
            a[k] = a.get(k, 0) + v
    names = {"A": "sheltered_activation_", "B": "faulty_match_in_group_", "Y": "event_shape_"}
    for kind, a in agg.items():
        for k, v in a.items():
            rep.set(names[kind] + k, v)
    rep.assumptions.append(
        "part Y (event shapes): event names " + ", ".join(Y_NAMES) + " x " + ", ".join(Y_FIELDS) + " x reader forms " + ", ".join(Y_READERS)
        + "; the reader may or may not react / fail - only termination, no escaping exception and the reactions of the unrelated flows are judged")
    return agg
